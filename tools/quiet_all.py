#!/usr/bin/env python3
"""tools/quiet_all.py [workers [edit ids..]]: apply every behaviour-preserving edit of quiet/ALL.json to its own scratch copy, extract facts once
and run ALL property checks on it; report any rule that fires (beyond what is known/failing on the unchanged tree)."""
import importlib, json, os, shutil, sys
from concurrent.futures import ProcessPoolExecutor
HERE = os.path.dirname(os.path.dirname(os.path.abspath(__file__)))
sys.path.insert(0, os.path.join(HERE, 'engines', 'qrules'))
import core, sweep, facts as factsmod  # noqa
PROPS = sorted(f[:-3].upper() for f in os.listdir(os.path.join(HERE, 'engines', 'qrules', 'rules')) if f.startswith('c') and f.endswith('.py'))


def one(q):
    d, dst = sweep.make_scratch(core.REPO)
    try:
        for e in q['edits']:
            if not sweep.apply_edit(dst, e):
                return q['id'], 'not-applicable', {}
        out = sweep.facts_for(dst)
        if out is None:
            return q['id'], 'does-not-compile', {}
        F = factsmod.Facts(out)
        res = {}
        for prop in PROPS:
            mod = importlib.import_module('rules.' + prop.lower())
            ck = core.Check(prop, 'quick', F)
            try:
                mod.run(ck)
            except Exception as ex:  # noqa
                ck.ob('internal', 'checker-exception', False, '', repr(ex))
            bad = ['%s %s' % (o['rule'], o['key']) for o in ck.obligations if not o['ok'] and ck._known(o['rule'], o['key']) is None]
            bad += ['%s anchor-lost(%s)' % (f['rule'], f['what']) for f in ck.floors if not f['ok']]
            if bad and prop not in (q.get('review_needed_by') or {}):
                res[prop] = bad[:5]
        return q['id'], 'ok', res
    finally:
        shutil.rmtree(d, ignore_errors=True)


if __name__ == '__main__':
    qs = json.load(open(os.path.join(HERE, 'quiet', 'ALL.json')))
    only = [a for a in sys.argv[2:]]
    if only:
        qs = [q for q in qs if q['id'] in only]
    bad = 0
    with ProcessPoolExecutor(max_workers=int(sys.argv[1]) if len(sys.argv) > 1 else 6) as ex:
        for qid, st, res in ex.map(one, qs):
            print(qid, st, res if res else 'silent everywhere')
            bad += 1 if res or st != 'ok' else 0
    print('quiet edits with an alarm or not applied:', bad)
