#!/usr/bin/env python3
"""tools/sweep.py Cnn [workers]: run the mutant + quiet sweeps for one property and print the outcome."""
import sys, os, json
sys.path.insert(0, os.path.join(os.path.dirname(os.path.dirname(os.path.abspath(__file__))), 'engines', 'qrules'))
import sweep
res, fails = sweep.sweep(sys.argv[1], workers=int(sys.argv[2]) if len(sys.argv) > 2 else 6)
for k in ('mutants', 'quiet'):
    for r in res[k]:
        print(k, r['id'], r['status'], r.get('expect_rule', ''), r['fired'][:3])
print('FAILURES:', fails)
