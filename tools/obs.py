#!/usr/bin/env python3
"""Debug helper: print every obligation of one property check on the current /repo tree."""
import sys, os, importlib
sys.path.insert(0, os.path.join(os.path.dirname(os.path.dirname(os.path.abspath(__file__))), 'engines', 'qrules'))
import core, facts
fdir, _ = core.get_facts_dir()
F = facts.Facts(fdir)
prop = sys.argv[1]
ck = core.Check(prop, 'quick', F)
m = importlib.import_module('rules.' + prop.lower())
m.run(ck)
for o in ck.obligations:
    if len(sys.argv) > 2 and sys.argv[2] not in o['rule']:
        continue
    print('%s %-5s %s | %s | %s' % ('ok ' if o['ok'] else 'BAD', o['rule'], o['key'], o['loc'], o['detail'][:150]))
for f in ck.floors:
    print('floor', f)
