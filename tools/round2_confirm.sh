#!/bin/bash
# tools/round2_confirm.sh <P> <src m-dir name> <new seed id> <dest: tests|lib/tests> <test name> '<detected_by json>'
# confirms a round-2 seeded change in its agent worktree (HEAD of /repo) and keeps it under /verif/seeded/<new id>/
P=$1; M=$2; ID=$3; DEST=$4; T=$5; DET=$6
SRC=/tmp/seed/out${ROUND:-2}/$P/$M
WT=/tmp/seed/w${ROUND:-2}-$P
if [ "$DEST" = "lib/tests" ]; then CMD="cargo test -p qmluic --offline --test $T"; else CMD="cargo test --offline --test $T"; fi
# copy only the .rs demo into the test dir (other demo files stay in demo/)
TMPSEED=$(mktemp -d /tmp/seed/cf.XXXX); mkdir -p $TMPSEED/demo; cp $SRC/patch.diff $TMPSEED/; cp $SRC/demo/$T.rs $TMPSEED/demo/
R=$(CARGO_NET_OFFLINE=true bash /verif/tools/confirm_seed.sh $WT $TMPSEED $DEST $CMD 2>&1 | tail -4)
echo "$R" | tail -2
rm -rf $TMPSEED
if echo "$R" | grep -q "^CONFIRMED"; then
  python3 /verif/tools/keep_seed.py $SRC $ID "$CMD (demo $T.rs in $DEST/)" "$DET"
  python3 - <<PY
import json
p='/verif/seeded/$ID/meta.json'
m=json.load(open(p)); m["round"]=int("${ROUND:-2}"); m['base']='/repo HEAD with the fix: commits ($(git -C $WT rev-parse --short HEAD 2>/dev/null || echo unknown))'
m['confirmed_by_me']['how']=m['confirmed_by_me']['how'].replace('pinned commit','current /repo HEAD').replace('pinned tree','clean worktree')
json.dump(m,open(p,'w'),indent=1)
PY
else echo "NOT KEPT $ID"; fi
