#!/usr/bin/env python3
"""Regenerates /verif/MANIFEST.json from the rule modules' metadata (keeps it valid at all times)."""
import importlib
import json
import os
import sys

HERE = os.path.dirname(os.path.dirname(os.path.abspath(__file__)))
sys.path.insert(0, os.path.join(HERE, 'engines', 'qrules'))

NA = {
    'C13': 'Not decidable by static analysis in reach: the observable is the trace of property writes/method calls/log calls produced by '
           'executing generated C++ when a signal fires, for all handler bodies and argument values; overload choice, parameter binding '
           'and side-effect order are value-level. The structural residue (rejection arms diagnose, parameter assignability direction, '
           'per-callback emitters agree) is claimed under C04/C05/C16. See DESIGN.md section 5.',
}
NOT_BUILT = 'No check is registered for this property at this commit (rule module not built yet); see DESIGN.md for the planned static rules.'


def main():
    checks = []
    na = []
    served = []
    for i in range(1, 21):
        pid = 'C%02d' % i
        try:
            mod = importlib.import_module('rules.' + pid.lower())
        except ModuleNotFoundError:
            na.append({'property_id': pid, 'reason': NA.get(pid, NOT_BUILT)})
            continue
        served.append(pid)
        checks.append({
            'property_id': pid,
            'quick_cmd': './check %s --tier quick' % pid,
            'thorough_cmd': './check %s --tier thorough' % pid,
            'evidence_file': '/verif/evidence/%s.json' % pid,
            'replay_cmd_template': './check --replay {path}',
            'engine': 'qfacts+qrules',
            'level_claimed': {
                'category': getattr(mod, 'LEVEL', 'other'),
                'text': getattr(mod, 'LEVEL_TEXT', ''),
                'design_ref': getattr(mod, 'DESIGN_REF', 'DESIGN.md section 4.' + pid),
            },
            'level_note': getattr(mod, 'LEVEL_NOTE', ''),
            'technique': getattr(mod, 'TECHNIQUE', 'static analysis over rustc HIR/MIR facts'),
        })
    man = {
        'version': 1,
        'setup_cmd': 'cd /verif/engines/qfacts && CARGO_NET_OFFLINE=true cargo build --release --offline && cd /verif && python3 -m compileall -q engines/qrules',
        'hooks': {
            'guard': 'yuja_qmluic_verif',
            'enable': 'none needed: the checks read the compiler\'s view of the unmodified sources (cargo +nightly check with the qfacts driver as RUSTC_WORKSPACE_WRAPPER); the guard name is reserved and unused',
            'baseline_off_cmd': 'cd /repo && cargo test --workspace --no-fail-fast --offline',
            'source_commits': [],
            'add_only': True,
        },
        'engines': [
            {'name': 'qfacts', 'path': 'engines/qfacts', 'serves_properties': served,
             'kind_free_text': 'rustc_private driver (nightly, zero cargo deps): dumps typed HIR trees, MIR CFGs with resolved callees and ADT layouts of every workspace crate as JSON'},
            {'name': 'qrules', 'path': 'engines/qrules', 'serves_properties': served,
             'kind_free_text': 'Python rule engine: taint/dataflow, decision-table evaluation, who-may-call, dominance and typestate rules over the facts; reviewed instance tables and external oracles'},
        ],
        'checks': checks,
        'not_applicable': na,
        'notes': 'Technique family: static analysis only. Every check re-extracts facts from /repo\'s current working tree (cached by source hash) and decides rule instances; nothing executes qmluic or its tests. Known genuine defects are listed in known_findings.json.',
    }
    with open(os.path.join(HERE, 'MANIFEST.json'), 'w') as fh:
        json.dump(man, fh, indent=1)
    print('MANIFEST.json: %d checks, %d not_applicable' % (len(checks), len(na)))


if __name__ == '__main__':
    main()
