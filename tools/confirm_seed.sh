#!/bin/bash
# tools/confirm_seed.sh <worktree> <seed_dir> <demo_dest_rel_dir> <demo test cmd...>
# Confirms a seeded change: (1) demo passes on the pinned tree, (2) full suite green with the patch, (3) demo fails with the patch.
# Leaves the worktree clean. Prints CONFIRMED or NOT-CONFIRMED.
set -u
WT="$1"; SEED="$2"; DEST="$3"; shift 3
cd "$WT" || exit 2
git checkout -q -- . && git clean -fdq -e target
cp -r "$SEED"/demo/* "$DEST"/ 2>/dev/null
rm -f "$DEST/README.md"
echo "--- demo on pinned tree"
if "$@" >/tmp/confirm_base.log 2>&1; then BASE=pass; else BASE=fail; fi
echo "base: $BASE"; tail -3 /tmp/confirm_base.log
git apply "$SEED/patch.diff" || { echo "NOT-CONFIRMED (patch does not apply)"; exit 1; }
echo "--- demo with patch"
if "$@" >/tmp/confirm_mut.log 2>&1; then MUT=pass; else MUT=fail; fi
echo "mutant: $MUT"; grep -E "test result|panicked|FAILED|failed" /tmp/confirm_mut.log | head -5
echo "--- full suite with patch (demo files removed)"
git clean -fdq -e target
if cargo test --workspace --offline --no-fail-fast >/tmp/confirm_suite.log 2>&1; then SUITE=green; else SUITE=red; fi
grep -E "^test result" /tmp/confirm_suite.log | awk '{p+=$4; f+=$6} END {print "suite passed=" p " failed=" f}'
git checkout -q -- . && git clean -fdq -e target
if [ "$BASE" = pass ] && [ "$MUT" = fail ] && [ "$SUITE" = green ]; then echo CONFIRMED; else echo "NOT-CONFIRMED base=$BASE mut=$MUT suite=$SUITE"; fi
