#!/usr/bin/env python3
"""tools/keep_seed.py <seed_out_dir> <id> <demo_cmd> <detected_by_json>: copy a confirmed seeded change into /verif/seeded/<id>/."""
import json, os, shutil, sys
src, sid, demo_cmd, detected = sys.argv[1:5]
dst = os.path.join('/verif/seeded', sid)
shutil.rmtree(dst, ignore_errors=True)
os.makedirs(dst)
shutil.copy(os.path.join(src, 'patch.diff'), dst)
shutil.copytree(os.path.join(src, 'demo'), os.path.join(dst, 'demo'))
meta = json.load(open(os.path.join(src, 'meta.json')))
meta['id'] = sid
meta['breaks_property'] = meta.get('property')
meta['confirmed_by_me'] = {
    'how': 'tools/confirm_seed.sh in a scratch worktree of the pinned commit: demo passes on the pinned tree, fails with patch.diff applied; full suite (cargo test --workspace --offline) stays green with the patch',
    'demo_cmd': demo_cmd,
    'result': 'CONFIRMED',
}
meta['detected_by'] = json.loads(detected)
json.dump(meta, open(os.path.join(dst, 'meta.json'), 'w'), indent=1)
print('kept', dst)
