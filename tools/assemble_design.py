#!/usr/bin/env python3
"""tools/assemble_design.py: (re)generate section 10 of DESIGN.md from notes/design-section10.md, the evidence files
(rule explanations), seeded/*/meta.json + seeded/MATRIX.json (seed table) and notes/round2-notes.md."""
import glob
import json
import os
import re
import textwrap

V = os.path.dirname(os.path.dirname(os.path.abspath(__file__)))


def rules_text():
    out = []
    for p in ['C%02d' % i for i in range(1, 21)]:
        try:
            ev = json.load(open(os.path.join(V, 'evidence', p + '.json')))
        except OSError:
            continue
        c = ev['coverage']
        out.append('**%s** — %d obligations on this tree, %d functions analysed, level `%s`.' % (p, c['obligations'], c.get('functions_analysed', 0), ev['level']))
        out.append('')
        out.append(textwrap.fill(c['explanation'], 100))
        out.append('')
    return '\n'.join(out)


def seeds_table():
    mp = os.path.join(V, 'seeded', 'MATRIX.json')
    matrix = json.load(open(mp))['matrix'] if os.path.exists(mp) else {}
    rows = ['| seed | round | changed (file: function) | what it needs to manifest | own check: first rule instances that fire | also fires |', '|---|---|---|---|---|---|']
    for d in sorted(glob.glob(os.path.join(V, 'seeded', 'C*-m*'))):
        m = json.load(open(os.path.join(d, 'meta.json')))
        sid = m['id']
        own = sid.split('-')[0]
        fires = (matrix.get(sid) or {}).get('fires', {})
        ownf = fires.get(own, [])
        others = sorted(p for p in fires if p != own)

        def cell(s, n):
            s = re.sub(r'\s+', ' ', (s or '').replace('|', '\\|'))
            return s if len(s) <= n else s[:n - 1] + '…'
        rows.append('| %s | %s | %s: %s | %s | %s | %s |' % (
            sid, m.get('round', 1), cell(m.get('file'), 40), cell(m.get('function'), 60), cell(m.get('needs_to_manifest'), 160),
            cell('; '.join(ownf[:2]) or ('(see detected_by: %s)' % '; '.join((m.get('detected_by') or {}).get('rules', [])[:1])), 150), ' '.join(others) or '—'))
    n = len(rows) - 2
    missed = [s for s, v in matrix.items() if not v.get('fires', {}).get(s.split('-')[0])]
    tail = '\n\n%d kept seeds; detected by the check of their own property: %d; not detected: %s.' % (n, n - len(missed), missed or 'none')
    return '\n'.join(rows) + tail


def main():
    sec = open(os.path.join(V, 'notes', 'design-section10.md')).read()
    r2 = os.path.join(V, 'notes', 'round2-notes.md')
    r3 = os.path.join(V, 'notes', 'round3-notes.md')
    r4 = os.path.join(V, 'notes', 'round4-notes.md')
    rounds = (open(r2).read() if os.path.exists(r2) else '') + (open(r3).read() if os.path.exists(r3) else '') + (open(r4).read() if os.path.exists(r4) else '')
    sec = sec.replace('@@RULES@@', rules_text()).replace('@@SEEDS@@', seeds_table()).replace('@@ROUND2@@', rounds)
    # live counts
    muts = sum(len(json.load(open(f))) for f in glob.glob(os.path.join(V, 'mutants', 'C*.json')))
    quiet = len(json.load(open(os.path.join(V, 'quiet', 'ALL.json'))))
    rows = len(json.load(open(os.path.join(V, 'tables', 'panic_sites.json'))).get('rows', [])) if os.path.exists(os.path.join(V, 'tables', 'panic_sites.json')) else 0
    sec = re.sub(r'breaking edits per property \(\d+\)', 'breaking edits per property (%d)' % muts, sec)
    sec = re.sub(r'behaviour-preserving edits \(\d+\)', 'behaviour-preserving edits (%d)' % quiet, sec)
    p = os.path.join(V, 'DESIGN.md')
    s = open(p).read()
    s = re.sub(r'\(8–14 per property, \d+ in total\)', '(8–15 per property, %d in total)' % muts, s)
    i = s.find('## 10. As built')
    if i >= 0:
        s = s[:i]
    s = s.rstrip('\n') + '\n\n---------------------------------------------------------------------------\n\n' + sec
    open(p, 'w').write(s)
    print('DESIGN.md: %d lines; mutants %d, quiet %d' % (s.count('\n'), muts, quiet))


if __name__ == '__main__':
    main()
