#!/usr/bin/env python3
"""One-off generator for tables/panic_sites.json: joins the current site inventory with the hand-written review
(reasons below, from the site-by-site reading recorded in notes/reviewed-instances.md). Re-running it never invents
rows: a site without a review entry is left out (and the check then reports it as unreviewed)."""
import json, os, sys, glob
sys.path.insert(0, '/verif/engines/qrules')
import facts, panicsites

R = {}  # (fn, kind-prefix) -> (reason, guard or None)
def r(fn, kind, reason, guard=None, status='safe'):
    R[(fn, kind)] = (reason, guard, status)

# objtree
r('ObjectTree::build', 'macro:assert', 'post-order construction pushes the root last: populate_node_rec returns the index of the node it pushed and nothing is pushed after it')
r('ObjectTree::update_id_map', 'unwrap', 'the occupied entry was inserted from an object whose object_id() was Some (only such objects are inserted into id_map)')
r('ObjectTree::update_id_map', 'index', 'index stored in id_map was a valid nodes index when inserted; nodes only grows')
r('ObjectTree::root', 'unwrap', 'ObjectTree::build only returns a tree after populate_node_rec pushed the root node')
r('ObjectTree::get_by_id', 'index', 'index from id_map: valid nodes index (nodes only grows)')
r('ObjectNode::name', 'unwrap', 'ensure_object_names() runs in ObjectTree::build before the tree is returned and sets every name')
r('ObjectNode::flat_index', 'macro:assert', 'self.data is an element of tree.nodes, so its address is >= the base address')
r('ObjectNode::flat_index', 'div', 'size_of_val of a non-zero-sized struct is non-zero')
r('ObjectNode::children', 'index', 'child indices were produced by populate_node_rec for nodes already pushed')
# qmlast
r('node_text', 'unwrap', 'tree-sitter node ranges lie on character boundaries of the valid UTF-8 source (trusted base)')
r('strip_radix_prefix', 'index', 'each slice start equals the byte length of the ASCII prefix tested by starts_with on the same string', {'kind': 'prefix'})
r('unescape_char', 'index', 'slice after a starts_with test of the same string (1 byte for the backslash / u / x, 2 for "u{"); the end bound len-1 >= 2 follows from starts_with("u{") && ends_with(\'}\')', {'kind': 'prefix'})
r('unescape_char', 'unwrap', 'inside `tail.len() == 1`: a non-empty str has a first char')
r('FormalParameter::node', 'unwrap', 'a formal-parameter name node is never the tree root')
r('UiObjectDefinition::build_attached_type_map', 'unwrap', 'UiObjectBody::with_cursor pushes into attached_type_bindings only names for which split_type_name_prefix() is Some')
r('UiObjectDefinition::build_attached_type_map', 'macro:unreachable', 'attached_type_bindings only receives Scalar binding nodes (grouped ones take the other branch in with_cursor)')
r('UiBindingValue::binding_node', 'unwrap', 'a binding value node is never the tree root')
r('ensure_ui_binding_map_bases', 'unwrap', 'a NestedIdentifier that parsed Ok has at least one component')
r('VariableDeclarator::node', 'unwrap', 'a declarator name node is never the tree root')
r('NestedIdentifier::node', 'index', 'guarded by components.len() == 1')
r('NestedIdentifier::node', 'unwrap', 'a parsed NestedIdentifier has >= 1 component; its last component node has a parent (the member expression)')
r('NestedIdentifier::split_type_name_prefix', 'call', 'n comes from position() over the same components slice, so n < len')
r('NestedIdentifier::split_type_name_prefix', 'macro:debug_assert', 'position() found an index n with 1 <= n < len, so both parts are non-empty')
r('NestedIdentifier::to_string', 'index', 'guarded by components.len() == 1')
r('populate_directories', 'unwrap', 'under p.is_file(): a file path has a parent')
r('UiDocument::parse', 'unwrap', 'Parser::parse returns None only on timeout/cancellation/no language; none is configured and new_parser() sets the language')
r('UiDocument::collect_syntax_errors', 'macro:assert', 'only children with has_error() are queued, and the root is checked by the caller')
r('new_parser', 'unwrap', 'grammar ABI is fixed at build time by the pinned tree-sitter and tree-sitter-qmljs crates')
# qtname
r('UniqueNameGenerator::generate_with_reserved_map', 'unwrap', 'pigeonhole: len+1 candidates cannot all be keys of a map with len entries')
r('to_ascii_capitalized', 'index', 'under name.starts_with(|c| c.is_ascii_lowercase()): first byte exists and is a 1-byte char', {'kind': 'prefix'})
r('to_ascii_capitalized', 'unwrap', 'only an ASCII first byte was changed to another ASCII byte: still valid UTF-8')
r('to_ascii_uncapitalized', 'index', 'under name.starts_with(|c| c.is_ascii_uppercase()): first byte exists and is a 1-byte char', {'kind': 'prefix'})
r('to_ascii_uncapitalized', 'unwrap', 'only an ASCII first byte was changed to another ASCII byte: still valid UTF-8')
r('callback_to_signal_name', 'index', 'slice at 2 only after name.starts_with("on")', {'kind': 'prefix'})
r('is_std_set_property', 'index', 'f[3..] after f.starts_with("set"); the other two slices start at the utf-8 length of the first char h of name, resp. 3 + that length after f[3..].starts_with(h.to_ascii_uppercase()) (to_ascii_uppercase keeps the encoded length); && short-circuits', {'kind': 'prefix', 'first_only': True})
r('variable_name_for_type', 'index', 'after type_name.starts_with([\'Q\',\'K\']) (1-byte chars)', {'kind': 'prefix'})
# tir builder
r('CodeBuilder::current_basic_block_ref', 'macro:assert', 'CodeBody::empty() starts with one block; blocks are only pushed')
r('CodeBuilder::current_basic_block_mut', 'unwrap', 'CodeBody::empty() starts with one block; blocks are only pushed')
r('CodeBuilder::get_basic_block_mut', 'index', 'BasicBlockRef values are only minted by mark_branch_point()/current_basic_block_ref() for existing blocks')
r('<CodeBuilder as ExpressionVisitor>::visit_local_ref', 'index', 'LocalRef values are minted by alloca()/visit_let for existing locals')
r('<CodeBuilder as ExpressionVisitor>::visit_local_assignment', 'index', 'LocalRef values are minted by alloca()/visit_let for existing locals')
r('<CodeBuilder as ExpressionVisitor>::visit_function_parameter', 'macro:assert_eq', 'walk_callback_function visits all parameters before the body, so no other local exists yet')
r('<CodeBuilder as ExpressionVisitor>::visit_object_method_call', 'call', 'index i comes from enumerate() over the same vector')
r('<CodeBuilder as ExpressionVisitor>::visit_builtin_call', 'index', 'each arm first checks arguments.len() (== 2 for max/min, == 1 for tr) and returns an error otherwise')
r('<CodeBuilder as ExpressionVisitor>::visit_binary_expression', 'macro:panic', 'walk_expr dispatches BinaryOp::Logical to visit_binary_logical_expression; the switch lowering passes Comparison', {'kind': 'callers_never_pass', 'variant': 'Logical'})
r('<CodeBuilder as ExpressionVisitor>::visit_binary_logical_expression', 'macro:assert_eq', 'walk_expr calls it only after check_condition_type() accepted both operands as bool', {'kind': 'callers_dominated_by', 'callee': 'check_condition_type', 'count': 2})
r('<CodeBuilder as ExpressionVisitor>::visit_binary_logical_expression', 'unwrap', 'alloca() fails only for void; the type here is the constant BOOL')
r('<CodeBuilder as ExpressionVisitor>::visit_switch_statement', 'call', 'walk_stmt calls it only when every case condition and every body was built (lengths equal), and default position p <= cases.len()', {'kind': 'switch_guard'})
r('<CodeBuilder as ExpressionVisitor>::visit_switch_statement', 'macro:assert_eq', 'case_conditions.len() == cases (caller guard); the start-label vector holds one entry per body (nothing for a switch without clauses; was finding F12 before c4014f5), bodies.len() == cases + (default ? 1 : 0) (caller guard), and the default one is removed: both sides equal cases', {'kind': 'switch_guard', 'starts_per_body': True})
r('CodeBuilder::emit_binary_expression', 'macro:panic', 'only reached from visit_binary_expression with a non-Logical op (see there)')
# tir core
r('CodeBody::finalize_completion_values', 'index', 'indices are BasicBlockRef values of this body or loop counters below basic_blocks.len(); reachable and incoming_map are sized basic_blocks.len()')
r('CodeBody::finalize_completion_values', 'macro:assert', 'called once by the builder while the current block is still open; blocks on the incoming chain end in Br or are open')
r('BasicBlock::terminator', 'unwrap', 'every block is finalized by the visit_* that allocated it, the last one by finalize_completion_values (C06 R6.2)')
r('BasicBlock::set_completion_value', 'macro:assert', 'builder discipline: statements are only pushed to the open current block')
r('BasicBlock::push_statement', 'macro:assert', 'builder discipline: statements are only pushed to the open current block')
r('BasicBlock::finalize', 'macro:assert', 'each label is finalized exactly once (C06 R6.1/R6.2)')
r('Local::new', 'macro:assert', 'alloca() rejects void before constructing the Local')
# interpret
r('EvaluatedValue::unwrap_integer', 'macro:panic', 'definition of a typed unwrap; not called on the generate path (used by tests)')
r('EvaluatedValue::unwrap_string', 'macro:panic', 'definition of a typed unwrap; every call site is guarded by a type check (R7.2)')
r('EvaluatedValue::unwrap_string_list', 'macro:panic', 'definition of a typed unwrap; every call site is guarded by a type check (R7.2)')
r('EvaluatedValue::unwrap_enum_set', 'macro:panic', 'definition of a typed unwrap; every call site is guarded by a type check (R7.2)')
r('EvaluatedValue::unwrap_object_ref', 'macro:panic', 'definition of a typed unwrap; every call site is guarded by a type check (R7.2)')
r('EvaluatedValue::unwrap_into_simple_value', 'macro:panic', 'definition of a typed unwrap; every call site is guarded by a type check (R7.2)')
r('evaluate_code', 'index', 'block and local refs of this body; visited_blocks/locals are sized from the body; args[0] under args.len() == 1')
r('evaluate_code', 'macro:unreachable', 'no Unreachable block is reachable from block 0: finalize_completion_values gives the marker only to blocks that no live edge enters (C06 R6.4, re-checked here); was finding F3b before the fix of finalize_completion_values', {'kind': 'shared', 'check': 'C06', 'rule': 'R6.4', 'keys': ['unreachable-implies-dead', 'entry-block-reachable', 'brcond-targets-reachable', 'all-br-predecessors-redirected']})
r('to_evaluated_value', 'index', 'LocalRef of this body; locals sized from the body')
# propdep
r('analyze_block', 'index', 'block index below basic_blocks.len(); LocalRef of this body; locals sized from the body')
r('analyze_block', 'macro:panic', 'a pointer-typed receiver operand is NamedObject or Local: null.x is rejected by to_concrete_type in the builder')
r('analyze_block', 'call', 'insert position `line` <= statements.len() (enumerate index of an existing statement, shifted by earlier inserts)')
# typedexpr
r('walk_stmt', 'call', 'Vec::insert(d.position, ..): the default position counts the case/default clauses before it (C01 R1.11, re-checked here), hence <= cases.len() = body_statements.len()', {'kind': 'shared', 'check': 'C01', 'rule': 'R1.11', 'keys': ['default-position-counts-clauses']})
r('walk_expr', 'index', 'i >= 1 from enumerate().skip(1) over ns, so i-1 and i index ns')
# typemap
r('TypeSpace::get_type_scoped', 'unwrap', 'str::split yields at least one item')
r('TypeSpace::resolve_type_scoped', 'unwrap', 'str::split yields at least one item')
r('MethodDataTable::get_method_with', 'macro:assert', 'partition_point returns a value <= len')
r('MethodDataTable::get_method_with', 'index', 'start <= len from partition_point; count from take_while over methods[start..]; [start] only when count == 1')
r('Method::argument_name', 'index', 'callers iterate 0..arguments_len()')
r('Method::argument_type', 'index', 'callers pass an index below arguments_len() (argument_type(0) under arguments_len() != 0 in class.rs)')
r('Method::argument_type_name', 'index', 'callers iterate 0..arguments_len()')
r('NamespaceData::get_type_with', 'index', 'indices stored in name_map by the push_* functions for existing elements')
r('NamespaceData::get_enum_by_variant_with', 'index', 'indices stored in enum_variant_map by extend_enums for existing elements')
r('TypeMap::with_primitive_types', 'unwrap', '"double" is in PrimitiveType::ALL, so the alias target exists')
# uigen
r('CxxEvalExprFunction::build', 'macro:assert_eq', 'binding code comes from tir::build, which declares no parameters')
r('CxxEvalExprFunction::build', 'unwrap', 'the writer is a Vec<u8>: io::Write for Vec never fails')
r('CxxCallback::build', 'index', 'locals.len() >= parameter_count (parameters are the first locals)')
r('CxxCallback::build', 'unwrap', 'the writer is a Vec<u8>: io::Write for Vec never fails')
r('CxxCodeBodyTranslator::translate', 'index', 'locals.len() >= parameter_count (parameters are the first locals)')
r('CxxCodeBodyTranslator::format_rvalue', 'unwrap', 'visit_object_property checks is_readable(), visit_object_property_assignment checks is_writable() before emitting the rvalue (C05 R5.6)')
r('BuildDocContext::code_map_for_object', 'index', 'object_code_maps is built by mapping flat_iter() of the same tree, flat_index() < nodes.len()')
r('SerializableValue::build', 'typed-unwrap', 'R7.2', {'kind': 'typed'})
r('parse_as_value_type', 'typed-unwrap', 'R7.2', {'kind': 'typed'})
r('build_item_model', 'typed-unwrap', 'R7.2', {'kind': 'typed'})
r('extract_static_string', 'typed-unwrap', 'R7.2 (all callers guarded)', {'kind': 'typed_callers'})
r('extract_string_list', 'typed-unwrap', 'R7.2 (all callers guarded)', {'kind': 'typed_callers'})
r('LayoutIndexCounter::next', 'div', 'columns/rows come from LayoutFlow::parse, which rejects values <= 0 with a diagnostic and falls back to a positive default', {'kind': 'layout_flow_positive'})
r('maybe_insert_into_opt_i32_array', 'index', 'the array is resized to index+1 before the access')
r('uniquify_methods', 'unwrap', 'MethodMatches::Overloaded holds at least two methods')
r('PropertyCode::binding_node', 'unwrap', 'a binding value node is never the tree root')
r('CallbackCode::binding_node', 'unwrap', 'a binding value node is never the tree root')
r('verify_callback_parameter_type', 'index', 'locals.len() >= parameter_count (asserted when parameters are declared); [arguments_len()] only under parameter_count > arguments_len()')
r('Widget::build', 'unwrap', 'object refs may carry generated names (implicit this / menuAction()) that are not ids: get_by_id returns None', None, 'finding')
r('make_doc_module_space', 'macro:assert', 'the builtins module is inserted by TypeMap::with_primitive_types, which every TypeMap constructor goes through')
# cli
r('UiViewer::spawn_program', 'unwrap', 'preview only: the child was spawned with piped stdin/stdout two lines above')
r('main', 'exit', 'R7.6: constant status 1')
r('dump_metatypes', 'unwrap', 'dump-metatypes only: NamedTempFile::new() names are ASCII under the temp dir (a non-UTF-8 TMPDIR would panic: outside generate-ui/preview, noted)')
r('generate_ui', 'unwrap', 'project_diagnostics only has entries for paths that populate_directories read into docs_cache')
r('preview', 'unwrap', 'project_diagnostics only has entries for paths that populate_directories read into docs_cache; canonicalize() of a file path has a parent')

def main():
    fdir = sorted(glob.glob('/verif/.cache/facts/*/'), key=os.path.getmtime)[-1]
    F = facts.Facts(fdir)
    rows = []
    missing = []
    for c in F.all_crates():
        for s in panicsites.inventory(c):
            fn, kind, what = s['key'].split('|', 2)
            k = (fn, kind)
            if k not in R:
                k = (fn, kind.split(':')[0])
            if k not in R:
                missing.append(s['key'])
                continue
            reason, guard, status = R[k]
            row = {'key': s['key'], 'status': status, 'reason': reason}
            if guard:
                row['guard'] = guard
            rows.append(row)
    json.dump({'_doc': 'C07 R7.1: reviewed panic-capable sites. key = short fn | kind | what [#ordinal]; never line numbers. guard = relation re-validated on every run.', 'sites': rows},
              open('/verif/tables/panic_sites.json', 'w'), indent=1)
    print(len(rows), 'rows;', len(missing), 'missing')
    for m in missing:
        print('  MISSING', m)

main()
