#!/usr/bin/env python3
"""tools/try_patch.py <patch.diff> Cnn [Cmm...]: apply a patch to a scratch copy of /repo and run the given checks' rules on it."""
import sys, os, subprocess, shutil
sys.path.insert(0, os.path.join(os.path.dirname(os.path.dirname(os.path.abspath(__file__))), 'engines', 'qrules'))
import sweep, core
patch = os.path.abspath(sys.argv[1])
d, dst = sweep.make_scratch(core.REPO)
try:
    r = subprocess.run(['patch', '-p1', '-s', '-i', patch], cwd=dst)
    if r.returncode != 0:
        print('patch failed'); sys.exit(2)
    # one extraction for all props
    import tempfile, importlib, facts as factsmod
    out = tempfile.mkdtemp(prefix='qverif_facts_', dir='/tmp')
    r = subprocess.run([os.path.join(core.VERIF, 'engines', 'extract.sh'), dst, out], stdout=subprocess.PIPE, stderr=subprocess.PIPE, text=True)
    if r.returncode != 0:
        print('does not compile'); print(r.stderr[-2000:]); sys.exit(3)
    F = factsmod.Facts(out)
    props = sys.argv[2:]
    if props == ['all']:
        props = sorted(f[:-3].upper() for f in os.listdir(os.path.join(core.VERIF, 'engines', 'qrules', 'rules')) if f.startswith('c') and f.endswith('.py'))
    for prop in props:
        mod = importlib.import_module('rules.' + prop.lower())
        ck = core.Check(prop, 'quick', F)
        try:
            mod.run(ck)
        except Exception as e:
            import traceback; traceback.print_exc()
            ck.ob('internal', 'checker-exception', False, '', repr(e))
        bad = [o for o in ck.obligations if not o['ok'] and ck._known(o['rule'], o['key']) is None]
        fl = [f for f in ck.floors if not f['ok']]
        print(prop, 'FIRES' if bad or fl else 'silent')
        for b in bad[:8]:
            print('   ', b['rule'], b['key'], b['loc'], '|', b['detail'][:160])
        for f in fl:
            print('    floor', f)
    shutil.rmtree(out, ignore_errors=True)
finally:
    shutil.rmtree(d, ignore_errors=True)
