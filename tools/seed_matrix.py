#!/usr/bin/env python3
"""tools/seed_matrix.py [workers [seed ids..]]: apply every kept seeded change (seeded/<id>/patch.diff) to its own scratch copy of /repo,
extract facts once, run ALL property checks on it, and record which rule instances fire (beyond what fires on the unchanged tree).
Writes seeded/MATRIX.json and refreshes `detected_by_run` in each meta.json. /repo is never touched."""
import glob
import importlib
import json
import os
import shutil
import subprocess
import sys
import tempfile
from concurrent.futures import ProcessPoolExecutor

HERE = os.path.dirname(os.path.dirname(os.path.abspath(__file__)))
sys.path.insert(0, os.path.join(HERE, 'engines', 'qrules'))
import core  # noqa: E402
import facts as factsmod  # noqa: E402
import sweep  # noqa: E402

PROPS = sorted(f[:-3].upper() for f in os.listdir(os.path.join(HERE, 'engines', 'qrules', 'rules')) if f.startswith('c') and f.endswith('.py'))


def failing(F):
    out = {}
    for prop in PROPS:
        mod = importlib.import_module('rules.' + prop.lower())
        ck = core.Check(prop, 'quick', F)
        try:
            mod.run(ck)
        except Exception as e:  # noqa
            ck.ob('internal', 'checker-exception', False, '', repr(e))
        bad = ['%s %s' % (o['rule'], o['key']) for o in ck.obligations if not o['ok']]
        bad += ['%s anchor-lost(%s)' % (f['rule'], f['what']) for f in ck.floors if not f['ok']]
        out[prop] = sorted(set(bad))
    return out


def one(seed_dir):
    sid = os.path.basename(seed_dir.rstrip('/'))
    d, dst = sweep.make_scratch(core.REPO)
    out = tempfile.mkdtemp(prefix='qverif_facts_', dir='/tmp')
    try:
        r = subprocess.run(['patch', '-p1', '-s', '-i', os.path.join(seed_dir, 'patch.diff')], cwd=dst, stdout=subprocess.PIPE, stderr=subprocess.PIPE)
        if r.returncode != 0:
            return sid, 'patch-does-not-apply', {}
        r = subprocess.run([os.path.join(HERE, 'engines', 'extract.sh'), dst, out], stdout=subprocess.PIPE, stderr=subprocess.PIPE, text=True)
        if r.returncode != 0:
            return sid, 'does-not-compile', {}
        return sid, 'ok', failing(factsmod.Facts(out))
    finally:
        shutil.rmtree(d, ignore_errors=True)
        shutil.rmtree(out, ignore_errors=True)


def main():
    workers = int(sys.argv[1]) if len(sys.argv) > 1 else 8
    fdir = core.get_facts_dir()
    fdir = fdir[0] if isinstance(fdir, tuple) else fdir
    base = failing(factsmod.Facts(fdir))
    seeds = sorted(glob.glob(os.path.join(HERE, 'seeded', 'C*-m*')))
    matrix = {}
    only = set(sys.argv[2:])
    if only:
        # partial run: only the named seeds, merged into the existing matrix
        seeds = [s for s in seeds if os.path.basename(s) in only]
        mp0 = os.path.join(HERE, 'seeded', 'MATRIX.json')
        if os.path.exists(mp0):
            with open(mp0) as fh:
                matrix = {k: v for k, v in json.load(fh)['matrix'].items() if os.path.isdir(os.path.join(HERE, 'seeded', k))}
    with ProcessPoolExecutor(max_workers=workers) as ex:
        for sid, status, bad in ex.map(one, seeds):
            new = {p: [b for b in v if b not in base.get(p, [])] for p, v in bad.items()}
            new = {p: v for p, v in new.items() if v}
            matrix[sid] = {'status': status, 'fires': new}
            own = sid.split('-')[0]
            print(sid, status, 'own:%d' % len(new.get(own, [])), 'others:', sorted(p for p in new if p != own))
            mp = os.path.join(HERE, 'seeded', sid, 'meta.json')
            with open(mp) as fh:
                m = json.load(fh)
            m['detected_by_run'] = {p: v[:6] for p, v in new.items()}
            with open(mp, 'w') as fh:
                json.dump(m, fh, indent=1)
    with open(os.path.join(HERE, 'seeded', 'MATRIX.json'), 'w') as fh:
        json.dump({'_doc': 'seed id -> property -> rule instances that fail with the seed applied and pass on the unchanged tree (first 50)', 'base_failing': base,
                   'matrix': {k: {'status': v['status'], 'fires': {p: x[:50] for p, x in v['fires'].items()}} for k, v in matrix.items()}}, fh, indent=1)
    missed = [s for s, v in matrix.items() if not v['fires'].get(s.split('-')[0])]
    print('seeds not detected by their own property check:', missed)


if __name__ == '__main__':
    main()
