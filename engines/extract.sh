#!/bin/bash
# usage: extract.sh <repo-dir> <out-dir> [extra cargo args...]
# Runs the qfacts driver over the workspace in <repo-dir>; writes JSON facts to <out-dir>.
set -u
REPO="$1"; OUT="$2"; shift 2
HERE="$(cd "$(dirname "$0")" && pwd)"
DRV="$HERE/qfacts/target/release/qfacts"
if [ ! -x "$DRV" ]; then
  (cd "$HERE/qfacts" && CARGO_NET_OFFLINE=true cargo build --release --offline >&2) || exit 3
fi
mkdir -p "$OUT"
TD="$(mktemp -d /tmp/qfacts_td.XXXXXX)"
trap 'rm -rf "$TD"' EXIT
SYSROOT="$(rustc +nightly --print sysroot)"
cd "$REPO" || exit 3
CARGO_INCREMENTAL=0 QFACTS_OUT="$OUT" LD_LIBRARY_PATH="$SYSROOT/lib" \
  RUSTFLAGS="-Zmir-opt-level=0 -Awarnings" RUSTC_WORKSPACE_WRAPPER="$DRV" \
  CARGO_TARGET_DIR="$TD" CARGO_NET_OFFLINE=true \
  cargo +nightly check --offline --workspace "$@" >"$OUT/cargo.log" 2>&1
rc=$?
if [ $rc -ne 0 ]; then
  tail -40 "$OUT/cargo.log" >&2
  exit 4
fi
for f in qmluic-lib qmluic-bin qmluic_cli-lib; do
  [ -s "$OUT/$f.json" ] || { echo "missing facts $f" >&2; exit 5; }
done
exit 0
