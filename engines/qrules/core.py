"""Check context: obligations, floors, violations, known findings, evidence, replay."""
import hashlib
import json
import os
import subprocess
import sys
import time
import fcntl

VERIF = os.path.dirname(os.path.dirname(os.path.dirname(os.path.abspath(__file__))))
REPO = os.environ.get('QMLUIC_REPO', '/repo')
CACHE = os.path.join(VERIF, '.cache')


# ---------------------------------------------------------------------------
# facts acquisition


def source_hash(repo):
    h = hashlib.sha256()
    roots = []
    for dirpath, dirnames, filenames in os.walk(repo):
        dirnames[:] = sorted(d for d in dirnames if d not in ('target', '.git', 'node_modules'))
        for fn in sorted(filenames):
            if fn.endswith('.rs') or fn in ('Cargo.toml', 'Cargo.lock', 'build.rs'):
                roots.append(os.path.join(dirpath, fn))
    for p in roots:
        h.update(os.path.relpath(p, repo).encode())
        h.update(b'\0')
        with open(p, 'rb') as fh:
            h.update(fh.read())
        h.update(b'\0')
    # the driver is part of the key
    drv = os.path.join(VERIF, 'engines', 'qfacts', 'src')
    for fn in sorted(os.listdir(drv)):
        with open(os.path.join(drv, fn), 'rb') as fh:
            h.update(fh.read())
    return h.hexdigest()[:24]


def get_facts_dir(repo=REPO, extra_args=(), tag=''):
    """Extract (or reuse) compiler facts for the current working tree of `repo`."""
    os.makedirs(CACHE, exist_ok=True)
    key = source_hash(repo) + tag
    out = os.path.join(CACHE, 'facts', key)
    lock_path = os.path.join(CACHE, 'lock')
    with open(lock_path, 'w') as lock:
        fcntl.flock(lock, fcntl.LOCK_EX)
        if os.path.exists(os.path.join(out, 'OK')):
            return out, True
        tmp = out + '.tmp%d' % os.getpid()
        subprocess.run(['rm', '-rf', tmp])
        cmd = [os.path.join(VERIF, 'engines', 'extract.sh'), repo, tmp] + list(extra_args)
        r = subprocess.run(cmd, stdout=subprocess.PIPE, stderr=subprocess.PIPE, text=True)
        if r.returncode != 0:
            sys.stderr.write(r.stderr[-4000:])
            subprocess.run(['rm', '-rf', tmp])
            raise ExtractError('fact extraction failed (rc=%d): the tree does not compile under cargo +nightly check?' % r.returncode)
        with open(os.path.join(tmp, 'OK'), 'w') as fh:
            fh.write('ok')
        subprocess.run(['rm', '-rf', out])
        os.makedirs(os.path.dirname(out), exist_ok=True)
        os.rename(tmp, out)
        _prune_cache(os.path.join(CACHE, 'facts'), keep=6)
        return out, False


def _prune_cache(d, keep):
    try:
        ents = [(os.path.getmtime(os.path.join(d, e)), e) for e in os.listdir(d)]
    except OSError:
        return
    ents.sort(reverse=True)
    now = time.time()
    for mt, e in ents[keep:]:
        if now - mt < 1800:
            continue        # possibly in use by a concurrent run: entries are touched when they are handed out
        subprocess.run(['rm', '-rf', os.path.join(d, e)])


class ExtractError(Exception):
    pass


# ---------------------------------------------------------------------------


class Check:
    """One property check run.  Rules call `ob()` for each obligation and `floor()`
    for each anchor count; `finish()` writes evidence and prints the verdict lines."""

    def __init__(self, prop, tier, facts, level='other'):
        self.prop = prop
        self.tier = tier
        self.facts = facts
        self.level = level
        self.t0 = time.time()
        self.obligations = []   # dicts: rule,key,ok,loc,detail,nontrivial
        self.floors = []        # dicts: rule,count,minimum,ok
        self.notes = []
        self.rules = {}         # rule id -> text
        self.explanation = ''
        self.assumptions = []
        self.trusted_base = []
        self.extra = {}
        self.functions = set()
        with open(os.path.join(VERIF, 'known_findings.json')) as fh:
            self.known = json.load(fh)['findings']

    # -- recording -----------------------------------------------------
    def rule(self, rid, text):
        self.rules[rid] = text

    def ob(self, rule, key, ok, loc='', detail='', nontrivial=True, fn=None):
        self.obligations.append({'rule': rule, 'key': key, 'ok': bool(ok), 'loc': loc, 'detail': detail,
                                 'nontrivial': nontrivial})
        if fn:
            self.functions.add(fn)
        return ok

    def floor(self, rule, count, minimum, what=''):
        ok = count >= minimum
        self.floors.append({'rule': rule, 'count': count, 'minimum': minimum, 'ok': ok, 'what': what})
        return ok

    def note(self, s):
        self.notes.append(s)

    def analysed(self, fn_path):
        self.functions.add(fn_path)

    # -- verdict -------------------------------------------------------
    def finish(self):
        viol = []
        known_reported = []
        for o in self.obligations:
            if o['ok']:
                continue
            kf = self._known(o['rule'], o['key'])
            if kf is not None:
                known_reported.append((o, kf))
            else:
                viol.append(o)
        for f in self.floors:
            if not f['ok']:
                viol.append({'rule': f['rule'], 'key': 'anchor-lost', 'ok': False, 'loc': '',
                             'detail': 'anchor lost: rule %s found %d instance(s) of %s, expected at least %d '
                                       '(a rule matching too few sites would pass vacuously; this reports a lost anchor, '
                                       'not necessarily a broken property)' % (f['rule'], f['count'], f['what'], f['minimum']),
                             'nontrivial': True})
        # de-duplicate by (rule,key)
        seen = set()
        uniq = []
        for v in viol:
            k = (v['rule'], v['key'])
            if k in seen:
                continue
            seen.add(k)
            uniq.append(v)
        viol = uniq
        replay_dir = os.path.join(VERIF, 'replay', self.prop)
        os.makedirs(replay_dir, exist_ok=True)
        for o, kf in known_reported:
            print('KNOWN-FINDING: property=%s %s [%s %s at %s]' % (self.prop, kf['what'], o['rule'], o['key'], o['loc']))
        for v in viol:
            name = '%s-%s.json' % (v['rule'].replace('/', '_'), hashlib.sha1(v['key'].encode()).hexdigest()[:10])
            path = os.path.join(replay_dir, name)
            with open(path, 'w') as fh:
                json.dump({'property': self.prop, 'rule': v['rule'], 'key': v['key'], 'loc': v['loc'],
                           'detail': v['detail'], 'rule_text': self.rules.get(v['rule'], '')}, fh, indent=1)
            print('%s: rule %s (%s): %s :: %s' % (v['loc'] or '-', v['rule'], self.rules.get(v['rule'], '')[:100], v['key'], v['detail']))
            print('VIOLATION property=%s replay=%s' % (self.prop, path))
        self._write_evidence(viol, known_reported)
        n_ob = len(self.obligations)
        n_ok = sum(1 for o in self.obligations if o['ok'])
        print('%s [%s]: %d obligations, %d discharged, %d known finding(s), %d violation(s), %d floor(s) ok, %.1fs' % (
            self.prop, self.tier, n_ob, n_ok, len(known_reported), len(viol),
            sum(1 for f in self.floors if f['ok']), time.time() - self.t0))
        return 1 if viol else 0

    def _known(self, rule, key):
        for kf in self.known:
            if kf.get('status') != 'open':
                continue
            if kf['property'] == self.prop and kf['rule'] == rule and kf['key'] == key:
                return kf
        return None

    def _write_evidence(self, viol, known_reported):
        n_ob = len(self.obligations)
        n_ok = sum(1 for o in self.obligations if o['ok'])
        distinct = set()
        for o in self.obligations:
            if o['nontrivial']:
                distinct.add((o['rule'], o['key']))
        samples = []
        per_rule = {}
        for o in self.obligations:
            per_rule.setdefault(o['rule'], []).append(o)
        for rid in sorted(per_rule):
            for o in per_rule[rid][:4]:
                samples.append({'rule': rid, 'instance': o['key'], 'at': o['loc'], 'discharge': o['detail'][:300],
                                'ok': o['ok']})
        rule_counts = {rid: {'instances': len(v), 'ok': sum(1 for o in v if o['ok']), 'text': self.rules.get(rid, '')}
                       for rid, v in sorted(per_rule.items())}
        cov = {
            'explanation': self.explanation,
            'obligations': n_ob,
            'discharged': n_ok,
            'evaluations': n_ob,
            'distinct_nontrivial': len(distinct),
            'rule': 'one obligation per (rule, code site) instance enumerated from the compiler facts of the current '
                    'tree; non-trivial = needed a discharge argument (not auto-discharged by type); distinct = distinct (rule, site key)',
            'samples': samples,
            'rules': rule_counts,
            'floors': self.floors,
            'functions_analysed': len(self.functions),
            'functions_analysed_sample': sorted(self.functions)[:40],
            'known_findings_reported': [{'rule': o['rule'], 'key': o['key'], 'what': kf['what']} for o, kf in known_reported],
            'checker_cmd': './check %s --tier %s' % (self.prop, self.tier),
            'trusted_base': self.trusted_base or ['rustc nightly front end (name resolution, typeck, MIR build)',
                                                   'reviewed instance tables under /verif/tables',
                                                   'oracle files under /verif/oracles'],
            'facts_dir': os.path.basename(self.facts.dir),
            'notes': self.notes[:50],
            'exhaustive': True,
        }
        cov.update(self.extra)
        ev = {
            'property_id': self.prop,
            'tier': self.tier,
            'seed': int(os.environ.get('VERIF_SEED', '0') or 0),
            'level': self.level,
            'coverage': cov,
            'assumptions': self.assumptions,
            'wall_s': round(time.time() - self.t0, 2),
            'violations': len(viol),
        }
        os.makedirs(os.path.join(VERIF, 'evidence'), exist_ok=True)
        p = os.path.join(VERIF, 'evidence', self.prop + '.json')
        tmp = p + '.tmp%d' % os.getpid()
        with open(tmp, 'w') as fh:
            json.dump(ev, fh, indent=1, sort_keys=True)
        os.replace(tmp, p)


class Shared:
    """Run another property's rule module on the same facts and re-file selected obligations under a rule of this check."""

    def __init__(self, outer, rule, select, prefix, suffix=''):
        self.o = outer
        self.facts = outer.facts
        self.tier = getattr(outer, 'tier', 'quick')
        self.depth = getattr(outer, 'depth', 0) + 1
        self.extra = {}
        self.explanation = ''
        self._rule, self._select, self._prefix, self._suffix = rule, select, prefix, suffix
        self.count = 0

    def rule(self, *a):
        pass

    def analysed(self, *a):
        pass

    def note(self, *a):
        pass

    def floor(self, *a, **k):
        pass

    def ob(self, rule, key, ok, loc='', detail='', nontrivial=True, fn=None):
        if self._select(rule, key):
            self.count += 1
            self.o.ob(self._rule, self._prefix + key, ok, loc, detail + self._suffix, nontrivial, fn)


def load_table(name):
    with open(os.path.join(VERIF, 'tables', name)) as fh:
        return json.load(fh)


def load_oracle(name):
    with open(os.path.join(VERIF, 'oracles', name)) as fh:
        return json.load(fh)
