"""A4: evaluation of pure decision-table functions (match on enum-shaped values) over an abstract term domain.

Values are terms: tuples ('Variant', arg, ...) for enum values, Python bool/int/str for literals, ('&', v) is never
produced (references are transparent). Unknown constructs raise Undecided, which the caller reports as "anchor lost"
for that table cell rather than as a verdict.
"""
from facts import walk, short, pp
import hirutil as H


class Undecided(Exception):
    pass


OPAQUE = ('#opaque',)


def last(p):
    return (p or '').split('::')[-1]


class Interp:
    def __init__(self, crate, stubs=None, consts=None, max_depth=12, lenient=False):
        self.lenient = lenient  # unknown calls yield an opaque value instead of Undecided (branching on it is still Undecided)
        self.crate = crate
        self.stubs = stubs or {}      # callee path suffix -> python fn(args) -> value
        self.consts = consts or {}    # const def path -> value
        self.max_depth = max_depth

    # ---- constants -----------------------------------------------------------------
    def const_value(self, path):
        if path in self.consts:
            return self.consts[path]
        fn = self.crate.fns.get(path)
        if fn is None:
            cands = [f for f in self.crate.fn_list if f['path'] == path and f['dk'] in ('Const', 'AssocConst')]
            fn = cands[0] if cands else None
        if fn is None or fn['dk'] not in ('Const', 'AssocConst'):
            raise Undecided('unknown constant %s' % path)
        v = self.eval(fn['body'], {}, fn, 0)
        self.consts[path] = v
        return v

    # ---- patterns ------------------------------------------------------------------------
    def match(self, pat, val, env, fn):
        k = pat.get('k')
        if k == 'Wild':
            return True
        if val == OPAQUE and k not in ('Bind', 'PRef', 'PDeref'):
            raise Undecided('refutable pattern against an opaque value')
        if k == 'Bind':
            if 'sub' in pat and not self.match(pat['sub'], val, env, fn):
                return False
            env[pat['hid']] = val
            return True
        if k in ('PRef', 'PDeref'):
            return self.match(pat['p'], val, env, fn)
        if k == 'POr':
            for a in pat['alts']:
                e2 = dict(env)
                if self.match(a, val, e2, fn):
                    env.update(e2)
                    return True
            return False
        if k == 'PTup' and not pat['subs']:
            return val == ('#unit',) or val == ('#tup',)
        if k == 'PTup':
            if not (isinstance(val, tuple) and val and val[0] == '#tup' and len(val) - 1 == len(pat['subs'])):
                raise Undecided('tuple pattern against %r' % (val,))
            return all(self.match(s, v, env, fn) for s, v in zip(pat['subs'], val[1:]))
        if k == 'PTS':
            name = last(pat.get('def'))
            if not (isinstance(val, tuple) and val and val[0] == name):
                return False
            if len(pat['subs']) != len(val) - 1:
                if 'dd' in pat:
                    return True
                raise Undecided('arity of %s' % name)
            return all(self.match(s, v, env, fn) for s, v in zip(pat['subs'], val[1:]))
        if k == 'PPath':
            if pat.get('dk') in ('Const', 'AssocConst'):
                return self.const_value(pat['def']) == val
            return isinstance(val, tuple) and len(val) == 1 and val[0] == last(pat.get('def'))
        if k == 'PLit':
            return pat.get('v') == val
        if k == 'PStruct':
            name = last(pat.get('def'))
            if isinstance(val, tuple) and len(val) == 3 and val[0] == '#struct':
                if val[1] != name:
                    return False
                for f in pat.get('fields', []):
                    if f['f'] not in val[2]:
                        raise Undecided('field %s of %s' % (f['f'], name))
                    if not self.match(f['p'], val[2][f['f']], env, fn):
                        return False
                return True
            return isinstance(val, tuple) and bool(val) and val[0] == name
        raise Undecided('pattern kind %s' % k)

    # ---- expressions -----------------------------------------------------------------------
    def eval(self, e, env, fn, depth):
        if depth > self.max_depth:
            raise Undecided('depth')
        k = e.get('k')
        if e.get('x') == 'format':
            return ('#str',)
        if k == 'Lit':
            return e.get('v')
        if k == 'Index':
            b = self.eval(e['e'], env, fn, depth)
            i = self.eval(e['i'], env, fn, depth)
            if isinstance(b, tuple) and b and b[0] == '#vec' and isinstance(i, int) and 0 <= i < len(b) - 1:
                return b[1 + i]
            raise Undecided('index %r[%r]' % (b, i))
        if k in ('AddrOf', 'Cast'):
            return self.eval(e['e'], env, fn, depth)
        if k == 'Unary':
            v = self.eval(e['e'], env, fn, depth)
            if e.get('op') == 'Deref':
                return v
            if e.get('op') == 'Not':
                if not isinstance(v, bool):
                    raise Undecided('! of %r' % (v,))
                return not v
            raise Undecided('unary %s' % e.get('op'))
        if k == 'Path':
            if e.get('res') == 'local':
                if e['hid'] in env:
                    return env[e['hid']]
                raise Undecided('unbound local %s' % e.get('name'))
            if e.get('dk') in ('Const', 'AssocConst'):
                return self.const_value(e['def'])
            if e.get('dk') == 'Ctor':
                return (last(e['def']),)
            if e.get('dk') in ('Fn', 'AssocFn'):
                return ('#fn', H.callee(e) or e['def'])
            raise Undecided('path %s' % e.get('def'))
        if k == 'Tup' and not e['es']:
            return ('#unit',)
        if k == 'Tup':
            return ('#tup',) + tuple(self.eval(x, env, fn, depth) for x in e['es'])
        if k == 'Block':
            env = dict(env)
            for s in e.get('stmts', []):
                if s.get('k') == 'Let':
                    if 'init' not in s:
                        raise Undecided('let without init')
                    v = self.eval(s['init'], env, fn, depth)
                    if not self.match(s['pat'], v, env, fn):
                        raise Undecided('refutable let')
                else:
                    self.eval(s['e'], env, fn, depth)
            if 'e' in e:
                return self.eval(e['e'], env, fn, depth)
            return ('#unit',)
        if k == 'If' and e['c'].get('k') == 'LetCond':
            # `if let PAT = EXPR { .. } else { .. }`
            v = self.eval(e['c']['e'], env, fn, depth)
            env2 = dict(env)
            if self.match(e['c']['pat'], v, env2, fn):
                return self.eval(e['then'], env2, fn, depth)
            if 'els' in e:
                return self.eval(e['els'], env, fn, depth)
            return ('#unit',)
        if k == 'If':
            c = self.eval(e['c'], env, fn, depth)
            if c is True:
                return self.eval(e['then'], env, fn, depth)
            if c is False:
                if 'els' in e:
                    return self.eval(e['els'], env, fn, depth)
                return ('#unit',)
            raise Undecided('non-boolean condition')
        if k == 'Binary':
            op = e.get('op')
            if op in ('And', 'Or'):
                l = self.eval(e['l'], env, fn, depth)
                if not isinstance(l, bool):
                    raise Undecided('logical operator on %r' % (l,))
                if op == 'And':
                    return l and self.eval(e['r'], env, fn, depth)
                return l or self.eval(e['r'], env, fn, depth)
            l = self.eval(e['l'], env, fn, depth)
            r = self.eval(e['r'], env, fn, depth)
            if l == OPAQUE or r == OPAQUE:
                if self.lenient:
                    return OPAQUE
                raise Undecided('comparison of opaque values')
            if op == 'Eq':
                return l == r
            if op == 'Ne':
                return l != r
            raise Undecided('binary %s' % op)
        if k == 'Match':
            v = self.eval(e['e'], env, fn, depth)
            for arm in e['arms']:
                e2 = dict(env)
                if self.match(arm['pat'], v, e2, fn):
                    if 'guard' in arm:
                        g = self.eval(arm['guard'], e2, fn, depth)
                        if g is not True:
                            if g is False:
                                continue
                            raise Undecided('guard value %r' % (g,))
                    return self.eval(arm['body'], e2, fn, depth)
            raise Undecided('no arm matched %r' % (v,))
        if k == 'Try':
            v = self.eval(e['e'], env, fn, depth)
            if isinstance(v, tuple) and v and v[0] in ('Ok', 'Some'):
                return v[1]
            if not (isinstance(v, tuple) and v and v[0] in ('Err', 'None')):
                raise Undecided('? on %r' % (v,))
            raise EarlyReturn(v)
        if k == 'Ret':
            raise EarlyReturn(self.eval(e['e'], env, fn, depth) if 'e' in e else ('#unit',))
        if k == 'Closure':
            return ('#closure', e, dict(env))
        if k == 'Call':
            d = e.get('def') or ''
            if e.get('dk') == 'Ctor':
                return (last(d),) + tuple(self.eval(a, env, fn, depth) for a in e['args'])
            args = [self.eval(a, env, fn, depth) for a in e['args']]
            f = e.get('f') or {}
            if f.get('k') == 'Path' and f.get('res') == 'local':
                return self.apply(self.eval(f, env, fn, depth), args, depth)
            return self.call(H.callee(e) or d, args, depth, e)
        if k == 'MCall':
            recv = self.eval(e['recv'], env, fn, depth)
            args = [self.eval(a, env, fn, depth) for a in e['args']]
            m = e['m']
            d = H.callee(e) or e.get('def') or ''
            for suf, f in self.stubs.items():
                if d.endswith(suf):
                    return f([recv] + args)
            if m in ('clone', 'as_ref', 'to_owned', 'borrow', 'deref', 'into', 'as_deref'):
                return recv
            if isinstance(recv, tuple) and recv and recv[0] == '#vec':
                if m in ('iter', 'into_iter', 'collect', 'as_slice'):
                    return recv
                if m == 'len':
                    return len(recv) - 1
                if m == 'is_empty':
                    return len(recv) == 1
                if m == 'map':
                    return ('#vec',) + tuple(self.apply(args[0], [x], depth) for x in recv[1:])
                if m == 'first':
                    return ('Some', recv[1]) if len(recv) > 1 else ('None',)
                if m in ('find', 'any', 'all', 'position') and len(args) == 1:
                    hits = []
                    for i_, x in enumerate(recv[1:]):
                        t_ = self.apply(args[0], [x], depth)
                        if not isinstance(t_, bool):
                            raise Undecided('predicate of %s() is not decided' % m)
                        hits.append(t_)
                    if m == 'any':
                        return any(hits)
                    if m == 'all':
                        return all(hits)
                    idx = next((i_ for i_, h in enumerate(hits) if h), None)
                    if idx is None:
                        return ('None',)
                    return ('Some', recv[1 + idx]) if m == 'find' else ('Some', idx)
            if m == 'map' and isinstance(recv, tuple) and recv[0] in ('Ok', 'Some'):
                return (recv[0], self.apply(args[0], [recv[1]], depth))
            if m == 'map' and isinstance(recv, tuple) and recv[0] in ('Err', 'None'):
                return recv
            if m == 'and_then' and isinstance(recv, tuple) and recv[0] in ('Ok', 'Some'):
                return self.apply(args[0], [recv[1]], depth)
            if m == 'and_then' and isinstance(recv, tuple) and recv[0] in ('Err', 'None'):
                return recv
            if m in ('map_err',) and isinstance(recv, tuple) and recv[0] == 'Err':
                return ('Err',) if len(recv) == 1 else ('Err', ('#mapped',))
            if m in ('map_err',):
                return recv
            if m == 'then_some' and isinstance(recv, bool):
                return ('Some', args[0]) if recv else ('None',)
            if m == 'then' and isinstance(recv, bool):
                return ('Some', self.apply(args[0], [], depth)) if recv else ('None',)
            if m == 'transpose' and isinstance(recv, tuple) and recv and recv[0] in ('Ok', 'Err'):
                # Result<Option<T>, E> -> Option<Result<T, E>>
                if recv[0] == 'Err':
                    return ('Some', recv)
                inner = recv[1]
                if isinstance(inner, tuple) and inner and inner[0] == 'None':
                    return ('None',)
                if isinstance(inner, tuple) and inner and inner[0] == 'Some':
                    return ('Some', ('Ok', inner[1]))
                raise Undecided('transpose of %r' % (recv,))
            if m == 'transpose' and isinstance(recv, tuple) and recv:
                # Option<Result<T, E>> -> Result<Option<T>, E>
                if recv[0] == 'None':
                    return ('Ok', ('None',))
                if recv[0] == 'Some' and isinstance(recv[1], tuple) and recv[1] and recv[1][0] == 'Ok':
                    return ('Ok', ('Some', recv[1][1]))
                if recv[0] == 'Some' and isinstance(recv[1], tuple) and recv[1] and recv[1][0] == 'Err':
                    return recv[1]
                raise Undecided('transpose of %r' % (recv,))
            if m in ('is_some_and', 'is_ok_and') and isinstance(recv, tuple) and recv:
                if recv[0] in ('Some', 'Ok'):
                    return self.apply(args[0], [recv[1]], depth)
                if recv[0] in ('None', 'Err'):
                    return False
            if m in ('is_some', 'is_ok') and isinstance(recv, tuple) and recv and recv[0] in ('Some', 'None', 'Ok', 'Err'):
                return recv[0] in ('Some', 'Ok')
            if m in ('is_none', 'is_err') and isinstance(recv, tuple) and recv and recv[0] in ('Some', 'None', 'Ok', 'Err'):
                return recv[0] in ('None', 'Err')
            if m in ('ok',) and isinstance(recv, tuple):
                return ('Some', recv[1]) if recv[0] == 'Ok' else ('None',)
            if m == 'unwrap_or' and isinstance(recv, tuple):
                return recv[1] if recv[0] in ('Ok', 'Some') else args[0]
            if d in self.crate.fns or d in [f['path'] for f in self.crate.fn_list]:
                return self.call(d, [recv] + args, depth, e)
            if self.lenient:
                return ('#opaque',)
            raise Undecided('method %s' % d)
        if k == 'Struct':
            if e.get('base') is None and e.get('fields') is not None:
                return ('#struct', last(e.get('def')), {f['f']: self.eval(f['e'], env, fn, depth) for f in e['fields']})
            return (last(e.get('def')),)
        if k == 'Field':
            b = self.eval(e['e'], env, fn, depth)
            if isinstance(b, tuple) and len(b) == 3 and b[0] == '#struct' and e.get('f') in b[2]:
                return b[2][e['f']]
            if isinstance(b, tuple) and b and str(e.get('f', '')).isdigit() and b[0] not in ('#struct', '#opaque') and int(e['f']) + 1 < len(b):
                return b[int(e['f']) + 1]
            if self.lenient or b == OPAQUE:
                return OPAQUE
            raise Undecided('field %s of %r' % (e.get('f'), b))
        if k == 'Tup' and not e['es']:
            return ('#unit',)
        if e.get('x') in ('panic', 'unreachable'):
            raise Undecided('panic path')
        if self.lenient and k in ('Field', 'Array', 'Repeat'):
            # no control flow of their own: evaluate operands (for `?`/return inside) and yield an opaque value
            for c in ([e['e']] if k == 'Field' else e.get('es', [])):
                self.eval(c, env, fn, depth)
            return ('#opaque',)
        if self.lenient and k == 'Assign':
            r = H.root_local(e['l'])
            if r is not None and r.get('hid') in env and env[r['hid']] != ('#opaque',):
                raise Undecided('assignment to tracked local %s' % r.get('name'))
            self.eval(e['r'], env, fn, depth)
            return ('#unit',)
        raise Undecided('expression kind %s' % k)

    def apply(self, clo, args, depth):
        if callable(clo):
            return clo(list(args))
        if isinstance(clo, tuple) and clo and clo[0] == '#fn':
            return self.call(clo[1], list(args), depth)
        if not (isinstance(clo, tuple) and clo and clo[0] == '#closure'):
            # a path to a fn or ctor used as a function value
            if isinstance(clo, tuple) and len(clo) == 1:
                return (clo[0],) + tuple(args)
            raise Undecided('apply non-closure')
        _, node, env = clo
        env = dict(env)
        for p, a in zip(node['params'], args):
            if not self.match(p, a, env, None):
                raise Undecided('closure param')
        try:
            return self.eval(node['body'], env, None, depth + 1)
        except EarlyReturn as r:
            return r.value

    def call(self, path, args, depth, node=None):
        for suf, f in self.stubs.items():
            if path.endswith(suf):
                return f(args)
        fn = self.crate.fns.get(path)
        if fn is None:
            if self.lenient:
                return ('#opaque',)
            raise Undecided('call to %s' % path)
        env = {}
        for p, a in zip(fn['params'], args):
            if not self.match(p, a, env, fn):
                raise Undecided('param pattern')
        try:
            return self.eval(fn['body'], env, fn, depth + 1)
        except EarlyReturn as r:
            return r.value


class EarlyReturn(Exception):
    def __init__(self, value):
        self.value = value
