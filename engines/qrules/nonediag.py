"""A9: "None => diagnosed" effect analysis over typed HIR.

A unit is a fn or closure that returns Option<_> and has a `&mut Diagnostics` in scope. Every way the unit can yield None (a
None origin) is classified:
  pushed      a literal None lexically dominated by an unconditional Diagnostics::push(..) on the same path
  callee      the None of a local callee that is itself in S (the greatest set of units all of whose origins are discharged)
  consume     Diagnostics::consume_err*/consume_*: pushes the error it swallows
  map_err     `.map_err(|e| diagnostics.push(..)).ok()`: the error is pushed before being dropped
  table       an external Option source (HashMap::get, child_by_field_name, evaluate(), ...) listed with a reason
  open        anything else: a silent None
"""
import re
from facts import walk, short, pp
import hirutil as H

PURE_COMBINATORS = {'map', 'as_ref', 'as_mut', 'cloned', 'copied', 'as_deref', 'filter', 'zip', 'flatten', 'then', 'then_some',
                    'inspect', 'take', 'unwrap_or', 'unwrap_or_else', 'unwrap_or_default', 'or', 'or_else', 'xor', 'map_or', 'ok_or',
                    'ok_or_else', 'transpose', 'into_iter', 'next', 'and', 'is_some', 'is_none'}
NONE_INTRODUCERS = {'ok', 'err', 'get', 'first', 'last', 'next', 'find', 'find_map', 'position', 'pop', 'and_then', 'then',
                    'then_some', 'filter', 'checked_add', 'checked_sub', 'parent', 'strip_prefix', 'strip_suffix', 'split_once',
                    'max', 'min', 'nth', 'get_mut', 'remove', 'child_by_field_name', 'ok_or'}


def is_option_ty(t):
    return bool(t) and t.startswith('std::option::Option<')


def is_result_ty(t):
    return bool(t) and t.startswith('std::result::Result<')


class Unit:
    def __init__(self, fn, node, path, is_closure):
        self.fn = fn
        self.node = node        # fn record or closure node
        self.path = path        # display path
        self.body = fn['body'] if not is_closure else node['body']
        self.is_closure = is_closure
        self.is_loop = node.get('k') == 'For'
        self.origins = []       # dicts(kind, status, what, node, detail, callee)


def uses_diagnostics(crate, root):
    for n in walk(root):
        if n.get('k') == 'Path' and n.get('res') == 'local':
            t = crate.ty(n) or ''
            if 'diagnostic::Diagnostics' in t:
                return True
    return False


def collect_units(crate, derives):
    units = {}
    for fn in crate.fn_list:
        if fn.get('x') in derives:
            continue
        if fn['dk'] in ('Fn', 'AssocFn') and is_option_ty(fn.get('output', '')) and any('diagnostic::Diagnostics' in (i or '') for i in fn.get('inputs', [])):
            units[fn['path']] = Unit(fn, fn, fn['path'], False)
        i = 0
        for n in walk(fn['body']):
            if n.get('k') == 'Closure':
                i += 1
                bt = crate.ty(n['body']) or ''
                if is_option_ty(bt) and uses_diagnostics(crate, n['body']):
                    p = n.get('def') or ('%s::{closure#%d}' % (fn['path'], i))
                    units[p] = Unit(fn, n, p, True)
        # the loop form of `src.filter_map(|x| ..).collect()`: a `for` whose body pushes onto a list declared outside it and which can skip
        # an item (`continue`, or an `if let Some(..)` around the push). Skipping an item is this unit's "None".
        j = 0
        for n in (walk(fn['body']) if fn['path'].startswith('uigen::') else ()):     # the builders of form and support code
            if n.get('k') != 'For':
                continue
            inside = {b.get('hid') for b in walk(n['body']) if b.get('k') == 'Bind'} | {b.get('hid') for b in walk(n['pat']) if b.get('k') == 'Bind'}
            pushes = [c for c in H.calls_in(n['body'], enter_closures=False) if c.get('k') == 'MCall' and c.get('m') == 'push' and
                      (H.root_local(c['recv']) or {}).get('hid') not in inside and H.root_local(c['recv']) is not None and
                      'diagnostic::Diagnostics' not in (crate.ty(c['recv'], adjusted=True) or crate.ty(c['recv']) or '')]
            skips = [x for x in walk(n['body'], enter_closures=False) if x.get('k') == 'Continue'] + \
                [x for x in walk(n['body'], enter_closures=False) if x.get('k') == 'If' and x['c'].get('k') == 'LetCond' and any(any(y is c for y in walk(x['then'])) for c in pushes)]
            if pushes and skips and uses_diagnostics(crate, n['body']):
                j += 1
                p = '%s::{loop#%d}' % (fn['path'], j)
                u = Unit(fn, n, p, True)
                u.loop_pushes = pushes
                units[p] = u
    return units


def is_warning_push(c):
    """the pushed diagnostic is built by Diagnostic::warning(..) (directly or through builder methods on it): it does not
    make has_error() true, so it cannot justify a None."""
    a = H.strip_refs(c['args'][0]) if c.get('args') else {}
    for _ in range(4):
        if a.get('k') == 'MCall':
            a = H.strip_refs(a['recv'])
            continue
        break
    return a.get('k') == 'Call' and (H.callee(a) or a.get('def') or '').endswith('Diagnostic::warning')


def pushes_in(crate, root):
    out = []
    for c in H.calls_in(root, enter_closures=False):
        if c.get('k') == 'MCall' and c.get('m') == 'push' and 'diagnostic::Diagnostics' in (crate.ty(c['recv'], adjusted=True) or crate.ty(c['recv']) or ''):
            if is_warning_push(c):
                continue
            out.append(c)
    return out


class Analysis:
    def __init__(self, crate, derives, table_rows):
        self.crate = crate
        self.units = collect_units(crate, derives)
        self.table = table_rows      # dict key -> row
        self.used_rows = set()
        for u in self.units.values():
            self.find_origins(u)
        # greatest fixpoint
        self.S = set(self.units)
        changed = True
        while changed:
            changed = False
            for p in list(self.S):
                u = self.units[p]
                for o in u.origins:
                    if o['status'] == 'open' or (o['status'] == 'callee' and o['callee'] not in self.S):  # table/verifier/pushed are discharged
                        self.S.discard(p)
                        changed = True
                        break

    # ------------------------------------------------------------------
    def add(self, u, kind, status, what, node, detail='', callee=None):
        u.origins.append({'kind': kind, 'status': status, 'what': what, 'node': node, 'detail': detail, 'callee': callee})

    def table_key(self, u, kind, what):
        return '%s|%s|%s' % (short(u.path), kind, what)

    def find_origins(self, u):
        crate = self.crate
        fn = u.fn
        body = u.body
        pushes = pushes_in(crate, body)
        self._pushes = pushes
        if getattr(u, 'is_loop', False):
            self.find_loop_origins(u)
            return
        # 1. `?` on Option operands inside this unit
        for n in walk(body, enter_closures=False):
            if n is not body and n.get('k') == 'Closure':
                continue
            if n.get('k') == 'Try':
                t = crate.ty(n['e']) or ''
                if is_option_ty(t):
                    self.classify_source(u, n['e'], 'try', n)
        # 2. returned values
        for v in H.return_exprs(body):
            self.classify_value(u, v)

    def find_loop_origins(self, u):
        """Every way the loop body can end without pushing an item: `continue`, and `if let Some(x) = SRC { push }` without a pushing else."""
        crate = self.crate
        lp = u.node
        pm = H.parents(u.fn)

        def own(node):
            # not inside a nested loop or closure
            for a in H.ancestors(u.fn, node):
                if a is lp:
                    return True
                if a.get('k') in ('For', 'Loop', 'Closure'):
                    return False
            return False
        for c in walk(lp['body'], enter_closures=False):
            if c.get('k') == 'Continue' and own(c):
                p = self.dominating_push(u, c)
                if p is not None and any(x is p for x in walk(lp['body'])):
                    self.add(u, 'literal', 'pushed', 'continue', c, 'dominated by diagnostics.push at %s' % crate.loc(p))
                    continue
                # `if SRC.is_none() { continue }`  /  `let Some(x) = SRC else { continue }`  /  `None => continue`
                src = None
                for a in H.ancestors(u.fn, c):
                    if a is lp:
                        break
                    if a.get('k') == 'If' and any(x is c for x in walk(a['then'])):
                        t = H.strip_refs(a['c'])
                        if t.get('k') == 'MCall' and t.get('m') == 'is_none' and is_option_ty(crate.ty(t['recv']) or ''):
                            src = t['recv']
                        break
                    if a.get('k') == 'Let' and a.get('els') is not None and any(x is c for x in walk(a['els'])):
                        pat = a['pat']
                        if pat.get('k') == 'PTS' and (pat.get('def') or '').endswith('Option::Some') and a.get('init') is not None:
                            src = a['init']
                        break
                    if a.get('k') == 'Arm' and any(x is c for x in walk(a['body'])):
                        pat = a['pat']
                        if pat.get('k') == 'PPath' and (pat.get('def') or '').endswith('Option::None'):
                            m = pm.get(id(a))
                            if m is not None and m.get('k') == 'Match':
                                src = m['e']
                        break
                if src is not None:
                    self.classify_source(u, src, 'propagate', c)
                else:
                    self.add(u, 'literal', 'open', 'continue', c, '`continue` skips the item with no diagnostics.push on its path')
            if c.get('k') == 'If' and c['c'].get('k') == 'LetCond' and own(c) and any(any(y is pc for y in walk(c['then'])) for pc in getattr(u, 'loop_pushes', [])):
                pat = c['c']['pat']
                if pat.get('k') == 'PTS' and (pat.get('def') or '').endswith('Option::Some'):
                    els_pushes = 'els' in c and (any(any(y is pc for y in walk(c['els'])) for pc in u.loop_pushes) or any(any(y is pp_ for y in walk(c['els'])) for pp_ in self._pushes))
                    if not els_pushes:
                        self.classify_source(u, c['c']['e'], 'propagate', c)

    def dominating_push(self, u, node):
        for p in self._pushes:
            if H.lexically_precedes_dominating(u.fn, p, node):
                return p
        return None

    def classify_value(self, u, v, depth=0):
        """v is an expression whose value is returned by the unit."""
        crate = self.crate
        v = H.strip_refs(v) if v.get('k') in ('AddrOf',) else v
        k = v.get('k')
        if k == 'Path' and (v.get('def') or '').endswith('Option::None'):
            p = self.dominating_push(u, v)
            if p is not None:
                self.add(u, 'literal', 'pushed', 'None', v, 'dominated by diagnostics.push at %s' % crate.loc(p))
                return
            # propagation forms: `None => None` arm / else-branch of `if let Some(..) = src`
            src = self.propagated_from(u, v)
            if src is not None:
                self.classify_source(u, src, 'propagate', v)
                return
            if self.guarded_literal(u, v):
                return
            self.add(u, 'literal', 'open', 'None', v, 'literal None with no diagnostics.push on its path')
            return
        if k == 'Call' and (v.get('def') or '').endswith('Option::Some'):
            return
        if k == 'Try':
            return  # value of `x?` is the Some payload; the None case was handled as a try origin
        if k in ('Call', 'MCall'):
            self.classify_source(u, v, 'tail', v)
            return
        if k == 'Path' and v.get('res') == 'local':
            for o in H.origins(u.fn, v):
                if o is v:
                    self.add(u, 'value', 'open', pp(v, maxlen=30), v, 'Option-typed local of unknown origin')
                elif o.get('k') == 'Bind':
                    site = H.binding_sites(u.fn).get(o.get('hid'), {})
                    if site.get('kind') in ('param', 'closure_param'):
                        continue  # handed in by the caller
                    self.add(u, 'value', 'open', pp(v, maxlen=30), v, 'Option-typed binding of unknown origin')
                elif depth < 6:
                    self.classify_value(u, o, depth + 1)
            return
        if k in ('Ret', 'Break', 'Continue', 'Loop'):
            return
        if k == 'Macro' or v.get('x') in ('panic', 'unreachable', 'todo', 'unimplemented'):
            return
        if is_option_ty(crate.ty(v) or ''):
            self.add(u, 'value', 'open', pp(v, maxlen=40), v, 'unclassified Option-valued expression')

    def guarded_literal(self, u, none_node):
        """Literal None governed by (a) a count comparison between collections whose shortfall is diagnosed where they are
        filled, or (b) the negation of a local bool verifier that pushes errors."""
        crate = self.crate
        fn = u.fn
        pm = H.parents(fn)
        gov = None
        branch = None
        child = none_node
        cur = pm.get(id(none_node))
        while cur is not None:
            if cur.get('k') == 'If' and (cur.get('then') is child or cur.get('els') is child):
                gov = cur
                branch = 'then' if cur.get('then') is child else 'els'
                break
            if cur.get('k') in ('Closure', 'Arm', 'Loop', 'For'):
                break
            child = cur
            cur = pm.get(id(cur))
        if gov is None:
            return False
        c = gov['c']
        # (b) `if !verifier(.., diagnostics) { return None }`
        if branch == 'then' and c.get('k') == 'Unary' and c.get('op') == 'Not' and c['e'].get('k') == 'Call':
            cal = crate.fns.get(H.callee(c['e']) or '')
            if cal is not None and any('diagnostic::Diagnostics' in (i or '') for i in cal.get('inputs', [])) and cal.get('output') == 'bool':
                errs = [x for x in pushes_in(crate, cal['body']) if any(H.is_call_to(y, 'Diagnostic::error') for y in H.calls_in(x))]
                if errs:
                    self.add(u, 'literal', 'verifier', short(cal['path']), none_node,
                             'None only when bool verifier %s(.., diagnostics) returned false; it pushes Diagnostic::error at %d site(s)' % (short(cal['path']), len(errs)))
                    return True
        # (a) count mismatch
        conj = []

        def flat(x):
            if x.get('k') == 'Binary' and x.get('op') in ('And', 'Or'):
                flat(x['l'])
                flat(x['r'])
            else:
                conj.append(x)
        flat(c)
        cmps = [x for x in conj if x.get('k') == 'Binary' and x.get('op') in ('Eq', 'Ne')
                and all(H.strip_refs(y).get('k') == 'MCall' and H.strip_refs(y).get('m') == 'len' for y in (x['l'], x['r']))]
        if not cmps or len(cmps) != len(conj):
            return False
        if not ((branch == 'then' and all(x['op'] == 'Ne' for x in cmps)) or (branch == 'els' and all(x['op'] == 'Eq' for x in cmps))):
            return False
        found = False
        bs = H.binding_sites(fn)
        for x in cmps:
            for side in (x['l'], x['r']):
                rl = H.root_local(H.strip_refs(side)['recv'])
                if rl is None:
                    continue
                site = bs.get(rl['hid'], {})
                if site.get('kind') != 'let' or 'init' not in site['node']:
                    continue
                init = site['node']['init']
                # filled by filter_map(closure).collect(): shortfall == closure returned None
                cls = [a for cc in H.calls_in(init) if cc.get('m') in ('filter_map', 'map_while') for a in cc['args'] if a.get('k') == 'Closure']
                for cl in cls:
                    if cl.get('def') in self.units:
                        self.add(u, 'literal', 'callee', short(cl['def']), none_node, 'count mismatch: an element was dropped by closure %s' % short(cl['def']), callee=cl['def'])
                        found = True
                # filled in a for loop: every leaf that does not insert must push an error or use `?`
                for loop in (n for n in walk(u.body, enter_closures=False) if n.get('k') == 'For'):
                    fills = [cc for cc in H.calls_in(loop['body']) if cc.get('m') in ('insert', 'push') and (H.root_local(cc['recv']) or {}).get('hid') == rl['hid']]
                    if not fills:
                        continue
                    leaves = []

                    def collect(node):
                        if node.get('k') == 'If':
                            collect(node['then'])
                            if 'els' in node:
                                collect(node['els'])
                            else:
                                leaves.append(None)
                        elif node.get('k') == 'Block' and not node.get('stmts') and node.get('e', {}).get('k') == 'If':
                            collect(node['e'])
                        else:
                            leaves.append(node)
                    top = loop['body']
                    inner = top.get('e') if top.get('k') == 'Block' and 'e' in top else None
                    if inner is not None and inner.get('k') == 'If':
                        collect(inner)
                        ok = True
                        for lf in leaves:
                            if lf is None:
                                ok = False
                                continue
                            has_fill = any(any(z is f for z in walk(lf)) for f in fills)
                            has_diag = bool(pushes_in(crate, lf))
                            if not (has_fill or has_diag):
                                ok = False
                        if ok:
                            self.add(u, 'literal', 'pushed', 'count-mismatch', none_node,
                                     'count mismatch: every branch of the filling loop either inserts or pushes a diagnostic (%d leaves)' % len(leaves))
                            found = True
        return found

    def propagated_from(self, u, none_node):
        """If the literal None merely forwards the None of a source expression, return that source."""
        pm = H.parents(u.fn)
        # climb through blocks to the arm / else-branch
        child = none_node
        cur = pm.get(id(none_node))
        while cur is not None and cur.get('k') == 'Block' and cur.get('e') is child and not cur.get('stmts'):
            child = cur
            cur = pm.get(id(cur))
        if cur is None:
            return None
        if cur.get('k') == 'Arm' and cur.get('body') is child:
            pat = cur['pat']
            alts = pat['alts'] if pat.get('k') == 'POr' else [pat]
            if all(a.get('k') == 'PPath' and (a.get('def') or '').endswith('Option::None') for a in alts):
                m = pm.get(id(cur))
                if m is not None and m.get('k') == 'Match':
                    return m['e']
        if cur.get('k') == 'If' and cur.get('els') is child and cur['c'].get('k') == 'LetCond':
            pat = cur['c']['pat']
            if pat.get('k') == 'PTS' and (pat.get('def') or '').endswith('Option::Some'):
                return cur['c']['e']
        return None

    def classify_source(self, u, e, kind, at, depth=0):
        """e is an Option-typed expression whose None becomes the unit's None."""
        crate = self.crate
        e = H.strip_refs(e)
        k = e.get('k')
        if depth > 8:
            self.add(u, kind, 'open', pp(e, maxlen=30), at, 'source chain too deep')
            return
        if k in ('Block', 'If', 'Match'):
            for v in H.value_exprs(e):
                if v is not e:
                    self.classify_src_value(u, v, kind, at, depth + 1)
            return
        if k == 'Path' and e.get('res') == 'local':
            srcs = H.origins(u.fn, e)
            # a mutable local is also what later assignments make it: `res = None` after a push is a None origin of its own
            if depth < 6:
                for a in walk(u.body, enter_closures=False):
                    if a.get('k') == 'Assign' and H.strip_refs(a['l']).get('k') == 'Path' and H.strip_refs(a['l']).get('hid') == e.get('hid'):
                        self.classify_src_value(u, a['r'], kind, a['r'], depth + 1)
            for o in srcs:
                if o is e or o.get('k') == 'Bind':
                    site = H.binding_sites(u.fn).get((o if o.get('k') == 'Bind' else e).get('hid'), {})
                    if site.get('kind') in ('param', 'closure_param'):
                        continue
                    self.add(u, kind, 'open', pp(e, maxlen=30), at, 'Option-typed local of unknown origin')
                else:
                    self.classify_src_value(u, o, kind, at, depth + 1)
            return
        if k == 'Field':
            key = self.table_key(u, kind, 'field ' + e.get('f', '?'))
            self.lookup_table(u, kind, key, at, 'Option-typed field %s' % e.get('f'))
            return
        if k == 'Try':
            return
        if k == 'Call' and (e.get('def') or '').endswith('Option::Some'):
            return
        if k in ('Call', 'MCall'):
            cal = H.callee(e)
            decl = H.callee_decl(e)
            name = e.get('m') or short(decl or '').split('::')[-1]
            # local unit?
            for p in (cal, decl):
                if p in self.units:
                    self.add(u, kind, 'callee', short(p), at, 'None of %s' % short(p), callee=p)
                    return
            if decl and re.search(r'diagnostic::Diagnostics::consume_', decl):
                self.add(u, kind, 'consume', short(decl), at, 'Diagnostics::%s pushes the error it swallows' % name)
                return
            # local closure call (let f = |..| ..; f(x)?)
            if k == 'Call' and e['f'].get('k') == 'Path' and e['f'].get('res') == 'local':
                site = H.binding_sites(u.fn).get(e['f'].get('hid'), {})
                init = site.get('node', {}).get('init') if site.get('kind') == 'let' else None
                if init is not None and init.get('k') == 'Closure' and init.get('def') in self.units:
                    self.add(u, kind, 'callee', short(init['def']), at, 'None of local closure', callee=init['def'])
                    return
            if k == 'MCall':
                recv = e['recv']
                rt = crate.ty(recv) or ''
                if name == 'ok' and is_result_ty(re.sub(r"^&(mut )?", '', rt)):
                    # error dropped: fine iff a map_err closure pushed it
                    r = H.strip_refs(recv)
                    if r.get('k') == 'MCall' and r.get('m') == 'map_err' and r['args'] and r['args'][0].get('k') == 'Closure' and pushes_in(crate, r['args'][0]['body']):
                        self.add(u, kind, 'map_err', 'map_err(push).ok()', at, 'the error is pushed by the map_err closure before .ok() drops it')
                        return
                    key = self.table_key(u, kind, 'ok() on ' + (r.get('m') or short(H.callee_decl(r) or '') or r.get('k')))
                    self.lookup_table(u, kind, key, at, 'Result error dropped by .ok()')
                    return
                if name in ('and_then', 'map', 'filter_map', 'then') and e['args'] and e['args'][0].get('k') == 'Closure':
                    cl = e['args'][0]
                    if name == 'and_then' or name == 'then':
                        if cl.get('def') in self.units:
                            self.add(u, kind, 'callee', short(cl['def']), at, 'None of the %s closure' % name, callee=cl['def'])
                        else:
                            # closure without diagnostics: its own Nones are silent unless they are pure propagation
                            for v in H.return_exprs(cl['body']):
                                self.classify_src_value(u, v, kind, at, depth + 1, in_closure=cl)
                    if is_option_ty(re.sub(r"^&(mut )?", '', rt)):
                        self.classify_source(u, recv, kind, at, depth + 1)
                    return
                if name in PURE_COMBINATORS and is_option_ty(re.sub(r"^&(mut )?", '', rt)):
                    self.classify_source(u, recv, kind, at, depth + 1)
                    return
            if name in ('collect', 'try_collect') and k == 'MCall':
                cls = [a for cc in H.calls_in(e['recv']) if cc.get('m') in ('map', 'filter_map', 'flat_map') for a in cc['args'] if a.get('k') == 'Closure']
                unit_cls = [cl for cl in cls if cl.get('def') in self.units]
                if unit_cls:
                    for cl in unit_cls:
                        self.add(u, kind, 'callee', short(cl['def']), at, 'collect::<Option<_>>(): None of the mapped closure', callee=cl['def'])
                    return
            # external / unknown source
            what = short(cal or decl or name)
            key = self.table_key(u, kind, what)
            self.lookup_table(u, kind, key, at, 'external Option source %s' % what)
            return
        self.add(u, kind, 'open', pp(e, maxlen=30), at, 'unclassified Option source')

    def classify_src_value(self, u, v, kind, at, depth, in_closure=None):
        v = H.strip_refs(v)
        if v.get('k') == 'Path' and (v.get('def') or '').endswith('Option::None'):
            p = self.dominating_push(u, v)
            if p is not None:
                self.add(u, kind, 'pushed', 'None', v, 'dominated by diagnostics.push at %s' % self.crate.loc(p))
                return
            src = self.propagated_from(u, v)
            if src is not None:
                self.classify_source(u, src, 'propagate', v, depth + 1)
                return
            self.add(u, kind, 'open', 'None', v, 'literal None with no diagnostics.push on its path')
            return
        if v.get('k') == 'Call' and (v.get('def') or '').endswith('Option::Some'):
            return
        if is_option_ty(self.crate.ty(v) or ''):
            self.classify_source(u, v, kind, at, depth + 1)

    def lookup_table(self, u, kind, key, at, detail):
        row = self.table.get(key)
        if row is None:
            fnp, rest = key.split('|', 1)
            if '::' in fnp:
                wk = fnp.rsplit('::', 1)[0] + '::*|' + rest
                row = self.table.get(wk)
                if row is not None:
                    key = wk
        if row is not None:
            self.used_rows.add(key)
            self.add(u, kind, 'table', key.split('|', 2)[2], at, 'reviewed: ' + row['reason'], callee=key)
        else:
            self.add(u, kind, 'open', key.split('|', 2)[2], at, detail + ' (no row `%s` in tables/none_sources.json)' % key)
