"""Key injectivity (C08 R8.8): is the key under which an item of a hash-ordered source is stored in a map an injective function of the
source item's own key?  If it is, the items land on distinct keys and the resulting map does not depend on the order in which they
arrive; if two items can share a key, which one wins (insert: the last, or_insert: the first) is decided by hash order.

The evaluator reads the key expression backwards.  It accepts, and only accepts:
  * the source key binding itself;
  * pure views of an accepted value (to_owned / clone / to_string / as_str / ..);
  * a projection out of an accepted value by pattern (Some(Ok(x)) => x, (a, b) => a) or tuple field;
  * an accepted value concatenated with something that does not vary inside the loop (`k + "Margin"`, `name.to_owned() + &f(k)`);
  * a call of a function of this crate whose only non-None/Err result is an accepted function of an accepted argument
    (the callee is read the same way, with that parameter as the key);
  * a call listed in tables/injective_fns.json (reviewed, one reason per row) applied to an accepted argument.
A local that is reassigned, a value with several alternative definitions, a literal, anything else: not accepted, with the reason.
"""
from facts import walk, pp, short
import hirutil as H

VIEWS = {'to_owned', 'clone', 'to_string', 'as_str', 'as_ref', 'into', 'borrow', 'as_deref', 'cloned', 'copied', 'to_vec', 'as_slice', 'deref'}
WRAP = ('Option::Some', 'Result::Ok')
NONE_LIKE = ('Option::None',)


def _peel(e):
    while True:
        k = e.get('k')
        if k in ('AddrOf', 'Try', 'DropTemps', 'Paren'):
            e = e['e']
        elif k == 'Unary' and e.get('op') == 'Deref':
            e = e['e']
        elif k == 'Block' and not e.get('stmts') and 'e' in e:
            e = e['e']
        else:
            return e


def _diverges(e):
    return e.get('k') in ('Ret', 'Break', 'Continue') or (e.get('k') == 'Call' and (e.get('def') or '').endswith('panic'))


def _none_like(e):
    e = _peel(e)
    if e.get('k') == 'Path' and any((e.get('def') or '').endswith(s) for s in NONE_LIKE):
        return True
    if e.get('k') == 'Call' and (e.get('def') or '').endswith('Result::Err'):
        return True
    return False


def _pat_projection(pat, hid):
    """How the binding hid sits in pat: ('whole',) | ('slot', i) | None (not a plain projection). Constructor patterns with one
    field and references are looked through."""
    p = pat
    slot = None
    while True:
        k = p.get('k')
        if k in ('PRef', 'PDeref'):
            p = p['p']
        elif k == 'PTS' and len(p.get('subs', [])) == 1:
            p = p['subs'][0]
        elif k == 'PTup':
            if slot is not None:
                return None
            hit = [i for i, s in enumerate(p['subs']) if any(b['hid'] == hid for b in H.pat_bindings(s))]
            if len(hit) != 1:
                return None
            slot = hit[0]
            p = p['subs'][slot]
        elif k == 'Bind':
            if p.get('hid') != hid or p.get('sub'):
                return None
            return ('whole',) if slot is None else ('slot', slot)
        else:
            return None


class KeyInj:
    def __init__(self, crate, table):
        self.crate = crate
        self.rows = {r['fn']: r for r in table['functions']}
        self.used = set()
        self.trail = []

    def row_for(self, call):
        names = [H.callee(call), H.callee_decl(call)]
        for n in names:
            if not n:
                continue
            s = short(n)
            for cand in (n, s, s.split('::')[-1] if call.get('k') == 'MCall' else None):
                if cand and cand in self.rows:
                    return self.rows[cand]
        if call.get('k') == 'MCall' and ('.' + call.get('m', '')) in self.rows:
            return self.rows['.' + call['m']]
        return None

    def reassigned(self, fn, hid):
        for n in walk(fn['body']):
            if n.get('k') in ('Assign', 'AssignOp'):
                l = n['l']
                if l.get('k') == 'Path' and l.get('hid') == hid:
                    return n
        return None

    def invariant(self, fn, e, scope):
        """e does not vary inside scope: every local it mentions is bound outside scope."""
        inside = set()
        for n in walk(scope):
            if n.get('k') == 'Bind':
                inside.add(n.get('hid'))
        for n in walk(e):
            if n.get('k') == 'Path' and n.get('res') == 'local' and n.get('hid') in inside:
                return False
        return True

    def inj(self, fn, e, keys, scope, slot=None, depth=0):
        """(ok, why). keys: hids of the bindings that hold the source key; scope: the closure / loop node items vary in."""
        if depth > 25:
            return False, 'derivation too deep'
        x = _peel(e)
        k = x.get('k')
        nxt = depth + 1
        if k == 'Path' and x.get('res') == 'local':
            hid = x.get('hid')
            if hid in keys:
                if slot is not None:
                    return False, 'a component of the source key `%s`, not the key' % pp(x)
                return True, 'the source key `%s`' % pp(x)
            b = H.binding_sites(fn).get(hid)
            if b is None:
                return False, '`%s`: binding not found' % pp(x)
            ra = self.reassigned(fn, hid)
            if ra is not None:
                return False, '`%s` is reassigned (%s): its value is not one function of the source key' % (pp(x), pp(ra, maxlen=60))
            kind = b['kind']
            if kind in ('let', 'letcond', 'arm'):
                if kind == 'let':
                    init = b['node'].get('init')
                elif kind == 'letcond':
                    init = b['node'].get('e')
                else:
                    par = H.parents(fn).get(id(b['node']))
                    init = par['e'] if par is not None and par.get('k') == 'Match' else None
                if init is None:
                    return False, '`%s` has no initialiser' % pp(x)
                pr = _pat_projection(b['pat'], hid)
                if pr is None:
                    return False, '`%s` is bound by a pattern that is not a plain projection: %s' % (pp(x), pp(b['pat'], maxlen=50))
                want = slot
                if pr[0] == 'slot':
                    if slot is not None:
                        return False, 'nested tuple projection at `%s`' % pp(x)
                    want = pr[1]
                vals = [v for v in H.value_exprs(init) if not _diverges(_peel(v)) and not _none_like(v)]
                if len(vals) != 1:
                    return False, '`%s` has %d alternative definitions (%s)' % (pp(x), len(vals), '; '.join(pp(v, maxlen=40) for v in vals[:3]))
                return self.inj(fn, vals[0], keys, scope, want, nxt)
            return False, '`%s` (%s) does not derive from the source key' % (pp(x), kind)
        if k == 'Tup':
            if slot is None or slot >= len(x['es']):
                return False, 'tuple `%s` used whole' % pp(x, maxlen=50)
            return self.inj(fn, x['es'][slot], keys, scope, None, nxt)
        if k == 'Field' and str(x.get('f', '')).isdigit():
            if slot is not None:
                return False, 'nested tuple projection'
            return self.inj(fn, x['e'], keys, scope, int(x['f']), nxt)
        if k in ('Block', 'If', 'Match'):
            vals = [v for v in H.value_exprs(x) if not _diverges(_peel(v)) and not _none_like(v)]
            if len(vals) != 1:
                return False, '%d alternative values (%s)' % (len(vals), '; '.join(pp(v, maxlen=40) for v in vals[:3]))
            return self.inj(fn, vals[0], keys, scope, slot, nxt)
        if k == 'Binary' and x.get('op') == 'Add' and slot is None:
            for a, b in ((x['l'], x['r']), (x['r'], x['l'])):
                if self.invariant(fn, b, scope):
                    ok, why = self.inj(fn, a, keys, scope, None, nxt)
                    if ok:
                        return True, '%s, joined with the loop-invariant `%s`' % (why, pp(b, maxlen=30))
            return False, 'concatenation `%s` of two varying parts' % pp(x, maxlen=60)
        if k == 'Call' and any((x.get('def') or '').endswith(w) for w in WRAP) and len(x['args']) == 1:
            return self.inj(fn, x['args'][0], keys, scope, slot, nxt)
        if k in ('Call', 'MCall'):
            args = H.call_args(x)
            if k == 'MCall' and x.get('m') in VIEWS and len(args) == 1:
                return self.inj(fn, args[0], keys, scope, slot, nxt)
            # conversions between owned and borrowed forms of one value, spelled as a path call: String::from(s), ToOwned::to_owned(s), ..
            d_ = x.get('def') or ''
            if k == 'Call' and len(args) == 1 and d_.split('::')[-1] in ('from', 'to_owned', 'to_string', 'into', 'clone', 'as_ref') and \
                    d_.startswith(('std::convert::From', 'std::convert::Into', 'std::borrow::ToOwned', 'std::string::ToString', 'std::clone::Clone', 'std::convert::AsRef', 'std::string::String')):
                return self.inj(fn, args[0], keys, scope, slot, nxt)
            row = self.row_for(x)
            if row is not None:
                i = row['arg']
                if i >= len(args):
                    return False, 'reviewed row %s names argument %d of %d' % (row['fn'], i, len(args))
                if 'literal_args' in row and not all(H.lit_value(args[j]) is not None for j in row['literal_args'] if j < len(args)):
                    return False, '%s: arguments %s must be literals' % (row['fn'], row['literal_args'])
                ok, why = self.inj(fn, args[i], keys, scope, None, nxt)
                if ok:
                    self.used.add(row['fn'])
                    return True, '%s(%s) [reviewed: %s]' % (row['fn'], why, row['reason'][:60])
                return False, why
            tgt = H.callee(x)
            f2 = self.crate.fn(tgt) if tgt else None
            if f2 is None and x.get('def'):
                f2 = self.crate.fn(x['def'])
            if f2 is not None and f2.get('body') is not None:
                good = []
                for i, a in enumerate(args):
                    if a.get('k') == 'Closure':
                        continue
                    ok, _ = self.inj(fn, a, keys, scope, None, nxt)
                    if ok:
                        good.append(i)
                if not good:
                    return False, 'no argument of %s() is an accepted function of the source key' % short(f2['path'])
                params = f2.get('params', [])
                keys2 = set()
                for i in good:
                    if i < len(params):
                        keys2 |= {b['hid'] for b in H.pat_bindings(params[i])}
                rets = [r for r in H.return_exprs(f2['body']) if not _diverges(_peel(r)) and not _none_like(r)]
                if len(rets) != 1:
                    return False, '%s() has %d alternative results (%s)' % (short(f2['path']), len(rets), '; '.join(pp(r, maxlen=40) for r in rets[:3]))
                ok, why = self.inj(f2, rets[0], keys2, f2['body'], slot, nxt)
                return ok, '%s(): %s' % (short(f2['path']), why)
            return False, 'call `%s` is neither a view, a function of this crate nor a reviewed row of tables/injective_fns.json' % pp(x, maxlen=60)
        if k == 'Lit':
            return False, 'a literal: every item gets the same key'
        return False, '`%s` (%s) is not an accepted derivation' % (pp(x, maxlen=60), k)
