"""Structural helpers over the typed HIR trees."""
from facts import walk, children, short, pp, strip_generics


def parents(fn):
    """id(node) -> parent node for the whole fn (params + body)."""
    pm = fn.get('_parents')
    if pm is not None:
        return pm
    pm = {}
    roots = list(fn.get('params', [])) + [fn['body']]
    for r in roots:
        stack = [r]
        while stack:
            x = stack.pop()
            for c in children(x):
                pm[id(c)] = x
                stack.append(c)
    fn['_parents'] = pm
    return pm


def ancestors(fn, n):
    pm = parents(fn)
    cur = pm.get(id(n))
    while cur is not None:
        yield cur
        cur = pm.get(id(cur))


def pat_bindings(p):
    """All Bind nodes in a pattern."""
    return [x for x in walk(p) if x.get('k') == 'Bind']


def binding_sites(fn):
    """hid -> dict(kind, node, pat, bind) describing where a local is bound.
    kind: param | let | for | arm | closure_param | letcond"""
    bs = fn.get('_bindings')
    if bs is not None:
        return bs
    bs = {}
    for i, p in enumerate(fn.get('params', [])):
        for b in pat_bindings(p):
            bs[b['hid']] = {'kind': 'param', 'node': None, 'pat': p, 'bind': b, 'index': i}
    for n in walk(fn['body']):
        k = n.get('k')
        if k == 'Let':
            for b in pat_bindings(n['pat']):
                bs[b['hid']] = {'kind': 'let', 'node': n, 'pat': n['pat'], 'bind': b}
        elif k == 'For':
            for b in pat_bindings(n['pat']):
                bs[b['hid']] = {'kind': 'for', 'node': n, 'pat': n['pat'], 'bind': b}
        elif k == 'Arm':
            for b in pat_bindings(n['pat']):
                bs[b['hid']] = {'kind': 'arm', 'node': n, 'pat': n['pat'], 'bind': b}
        elif k == 'Closure':
            for i, p in enumerate(n['params']):
                for b in pat_bindings(p):
                    bs[b['hid']] = {'kind': 'closure_param', 'node': n, 'pat': p, 'bind': b, 'index': i}
        elif k == 'LetCond':
            for b in pat_bindings(n['pat']):
                bs[b['hid']] = {'kind': 'letcond', 'node': n, 'pat': n['pat'], 'bind': b}
    fn['_bindings'] = bs
    return bs


def value_exprs(e):
    """Expressions whose value may become the value of e (through blocks, if/match arms)."""
    k = e.get('k')
    if k == 'Block':
        if 'e' in e:
            for x in value_exprs(e['e']):
                yield x
        return
    if k == 'If':
        for x in value_exprs(e['then']):
            yield x
        if 'els' in e:
            for x in value_exprs(e['els']):
                yield x
        return
    if k == 'Match':
        for a in e['arms']:
            for x in value_exprs(a['body']):
                yield x
        return
    yield e


def return_exprs(fn_or_closure_body, is_closure=False):
    """Expressions that can be the returned value: tail values plus explicit `return e`
    (not descending into nested closures)."""
    body = fn_or_closure_body
    out = list(value_exprs(body))
    for n in walk(body, enter_closures=False):
        if n.get('k') == 'Ret' and 'e' in n:
            out.extend(value_exprs(n['e']))
    return out


def strip_refs(e):
    """Peel AddrOf / Deref / method calls that are pure views."""
    while True:
        k = e.get('k')
        if k == 'AddrOf':
            e = e['e']
        elif k == 'Unary' and e.get('op') == 'Deref':
            e = e['e']
        elif k == 'Cast':
            e = e['e']
        else:
            return e


def root_local(e):
    """The local variable at the root of a place-like expression (x, x.f, *x, x[i], &x, x.method()) or None."""
    while True:
        k = e.get('k')
        if k == 'Path':
            return e if e.get('res') == 'local' else None
        if k in ('AddrOf', 'Field', 'Cast', 'Index'):
            e = e['e']
        elif k == 'Unary' and e.get('op') == 'Deref':
            e = e['e']
        elif k == 'MCall':
            e = e['recv']
        elif k == 'Try':
            e = e['e']
        else:
            return None


def callee(n):
    """Resolved callee path of a Call/MCall node (the impl instance when known)."""
    if n.get('k') in ('Call', 'MCall'):
        return n.get('inst') or n.get('def')
    return None


def callee_decl(n):
    if n.get('k') in ('Call', 'MCall'):
        return n.get('def')
    return None


def call_args(n):
    """All argument expressions including the receiver."""
    if n.get('k') == 'MCall':
        return [n['recv']] + list(n['args'])
    if n.get('k') == 'Call':
        return list(n['args'])
    return []


def is_call_to(n, *suffixes):
    c = callee(n)
    d = callee_decl(n)
    for s in suffixes:
        for p in (c, d):
            if p and (p == s or p.endswith('::' + s)):
                return True
    return False


def calls_in(root, enter_closures=True):
    for n in walk(root, enter_closures=enter_closures):
        if n.get('k') in ('Call', 'MCall'):
            yield n


def lit_value(e):
    e = strip_refs(e)
    if e.get('k') == 'Lit':
        return e.get('v')
    return None


def stmt_sequence(block):
    """Statements of a block as a list of expression/let nodes plus the tail."""
    out = []
    for s in block.get('stmts', []):
        out.append(s)
    if 'e' in block:
        out.append({'k': 'Tail', 'e': block['e']})
    return out


def lexically_precedes_dominating(fn, guard, site):
    """True if `guard` is evaluated on every path before `site` by structure:
    guard sits in a statement S1 of block B (not under a conditional inside S1's own
    expression, except as condition/scrutinee), site sits in a later statement of B or
    nested below one; and no loop/closure boundary separates B from guard."""
    pm = parents(fn)
    # chain of ancestors for guard up to each enclosing block
    def chain(n):
        out = [n]
        cur = pm.get(id(n))
        while cur is not None:
            out.append(cur)
            cur = pm.get(id(cur))
        return out
    gch = chain(guard)
    sch = chain(site)
    sids = {id(x): i for i, x in enumerate(sch)}
    # lowest common ancestor
    lca = None
    gi = None
    for i, x in enumerate(gch):
        if id(x) in sids:
            lca = x
            gi = i
            break
    if lca is None:
        return False
    si = sids[id(lca)]
    # guard side: from guard up to LCA must not cross conditional arms / closures / loops
    for j in range(0, gi):
        child = gch[j]
        par = gch[j + 1]
        pk = par.get('k')
        if pk == 'Closure' or pk in ('Loop', 'For'):
            return False
        if pk == 'If' and (par.get('then') is child or par.get('els') is child):
            return False
        if pk == 'Arm' and par.get('body') is child:
            return False
        if pk == 'Binary' and par.get('op') in ('And', 'Or') and par.get('r') is child:
            return False
    if lca.get('k') == 'Block':
        gchild = gch[gi - 1] if gi > 0 else None
        schild = sch[si - 1] if si > 0 else None
        seq = list(lca.get('stmts', []))
        order = {}
        for i, s in enumerate(seq):
            order[id(s)] = i
        if 'e' in lca:
            order[id(lca['e'])] = len(seq)
        # children of Block via `children()` are the stmt dicts (Let) or the inner e of Expr/Semi
        def pos(ch):
            if ch is None:
                return None
            if id(ch) in order:
                return order[id(ch)]
            for i, s in enumerate(seq):
                if s.get('e') is ch or s.get('init') is ch:
                    return i
            return None
        gp, sp_ = pos(gchild), pos(schild)
        if gp is None or sp_ is None:
            return False
        return gp < sp_
    # LCA is an expression containing both: accept `if guard { site }`, `match guard {..site..}`
    if lca.get('k') == 'If':
        gchild = gch[gi - 1]
        schild = sch[si - 1]
        return lca.get('c') is gchild and (lca.get('then') is schild or lca.get('els') is schild)
    if lca.get('k') == 'Match':
        gchild = gch[gi - 1]
        return lca.get('e') is gchild
    if lca.get('k') == 'Let':
        return False
    return False
