"""Structural helpers over the typed HIR trees."""
from facts import walk, children, short, pp, strip_generics


def parents(fn):
    """id(node) -> parent node for the whole fn (params + body)."""
    pm = fn.get('_parents')
    if pm is not None:
        return pm
    pm = {}
    roots = list(fn.get('params', [])) + [fn['body']]
    for r in roots:
        stack = [r]
        while stack:
            x = stack.pop()
            for c in children(x):
                pm[id(c)] = x
                stack.append(c)
    fn['_parents'] = pm
    return pm


def ancestors(fn, n):
    pm = parents(fn)
    cur = pm.get(id(n))
    while cur is not None:
        yield cur
        cur = pm.get(id(cur))


def pat_bindings(p):
    """All Bind nodes in a pattern."""
    return [x for x in walk(p) if x.get('k') == 'Bind']


def binding_sites(fn):
    """hid -> dict(kind, node, pat, bind) describing where a local is bound.
    kind: param | let | for | arm | closure_param | letcond"""
    bs = fn.get('_bindings')
    if bs is not None:
        return bs
    bs = {}
    for i, p in enumerate(fn.get('params', [])):
        for b in pat_bindings(p):
            bs[b['hid']] = {'kind': 'param', 'node': None, 'pat': p, 'bind': b, 'index': i}
    for n in walk(fn['body']):
        k = n.get('k')
        if k == 'Let':
            for b in pat_bindings(n['pat']):
                bs[b['hid']] = {'kind': 'let', 'node': n, 'pat': n['pat'], 'bind': b}
        elif k == 'For':
            for b in pat_bindings(n['pat']):
                bs[b['hid']] = {'kind': 'for', 'node': n, 'pat': n['pat'], 'bind': b}
        elif k == 'Arm':
            for b in pat_bindings(n['pat']):
                bs[b['hid']] = {'kind': 'arm', 'node': n, 'pat': n['pat'], 'bind': b}
        elif k == 'Closure':
            for i, p in enumerate(n['params']):
                for b in pat_bindings(p):
                    bs[b['hid']] = {'kind': 'closure_param', 'node': n, 'pat': p, 'bind': b, 'index': i}
        elif k == 'LetCond':
            for b in pat_bindings(n['pat']):
                bs[b['hid']] = {'kind': 'letcond', 'node': n, 'pat': n['pat'], 'bind': b}
    fn['_bindings'] = bs
    return bs


def value_exprs(e):
    """Expressions whose value may become the value of e (through blocks, if/match arms)."""
    k = e.get('k')
    if k == 'Block':
        if 'e' in e:
            for x in value_exprs(e['e']):
                yield x
        return
    if k == 'If':
        for x in value_exprs(e['then']):
            yield x
        if 'els' in e:
            for x in value_exprs(e['els']):
                yield x
        return
    if k == 'Match':
        for a in e['arms']:
            for x in value_exprs(a['body']):
                yield x
        return
    yield e


def return_exprs(fn_or_closure_body, is_closure=False):
    """Expressions that can be the returned value: tail values plus explicit `return e`
    (not descending into nested closures)."""
    body = fn_or_closure_body
    out = list(value_exprs(body))
    for n in walk(body, enter_closures=False):
        if n.get('k') == 'Ret' and 'e' in n:
            out.extend(value_exprs(n['e']))
    return out


def strip_refs(e):
    """Peel AddrOf / Deref / method calls that are pure views."""
    while True:
        k = e.get('k')
        if k == 'AddrOf':
            e = e['e']
        elif k == 'Unary' and e.get('op') == 'Deref':
            e = e['e']
        elif k == 'Cast':
            e = e['e']
        else:
            return e


def root_local(e):
    """The local variable at the root of a place-like expression (x, x.f, *x, x[i], &x, x.method()) or None."""
    while True:
        k = e.get('k')
        if k == 'Path':
            return e if e.get('res') == 'local' else None
        if k in ('AddrOf', 'Field', 'Cast', 'Index'):
            e = e['e']
        elif k == 'Unary' and e.get('op') == 'Deref':
            e = e['e']
        elif k == 'MCall':
            e = e['recv']
        elif k == 'Try':
            e = e['e']
        else:
            return None


def callee(n):
    """Resolved callee path of a Call/MCall node (the impl instance when known)."""
    if n.get('k') in ('Call', 'MCall'):
        return n.get('inst') or n.get('def')
    return None


def callee_decl(n):
    if n.get('k') in ('Call', 'MCall'):
        return n.get('def')
    return None


def call_args(n):
    """All argument expressions including the receiver."""
    if n.get('k') == 'MCall':
        return [n['recv']] + list(n['args'])
    if n.get('k') == 'Call':
        return list(n['args'])
    return []


def is_call_to(n, *suffixes):
    c = callee(n)
    d = callee_decl(n)
    for s in suffixes:
        for p in (c, d):
            if p and (p == s or p.endswith('::' + s)):
                return True
    return False


def calls_in(root, enter_closures=True):
    for n in walk(root, enter_closures=enter_closures):
        if n.get('k') in ('Call', 'MCall'):
            yield n


def lit_value(e):
    e = strip_refs(e)
    if e.get('k') == 'Lit':
        return e.get('v')
    return None


def stmt_sequence(block):
    """Statements of a block as a list of expression/let nodes plus the tail."""
    out = []
    for s in block.get('stmts', []):
        out.append(s)
    if 'e' in block:
        out.append({'k': 'Tail', 'e': block['e']})
    return out


def lexically_precedes_dominating(fn, guard, site):
    """True if `guard` is evaluated on every path before `site` by structure:
    guard sits in a statement S1 of block B (not under a conditional inside S1's own
    expression, except as condition/scrutinee), site sits in a later statement of B or
    nested below one; and no loop/closure boundary separates B from guard."""
    pm = parents(fn)
    # chain of ancestors for guard up to each enclosing block
    def chain(n):
        out = [n]
        cur = pm.get(id(n))
        while cur is not None:
            out.append(cur)
            cur = pm.get(id(cur))
        return out
    gch = chain(guard)
    sch = chain(site)
    sids = {id(x): i for i, x in enumerate(sch)}
    # lowest common ancestor
    lca = None
    gi = None
    for i, x in enumerate(gch):
        if id(x) in sids:
            lca = x
            gi = i
            break
    if lca is None:
        return False
    si = sids[id(lca)]
    # guard side: from guard up to LCA must not cross conditional arms / closures / loops
    for j in range(0, gi):
        child = gch[j]
        par = gch[j + 1]
        pk = par.get('k')
        if pk == 'Closure' or pk in ('Loop', 'For'):
            return False
        if pk == 'If' and (par.get('then') is child or par.get('els') is child):
            return False
        if pk == 'Arm' and par.get('body') is child:
            return False
        if pk == 'Binary' and par.get('op') in ('And', 'Or') and par.get('r') is child:
            return False
    if lca.get('k') == 'Block':
        gchild = gch[gi - 1] if gi > 0 else None
        schild = sch[si - 1] if si > 0 else None
        seq = list(lca.get('stmts', []))
        order = {}
        for i, s in enumerate(seq):
            order[id(s)] = i
        if 'e' in lca:
            order[id(lca['e'])] = len(seq)
        # children of Block via `children()` are the stmt dicts (Let) or the inner e of Expr/Semi
        def pos(ch):
            if ch is None:
                return None
            if id(ch) in order:
                return order[id(ch)]
            for i, s in enumerate(seq):
                if s.get('e') is ch or s.get('init') is ch:
                    return i
            return None
        gp, sp_ = pos(gchild), pos(schild)
        if gp is None or sp_ is None:
            return False
        return gp < sp_
    # LCA is an expression containing both: accept `if guard { site }`, `match guard {..site..}`
    if lca.get('k') == 'If':
        gchild = gch[gi - 1]
        schild = sch[si - 1]
        return lca.get('c') is gchild and (lca.get('then') is schild or lca.get('els') is schild)
    if lca.get('k') == 'Match':
        gchild = gch[gi - 1]
        return lca.get('e') is gchild
    if lca.get('k') == 'Let':
        return False
    return False


# ---------------------------------------------------------------------------
# format_args! templates (this nightly lowers them to Arguments::new(<byte template>, &args))


def decode_fmt_template(hexstr):
    """Decode the fmt::Arguments byte template into a list of ('lit', str) / ('arg', index|None, flags, {width, precision}|None) pieces."""
    b = bytes.fromhex(hexstr)
    out = []
    i = 0
    nxt = 0
    while i < len(b):
        c = b[i]
        if c == 0:
            break
        if c < 0x80:
            out.append(('lit', b[i + 1:i + 1 + c].decode('utf-8', 'replace')))
            i += 1 + c
        elif c == 0x80:
            ln = b[i + 1] | (b[i + 2] << 8)
            out.append(('lit', b[i + 3:i + 3 + ln].decode('utf-8', 'replace')))
            i += 3 + ln
        elif c >= 0xC0:
            i += 1
            flags = None
            if c & 1:
                flags = int.from_bytes(b[i:i + 4], 'little')
                i += 4
            width = prec = None
            if c & 2:
                width = b[i] | (b[i + 1] << 8)
                i += 2
            if c & 4:
                prec = b[i] | (b[i + 1] << 8)
                i += 2
            idx = None
            if c & 8:
                idx = b[i] | (b[i + 1] << 8)
                i += 2
            if idx is None:
                idx = nxt
            nxt = idx + 1
            out.append(('arg', idx, flags, {'width': width, 'precision': prec} if (width is not None or prec is not None) else None))
        else:
            out.append(('?', c))
            i += 1
    return out


def format_sites(root):
    """Every format_args! expansion below root: dict(node, pieces, args=[(trait, expr)])."""
    out = []
    for n in walk(root):
        if n.get('k') != 'Call':
            continue
        d = n.get('def') or ''
        if d.endswith('fmt::Arguments::new') and n['args'] and 'hex' in strip_refs(n['args'][0]):
            pieces = decode_fmt_template(strip_refs(n['args'][0])['hex'])
            out.append({'node': n, 'pieces': pieces, 'args': None})
        elif d.endswith('fmt::Arguments::from_str') or d.endswith('fmt::Arguments::from_str_nonconst'):
            v = lit_value(n['args'][0]) if n['args'] else None
            out.append({'node': n, 'pieces': [('lit', v)] if v is not None else [], 'args': []})
    return out


def format_sites_in_fn(fn):
    """format sites with their argument expressions resolved: the expansion is
    `{ let args = (&a, &b); let args = [Argument::new_display(args.0), ..]; Arguments::new(tmpl, &args) }`."""
    pm = parents(fn)
    sites = format_sites(fn['body'])
    for s in sites:
        if s['args'] is not None:
            continue
        # find the enclosing block that holds the two `let args`
        cur = pm.get(id(s['node']))
        tup = None
        arr = None
        hops = 0
        while cur is not None and hops < 6:
            if cur.get('k') == 'Block':
                for st in cur.get('stmts', []):
                    if st.get('k') == 'Let' and 'init' in st:
                        init = st['init']
                        if init.get('k') == 'Tup':
                            tup = init
                        elif init.get('k') == 'Array':
                            arr = init
                        elif init.get('k') == 'AddrOf' and init['e'].get('k') == 'Tup':
                            tup = init['e']
                if arr is not None:
                    break
            cur = pm.get(id(cur))
            hops += 1
        args = []
        if arr is not None:
            for a in arr['es']:
                trait = (a.get('def') or '').split('::')[-1]
                inner = a['args'][0] if a.get('args') else None
                expr = inner
                if inner is not None and inner.get('k') == 'Field' and tup is not None and inner.get('f', '').isdigit():
                    idx = int(inner['f'])
                    if idx < len(tup['es']):
                        expr = tup['es'][idx]
                args.append((trait, expr))
        s['args'] = args
    return sites


def fmt_text(site):
    """Template rendered with {i} placeholders."""
    out = []
    for p in site['pieces']:
        if p[0] == 'lit':
            out.append(p[1])
        elif p[0] == 'arg':
            out.append('{%d}' % p[1])
    return ''.join(out)


# ---------------------------------------------------------------------------
# provenance (A3): which calls / constants / params can an expression's value derive from


def _slot_of_pat(pat, hid):
    p = pat
    while True:
        if p.get('k') in ('PRef', 'PDeref'):
            p = p['p']
        elif p.get('k') == 'PTS' and len(p.get('subs', [])) == 1 and (p.get('def') or '').split('::')[-1] in ('Some', 'Ok', 'Err'):
            p = p['subs'][0]
        else:
            break
    if p.get('k') != 'PTup':
        return None
    for i, s in enumerate(p['subs']):
        for b in pat_bindings(s):
            if b['hid'] == hid:
                return i
    return None


def origins(fn, e, depth=0, seen=None):
    """Backward slice of e through locals, blocks, refs, field/method views and tuple slots.
    Returns a list of origin nodes: calls (Call/MCall), literals, params (Bind nodes with kind param),
    closures params, other expression nodes where the slice stops."""
    if seen is None:
        seen = set()
    if id(e) in seen or depth > 40:
        return []
    seen.add(id(e))
    k = e.get('k')
    bs = binding_sites(fn)
    if k in ('AddrOf', 'Cast', 'Try'):
        return origins(fn, e['e'], depth + 1, seen)
    if k == 'Unary' and e.get('op') == 'Deref':
        return origins(fn, e['e'], depth + 1, seen)
    if k in ('Block', 'If', 'Match'):
        out = []
        for v in value_exprs(e):
            if v is not e:
                out.extend(origins(fn, v, depth + 1, seen))
        return out
    if k == 'Path' and e.get('res') == 'local':
        b = bs.get(e.get('hid'))
        if b is None:
            return [e]
        if b['kind'] in ('let', 'letcond'):
            init = b['node'].get('init') if b['kind'] == 'let' else b['node'].get('e')
            if init is None:
                return [b['bind']]
            slot = _slot_of_pat(b['pat'], e.get('hid'))
            out = []
            for v in value_exprs(init):
                if slot is not None and v.get('k') == 'Tup' and slot < len(v['es']):
                    out.extend(origins(fn, v['es'][slot], depth + 1, seen))
                else:
                    out.extend(origins(fn, v, depth + 1, seen))
            return out
        if b['kind'] == 'arm':
            # bound by a match arm / if-let arm: the value comes from (part of) the scrutinee
            par = parents(fn).get(id(b['node']))
            if par is not None and par.get('k') == 'Match':
                return origins(fn, par['e'], depth + 1, seen)
        if b['kind'] == 'for':
            return origins(fn, b['node']['iter'], depth + 1, seen)
        return [b['bind']]
    return [e]


def origin_callees(fn, e, through=()):
    """Short names of callees the value of e derives from, following through receiver/args of calls whose
    method name is listed in `through` (pure views/adaptors) or any call when through is None."""
    out = set()
    todo = list(origins(fn, e))
    seen = set()
    while todo:
        o = todo.pop()
        if id(o) in seen:
            continue
        seen.add(id(o))
        if o.get('k') in ('Call', 'MCall'):
            name = o.get('m') or short(callee_decl(o) or '?').split('::')[-1]
            out.add(short(callee(o) or callee_decl(o) or name))
            if through is None or name in through:
                for a in call_args(o):
                    if a.get('k') != 'Closure':
                        todo.extend(origins(fn, a))
    return out


def resolve_slots(fn, e, slot=None, depth=0):
    """Slot-aware provenance: terminals (node, slot) where slot is the tuple slot of the terminal's value that flows
    into e (None = whole value). Follows locals, tuple destructuring and tuple literals."""
    if depth > 30:
        return [(e, slot)]
    x = strip_refs(e)
    k = x.get('k')
    bs = binding_sites(fn)
    if k in ('Block', 'If', 'Match'):
        out = []
        for v in value_exprs(x):
            if v is not x:
                out.extend(resolve_slots(fn, v, slot, depth + 1))
        return out
    if k == 'Tup' and slot is not None:
        if slot < len(x['es']):
            return resolve_slots(fn, x['es'][slot], None, depth + 1)
        return [(x, slot)]
    if k == 'Path' and x.get('res') == 'local':
        b = bs.get(x.get('hid'))
        if b is None:
            return [(x, slot)]
        if b['kind'] in ('let', 'letcond'):
            init = b['node'].get('init') if b['kind'] == 'let' else b['node'].get('e')
            if init is None:
                return [(b['bind'], slot)]
            here = _slot_of_pat(b['pat'], x['hid'])
            if here is not None and slot is not None:
                return [(b['bind'], slot)]
            return resolve_slots(fn, init, here if here is not None else slot, depth + 1)
        here = _slot_of_pat(b['pat'], x['hid'])
        return [(b['bind'], here if here is not None else slot)]
    return [(x, slot)]


def source_before(a, b):
    """True if node a starts before node b in the source text of the same file."""
    sa, sb = a.get('sp'), b.get('sp')
    if not sa or not sb or sa[0] != sb[0]:
        return False
    return (sa[1], sa[2]) < (sb[1], sb[2])


# ---------------------------------------------------------------------------
# path enumeration over structured HIR (A2'): which events happen on each path through a region

def paths(e, classify, limit=256):
    """All control paths through e as (ctx, events, exit): ctx = list of (label, node) decisions taken (match arm patterns /
    then / else), events = labels returned by classify(node) for the Call/MCall/Assign/Ret nodes met in source order,
    exit = None (falls through) | 'continue' | 'break' | 'return' | 'try' is not modelled (a `?` is an event if classify says so).
    Closures are not entered. The number of paths is capped (the regions this is used on are small)."""
    def leaf_events(n):
        out = []
        for x in walk(n, enter_closures=False):
            if x.get('k') in ('Call', 'MCall', 'Assign', 'AssignOp', 'Try'):
                lab = classify(x)
                if lab is not None:
                    out.append((lab, x))
        out.sort(key=lambda t: ((t[1].get('sp') or [0, 0, 0])[1], (t[1].get('sp') or [0, 0, 0])[2]))
        return [lab for lab, _ in out]

    def go(n, ctx):
        k = n.get('k')
        if k == 'Block':
            acc = [(ctx, [], None)]
            seq = list(n.get('stmts', [])) + ([n['e']] if 'e' in n else [])
            for part in seq:
                nxt = []
                for c0, ev0, ex0 in acc:
                    if ex0 is not None:
                        nxt.append((c0, ev0, ex0))
                        continue
                    for c1, ev1, ex1 in go(part, c0):
                        nxt.append((c1, ev0 + ev1, ex1))
                acc = nxt[:limit]
            return acc
        if k in ('Semi', 'Expr'):
            return go(n['e'], ctx)
        if k == 'Let':
            out = go(n['init'], ctx) if n.get('init') is not None else [(ctx, [], None)]
            if n.get('els') is not None:
                out = out + [(c + [('let-else', n)], ev + ev2, ex2) for c, ev, _ in out for _, ev2, ex2 in go(n['els'], c)]
            return out
        if k == 'If':
            cond_ev = leaf_events(n['c'])
            out = []
            for c1, ev1, ex1 in go(n['then'], ctx + [('then', n)]):
                out.append((c1, cond_ev + ev1, ex1))
            if 'els' in n:
                for c1, ev1, ex1 in go(n['els'], ctx + [('else', n)]):
                    out.append((c1, cond_ev + ev1, ex1))
            else:
                out.append((ctx + [('else', n)], list(cond_ev), None))
            return out
        if k == 'Match':
            scr = leaf_events(n['e'])
            out = []
            for a in n['arms']:
                g = leaf_events(a['guard']) if 'guard' in a else []
                for c1, ev1, ex1 in go(a['body'], ctx + [('arm', a)]):
                    out.append((c1, scr + g + ev1, ex1))
            return out
        if k == 'Continue':
            return [(ctx, [], 'continue')]
        if k == 'Break':
            return [(ctx, [], 'break')]
        if k == 'Ret':
            return [(ctx, leaf_events(n['e']) if n.get('e') is not None else [], 'return')]
        if k in ('For', 'Loop'):
            return [(ctx, leaf_events(n), None)]     # inner loops: flat
        return [(ctx, leaf_events(n), None)]
    return go(e, [])


def describe_ctx(ctx):
    from facts import pp as _pp
    out = []
    for lab, node in ctx:
        if lab == 'arm':
            out.append(_pp(node['pat'], maxlen=40) + (' if ..' if 'guard' in node else ''))
        elif lab in ('then', 'else'):
            out.append(('' if lab == 'then' else '!') + '(' + _pp(node['c'], maxlen=40) + ')')
        else:
            out.append(lab)
    return ' / '.join(out)


def absorbing_child_loop(fn, call):
    """`for PAT in SRC { if let Some(x) = <call> { V.push(x) } }` (or an unconditional push of the call's value): the loop form of
    `SRC.filter_map(|n| call(n)).collect()`. Returns dict(loop, vec_hid, conditional) or None.
    Requirements: the loop body has no break/continue/return; the only effect on V in the loop is that one push; the pushed
    value is what the `if let Some(..)` bound (or the call itself); SRC has no narrowing/reordering adaptor."""
    lp = next((a for a in ancestors(fn, call) if a.get('k') == 'For'), None)
    if lp is None:
        return None
    if any(x.get('k') in ('Break', 'Continue', 'Ret') for x in walk(lp['body'], enter_closures=False)):
        return None
    for m in walk(lp['iter']):
        if m.get('k') == 'MCall' and m.get('m') in ('rev', 'skip', 'take', 'filter', 'step_by', 'skip_while', 'take_while', 'chain', 'zip', 'sorted', 'sorted_by', 'sorted_by_key', 'dedup', 'unique'):
            return None
    pushes = [c for c in calls_in(lp['body']) if c.get('m') == 'push']
    if len(pushes) != 1:
        return None
    p = pushes[0]
    vec = root_local(p['recv'])
    if vec is None:
        return None
    par = parents(fn)
    cond = None
    for a in ancestors(fn, p):
        if a is lp:
            break
        if a.get('k') == 'If':
            if cond is not None or a['c'].get('k') != 'LetCond' or strip_refs(a['c']['e']) is not call and not any(x is call for x in walk(a['c']['e'])):
                return None
            if not pp_is_some(a['c']['pat']) or 'els' in a and list(walk(a['els'])) and any(x.get('k') in ('Call', 'MCall') for x in walk(a['els'])):
                return None
            cond = a
        elif a.get('k') in ('Match', 'Loop', 'For', 'Closure'):
            return None
    pushed = root_local(p['args'][0])
    if cond is not None:
        b = pat_bindings(cond['c']['pat'])
        if not b or pushed is None or pushed.get('hid') != b[0]['hid'] or strip_refs(p['args'][0]).get('k') != 'Path':
            return None
    else:
        if not any(x is call for x in walk(p['args'][0])):
            return None
    # V is not touched otherwise inside the loop
    for c in calls_in(lp['body']):
        if c is not p and c.get('k') == 'MCall' and (root_local(c['recv']) or {}).get('hid') == vec.get('hid'):
            return None
    return {'loop': lp, 'vec_hid': vec.get('hid'), 'conditional': cond is not None, 'push': p}


def pp_is_some(pat):
    while pat.get('k') in ('PRef', 'PDeref'):
        pat = pat['p']
    return pat.get('k') in ('PTS', 'PStruct') and (pat.get('def') or '').endswith('Option::Some')


def diverges_always(n):
    """every path through n ends in continue / break / return (structurally: the last statement does, or both branches of an if do)."""
    k = n.get('k')
    if k in ('Continue', 'Break', 'Ret'):
        return True
    if k in ('Semi', 'Expr', 'DropTemps', 'Paren'):
        return diverges_always(n['e'])
    if k == 'Block':
        seq = list(n.get('stmts', [])) + ([n['e']] if 'e' in n else [])
        return any(diverges_always(x) for x in seq)
    if k == 'If':
        return 'els' in n and diverges_always(n['then']) and diverges_always(n['els'])
    if k == 'Match':
        return bool(n['arms']) and all(diverges_always(a['body']) for a in n['arms'])
    return False


def some_guard_dominates(fn, g, site):
    """g is an Option-valued call; True if `site` is reached only after g returned Some:
    `g?` in front; `if g.is_none() { continue|return|break }` in front; `if g.is_some() { site }`; `if let Some(..) = g { site }`;
    `let Some(..) = g else { diverge };` in front; `match g { Some(..) => site / None => diverge }`."""
    pm = parents(fn)
    par = pm.get(id(g))
    while par is not None and par.get('k') in ('AddrOf', 'DropTemps', 'Paren'):
        g, par = par, pm.get(id(par))
    if par is None:
        return False
    if par.get('k') == 'Try':
        return lexically_precedes_dominating(fn, g, site)
    if par.get('k') == 'MCall' and par.get('recv') is g and par.get('m') in ('is_none', 'is_some') and not par['args']:
        test, neg = par, par['m'] == 'is_none'
        up = pm.get(id(test))
        while up is not None and up.get('k') == 'Unary' and up.get('op') == 'Not':
            neg = not neg
            test, up = up, pm.get(id(up))
        if up is not None and up.get('k') == 'If' and up.get('c') is test:
            some_branch = up.get('els') if neg else up['then']
            none_branch = up['then'] if neg else up.get('els')
            if some_branch is not None and any(x is site for x in walk(some_branch)):
                return True
            if none_branch is not None and diverges_always(none_branch):
                return lexically_precedes_dominating(fn, g, site)
        return False
    if par.get('k') == 'LetCond' and par.get('e') is g:
        iff = pm.get(id(par))
        pat = par['pat']
        if iff is not None and iff.get('k') == 'If' and pat.get('k') == 'PTS' and (pat.get('def') or '').endswith('Option::Some'):
            return any(x is site for x in walk(iff['then']))
        return False
    if par.get('k') == 'Let' and par.get('init') is g and par.get('els') is not None:
        pat = par['pat']
        if pat.get('k') == 'PTS' and (pat.get('def') or '').endswith('Option::Some') and diverges_always(par['els']):
            return lexically_precedes_dominating(fn, g, site)
        return False
    if par.get('k') == 'Match' and par.get('e') is g:
        somes = [a for a in par['arms'] if a['pat'].get('k') == 'PTS' and (a['pat'].get('def') or '').endswith('Option::Some')]
        others = [a for a in par['arms'] if a not in somes]
        if any(any(x is site for x in walk(a['body'])) for a in somes):
            return True
        if others and all(diverges_always(a['body']) for a in others):
            return lexically_precedes_dominating(fn, g, site)
    return False


def selects_by_negated(fn, n):
    """n is a call of a boolean predicate on an item. Returns 'filter' if the items for which it holds are left out by
    `.filter(|p| !p.pred())`, 'continue' if by `if p.pred() { continue; }` as the first statement of the loop over the items
    (the two spellings of one selection), else None."""
    pm = parents(fn)
    par = pm.get(id(n))
    if par is not None and par.get('k') == 'Unary' and par.get('op') == 'Not':
        if any(a.get('k') == 'MCall' and a.get('m') == 'filter' for a in ancestors(fn, n)):
            return 'filter'
        return None
    if par is not None and par.get('k') == 'If' and par.get('c') is n and 'els' not in par and diverges_always(par['then']) and \
            all(x.get('k') != 'Ret' and x.get('k') != 'Break' for x in walk(par['then'])):
        up = pm.get(id(par))
        while up is not None and up.get('k') in ('Semi', 'Expr'):
            par, up = up, pm.get(id(up))
        if up is not None and up.get('k') == 'Block':
            first = (up.get('stmts') or [up.get('e')])[0]
            lp = pm.get(id(up))
            if first is par and lp is not None and lp.get('k') == 'For' and lp.get('body') is up:
                return 'continue'
    return None
