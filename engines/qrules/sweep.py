"""Mutant (sensitivity) and quiet (benign-edit) sweeps: apply one textual edit to a scratch copy of the
current /repo tree (outside /repo and /verif), re-extract facts, re-run one property's rules.

This is how the thorough tier shows that every rule is alive on today's tree (fires on a broken variant,
naming the site) and silent on behaviour-preserving edits.  The edits are textual, but only *applied* to
the scratch copy; the rules themselves never match text."""
import json
import os
import shutil
import subprocess
import sys
import tempfile
import importlib
import io
import contextlib
from concurrent.futures import ThreadPoolExecutor, ProcessPoolExecutor

import core
import facts as factsmod


def make_scratch(repo):
    d = tempfile.mkdtemp(prefix='qverif_scratch_', dir='/tmp')
    dst = os.path.join(d, 'repo')
    shutil.copytree(repo, dst, ignore=shutil.ignore_patterns('target', '.git', 'node_modules'), symlinks=True)
    return d, dst


def apply_edit(root, edit):
    """edit: {file, old, new, count?}. Returns True if applied, False if the anchor text is absent."""
    p = os.path.join(root, edit['file'])
    try:
        with open(p) as fh:
            s = fh.read()
    except OSError:
        return False
    if edit['old'] not in s:
        return False
    if edit.get('all'):
        s = s.replace(edit['old'], edit['new'])
    else:
        s = s.replace(edit['old'], edit['new'], 1)
    with open(p, 'w') as fh:
        fh.write(s)
    return True


SWEEP_CACHE = os.environ.get('VERIF_SWEEP_CACHE', '/tmp/qverif_sweepcache')
SWEEP_CACHE_KEEP = int(os.environ.get('VERIF_SWEEP_CACHE_KEEP', '160'))


def facts_for(repo_dir):
    """facts directory for a scratch tree, shared between properties through a scratch cache keyed by the source hash
    (the quiet corpus is the same for every property). The cache lives under /tmp and is only an accelerator."""
    key = core.source_hash(repo_dir)
    out = os.path.join(SWEEP_CACHE, key)
    if os.path.exists(os.path.join(out, 'OK')):
        try:
            os.utime(out, None)
        except OSError:
            pass
        return out
    os.makedirs(SWEEP_CACHE, exist_ok=True)
    tmp = tempfile.mkdtemp(prefix='x_', dir=SWEEP_CACHE)
    r = subprocess.run([os.path.join(core.VERIF, 'engines', 'extract.sh'), repo_dir, tmp], stdout=subprocess.PIPE, stderr=subprocess.PIPE, text=True)
    if r.returncode != 0:
        shutil.rmtree(tmp, ignore_errors=True)
        return None
    with open(os.path.join(tmp, 'OK'), 'w') as fh:
        fh.write('ok')
    try:
        os.rename(tmp, out)
    except OSError:
        shutil.rmtree(tmp, ignore_errors=True)   # another worker was faster
    core._prune_cache(SWEEP_CACHE, keep=SWEEP_CACHE_KEEP)
    return out if os.path.exists(os.path.join(out, 'OK')) else None


def run_rules_on(prop, repo_dir):
    """Extract facts for repo_dir and run prop's rules; returns (status, failing obligations, compile_ok)."""
    out = facts_for(repo_dir)
    if out is None:
        return 'does-not-compile', [], False
    try:
        F = factsmod.Facts(out)
    except (FileNotFoundError, ValueError):
        # the cache entry was pruned by a concurrent run between the lookup and the load: extract again
        shutil.rmtree(out, ignore_errors=True)
        out = facts_for(repo_dir)
        if out is None:
            return 'does-not-compile', [], False
        F = factsmod.Facts(out)
    mod = importlib.import_module('rules.' + prop.lower())
    ck = core.Check(prop, 'thorough', F, level=getattr(mod, 'LEVEL', 'other'))
    try:
        mod.run(ck)
    except Exception as e:  # noqa
        ck.ob('internal', 'checker-exception', False, '', repr(e))
    bad = [o for o in ck.obligations if not o['ok'] and ck._known(o['rule'], o['key']) is None]
    for f in ck.floors:
        if not f['ok']:
            bad.append({'rule': f['rule'], 'key': 'anchor-lost', 'loc': '', 'detail': 'floor %s: %d < %d' % (f['what'], f['count'], f['minimum'])})
    return ('fires' if bad else 'silent'), bad, True


def run_one_edit(prop, edits, repo=None):
    repo = repo or core.REPO
    d, dst = make_scratch(repo)
    try:
        if isinstance(edits, dict):
            edits = [edits]
        for e in edits:
            if not apply_edit(dst, e):
                return 'not-applicable', []
        status, bad, _ = run_rules_on(prop, dst)
        return status, bad
    finally:
        shutil.rmtree(d, ignore_errors=True)


def load_corpus(kind, prop):
    p = os.path.join(core.VERIF, kind, prop + '.json')
    if not os.path.exists(p):
        return []
    with open(p) as fh:
        return json.load(fh)


def _edit_job(job):
    prop, edits = job
    st, bad = run_one_edit(prop, edits)
    return st, [{k: v for k, v in b.items() if isinstance(v, (str, int, float, bool, type(None)))} for b in bad]


def _patch_job(job):
    """apply a kept seeded change (a unified diff) to a scratch copy and run prop's rules on it"""
    prop, patch = job
    sd, dst = make_scratch(core.REPO)
    try:
        r = subprocess.run(['patch', '-p1', '-s', '-i', patch], cwd=dst, stdout=subprocess.PIPE, stderr=subprocess.PIPE)
        if r.returncode != 0:
            return 'not-applicable', []
        st, bad, _ = run_rules_on(prop, dst)
        return st, sorted(set('%s:%s' % (b['rule'], b['key']) for b in bad))[:6]
    finally:
        shutil.rmtree(sd, ignore_errors=True)


def run_patches(prop, patches, workers=4):
    with ProcessPoolExecutor(max_workers=workers) as ex:
        return list(ex.map(_patch_job, [(prop, p) for p in patches]))


def sweep(ck_prop, workers=4):
    """Runs mutants/<prop>.json (must fire, naming expect_rule) and quiet/<prop>.json + quiet/ALL.json (must stay silent).
    Returns dict with results and a list of failures."""
    muts = load_corpus('mutants', ck_prop)
    quiet = load_corpus('quiet', ck_prop) + load_corpus('quiet', 'ALL')
    results = {'mutants': [], 'quiet': []}
    failures = []

    # one process per edit: the rules are pure Python and would serialise on the interpreter lock in threads
    with ProcessPoolExecutor(max_workers=workers) as ex:
        mres = list(ex.map(_edit_job, [(ck_prop, m['edits']) for m in muts]))
        qres = list(ex.map(_edit_job, [(ck_prop, q['edits']) for q in quiet]))
    if True:
        for m, (st, bad) in zip(muts, mres):
            named = any(b['rule'] == m.get('expect_rule') or not m.get('expect_rule') for b in bad)
            rec = {'id': m['id'], 'status': st, 'expect_rule': m.get('expect_rule'),
                   'fired': sorted(set('%s:%s' % (b['rule'], b['key']) for b in bad))[:6]}
            results['mutants'].append(rec)
            if st == 'silent' or (st == 'fires' and not named):
                failures.append('mutant %s: expected rule %s to fire, got %s %s' % (m['id'], m.get('expect_rule'), st, rec['fired']))
        for q, (st, bad) in zip(quiet, qres):
            rec = {'id': q['id'], 'status': st, 'fired': sorted(set('%s:%s' % (b['rule'], b['key']) for b in bad))[:6]}
            results['quiet'].append(rec)
            if st == 'fires' and ck_prop in (q.get('review_needed_by') or {}):
                rec['status'] = 'fires-as-intended'
                rec['why'] = q['review_needed_by'][ck_prop]
            elif st == 'fires':
                failures.append('quiet edit %s: rules fired on a behaviour-preserving edit: %s' % (q['id'], rec['fired']))
    return results, failures


if __name__ == '__main__':
    # ad-hoc: python3 sweep.py C14 file old new
    prop, f, old, new = sys.argv[1:5]
    st, bad = run_one_edit(prop, {'file': f, 'old': old, 'new': new})
    print(st)
    for b in bad:
        print('  ', b['rule'], b['key'], b.get('loc'), b['detail'][:200])
