"""Mutant (sensitivity) and quiet (benign-edit) sweeps: apply one textual edit to a scratch copy of the
current /repo tree (outside /repo and /verif), re-extract facts, re-run one property's rules.

This is how the thorough tier shows that every rule is alive on today's tree (fires on a broken variant,
naming the site) and silent on behaviour-preserving edits.  The edits are textual, but only *applied* to
the scratch copy; the rules themselves never match text."""
import json
import os
import shutil
import subprocess
import sys
import tempfile
import importlib
import io
import contextlib
from concurrent.futures import ThreadPoolExecutor

import core
import facts as factsmod


def make_scratch(repo):
    d = tempfile.mkdtemp(prefix='qverif_scratch_', dir='/tmp')
    dst = os.path.join(d, 'repo')
    shutil.copytree(repo, dst, ignore=shutil.ignore_patterns('target', '.git', 'node_modules'), symlinks=True)
    return d, dst


def apply_edit(root, edit):
    """edit: {file, old, new, count?}. Returns True if applied, False if the anchor text is absent."""
    p = os.path.join(root, edit['file'])
    try:
        with open(p) as fh:
            s = fh.read()
    except OSError:
        return False
    if edit['old'] not in s:
        return False
    if edit.get('all'):
        s = s.replace(edit['old'], edit['new'])
    else:
        s = s.replace(edit['old'], edit['new'], 1)
    with open(p, 'w') as fh:
        fh.write(s)
    return True


def run_rules_on(prop, repo_dir):
    """Extract facts for repo_dir and run prop's rules; returns (status, failing obligations, compile_ok)."""
    out = tempfile.mkdtemp(prefix='qverif_facts_', dir='/tmp')
    try:
        cmd = [os.path.join(core.VERIF, 'engines', 'extract.sh'), repo_dir, out]
        r = subprocess.run(cmd, stdout=subprocess.PIPE, stderr=subprocess.PIPE, text=True)
        if r.returncode != 0:
            return 'does-not-compile', [], False
        F = factsmod.Facts(out)
        mod = importlib.import_module('rules.' + prop.lower())
        ck = core.Check(prop, 'thorough', F, level=getattr(mod, 'LEVEL', 'other'))
        try:
            mod.run(ck)
        except Exception as e:  # noqa
            ck.ob('internal', 'checker-exception', False, '', repr(e))
        bad = [o for o in ck.obligations if not o['ok'] and ck._known(o['rule'], o['key']) is None]
        for f in ck.floors:
            if not f['ok']:
                bad.append({'rule': f['rule'], 'key': 'anchor-lost', 'loc': '', 'detail': 'floor %s: %d < %d' % (f['what'], f['count'], f['minimum'])})
        return ('fires' if bad else 'silent'), bad, True
    finally:
        shutil.rmtree(out, ignore_errors=True)


def run_one_edit(prop, edits, repo=None):
    repo = repo or core.REPO
    d, dst = make_scratch(repo)
    try:
        if isinstance(edits, dict):
            edits = [edits]
        for e in edits:
            if not apply_edit(dst, e):
                return 'not-applicable', []
        status, bad, _ = run_rules_on(prop, dst)
        return status, bad
    finally:
        shutil.rmtree(d, ignore_errors=True)


def load_corpus(kind, prop):
    p = os.path.join(core.VERIF, kind, prop + '.json')
    if not os.path.exists(p):
        return []
    with open(p) as fh:
        return json.load(fh)


def sweep(ck_prop, workers=4):
    """Runs mutants/<prop>.json (must fire, naming expect_rule) and quiet/<prop>.json + quiet/ALL.json (must stay silent).
    Returns dict with results and a list of failures."""
    muts = load_corpus('mutants', ck_prop)
    quiet = load_corpus('quiet', ck_prop) + load_corpus('quiet', 'ALL')
    results = {'mutants': [], 'quiet': []}
    failures = []

    def do_mut(m):
        st, bad = run_one_edit(ck_prop, m['edits'])
        named = any(b['rule'] == m.get('expect_rule') or not m.get('expect_rule') for b in bad)
        return m, st, bad, named

    def do_quiet(q):
        st, bad = run_one_edit(ck_prop, q['edits'])
        return q, st, bad

    with ThreadPoolExecutor(max_workers=workers) as ex:
        for m, st, bad, named in ex.map(do_mut, muts):
            rec = {'id': m['id'], 'status': st, 'expect_rule': m.get('expect_rule'),
                   'fired': sorted(set('%s:%s' % (b['rule'], b['key']) for b in bad))[:6]}
            results['mutants'].append(rec)
            if st == 'silent' or (st == 'fires' and not named):
                failures.append('mutant %s: expected rule %s to fire, got %s %s' % (m['id'], m.get('expect_rule'), st, rec['fired']))
        for q, st, bad in ex.map(do_quiet, quiet):
            rec = {'id': q['id'], 'status': st, 'fired': sorted(set('%s:%s' % (b['rule'], b['key']) for b in bad))[:6]}
            results['quiet'].append(rec)
            if st == 'fires':
                failures.append('quiet edit %s: rules fired on a behaviour-preserving edit: %s' % (q['id'], rec['fired']))
    return results, failures


if __name__ == '__main__':
    # ad-hoc: python3 sweep.py C14 file old new
    prop, f, old, new = sys.argv[1:5]
    st, bad = run_one_edit(prop, {'file': f, 'old': old, 'new': new})
    print(st)
    for b in bad:
        print('  ', b['rule'], b['key'], b.get('loc'), b['detail'][:200])
