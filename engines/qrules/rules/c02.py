"""C02: dynamic bindings stay current when any property they read changes."""
import re
from facts import walk, short, pp
import hirutil as H
import labelflow as LF
import core

LEVEL = 'other'
TECHNIQUE = ('effect/exhaustiveness analysis of the property-dependency scan (every non-constant pointer-property read ends in a static '
             'dependency, an observe statement or an error diagnostic), must-reset typestate of its alias table, positional agreement '
             'between collected and inserted observe statements, writer/reader agreement between the recorded dependencies and the '
             'connect/observe code the header generator prints, universal (all-children) constness of maps; over typed HIR')
LEVEL_TEXT = ('That the target equals the expression after every history of changes is a property of executions of the generated C++ and '
              'is not decided. Decided are the structural necessary conditions on the generator: no property read can escape the '
              'dependency scan (all blocks, all statements, all outcomes of the notify lookup handled; reads skipped only for value-type '
              'receivers and CONSTANT properties); a local is treated as a fixed named object only while the alias table proves it '
              '(per-block table, reset on every assignment that is not a copy of a named object); each unknown receiver gets an observe '
              'statement inserted immediately before its read, with its own observer slot; every recorded dependency is connected to the '
              'update function in setup, every observe statement reconnects through the same update function; setup() runs every update '
              'after connecting; a map is constant only if all of its children are; a property without NOTIFY yields an error.')
LEVEL_NOTE = ('Not decided: behaviour of the generated C++ under signal histories; that the chosen NOTIFY overload is the one Qt emits; '
              'glitch-freedom/order of updates. Shared obligations: C03 R3.7 (constant evaluator conservative), C14 R14.4 (selection by '
              'the same predicate), C16 R16.5 (per-binding loops unfiltered).')
DESIGN_REF = 'DESIGN.md section 4, C02'


def slot_path(pat, hid, path=()):
    k = pat.get('k')
    if k == 'Bind':
        if pat.get('hid') == hid:
            return path
        return slot_path(pat['sub'], hid, path) if 'sub' in pat else None
    if k in ('PRef', 'PDeref'):
        return slot_path(pat['p'], hid, path)
    if k in ('PTup', 'PTS'):
        for i, s in enumerate(pat.get('subs', [])):
            r = slot_path(s, hid, path + (i,))
            if r is not None:
                return r
    if k == 'POr':
        for a in pat['alts']:
            r = slot_path(a, hid, path)
            if r is not None:
                return r
    return None


def pat_variants(pat):
    out = []
    alts = pat['alts'] if pat.get('k') == 'POr' else [pat]
    for p in alts:
        while p.get('k') in ('PRef', 'PDeref'):
            p = p['p']
        if p.get('k') in ('Wild', 'Bind'):
            out.append('_')
        else:
            out.append((p.get('def') or '?').split('::')[-1])
    return out


def conjuncts(e):
    e = H.strip_refs(e)
    if e.get('k') == 'Binary' and e.get('op') == 'And':
        return conjuncts(e['l']) + conjuncts(e['r'])
    return [e]


def run(ck):
    if getattr(ck, 'depth', 0) >= 2:
        return      # a shared run of a shared run: nothing of it is selected, and mutual sharing must end somewhere
    F = ck.facts
    L = F.lib
    ck.explanation = (
        'R2.1 scan completeness: analyze_code_property_dependency visits every block, analyze_block every statement; both rvalue-carrying '
        'statement kinds are inspected; the ReadProperty arm is guarded only by "receiver is a pointer" and "property is not CONSTANT"; all '
        'three outcomes of the notify lookup are handled; each receiver kind records (object, signal) or an observe request; every Rvalue '
        'variant that carries a Property is classified. R2.2 alias table: created per block with all entries unknown; every Assign '
        'overwrites the entry of its target unconditionally; an entry becomes known only by copying a named object or a known local; the '
        'update follows the inspection. R2.3 observe statements: one observer slot per request; inserted at the recorded statement index '
        'in reverse order; (slot, local, signal) keep their positions. R2.4 the scan runs on every expression body before it is stored. '
        'R2.5 constness: Expr is constant only if evaluated to a value; maps only if all children are; evaluator conservative (C03); '
        'selection consistent (C14). R2.6 code generation: all static dependencies become (sender, signal) pairs, each connected to the '
        'update function in setup; gadget maps forward all sub-bindings\' pairs; observe statements print reconnect code over their own '
        'slot, local and signal, through `update`; setup() calls every update after the connects; update writes eval() to the property. '
        'R2.7 no NOTIFY: error diagnostic; notify candidates are signals of the property\'s class with no or a value-typed first argument.')
    for rid, text in (('R2.1', 'no non-constant property read escapes the dependency scan'),
                      ('R2.2', 'a local is taken for a named object only while the alias table proves it'),
                      ('R2.3', 'observe statements sit before their read and own one observer slot each'),
                      ('R2.4', 'every binding body is scanned before use'),
                      ('R2.5', 'only fully constant bindings are treated as constants'),
                      ('R2.6', 'recorded dependencies and observers are all connected to the update function'),
                      ('R2.7', 'unobservable reads are rejected; NOTIFY lookup picks a signal of the property')):
        ck.rule(rid, text)

    ab = L.fn('tir::propdep::analyze_block')
    ac = L.fn('tir::propdep::analyze_code_property_dependency')
    if ab is None or ac is None:
        ck.floor('R2.1', 0, 2, 'fns analyze_block / analyze_code_property_dependency')
        return
    ck.analysed(ab['path'])
    ck.analysed(ac['path'])
    bs = H.binding_sites(ab)

    # all blocks
    lp = next((n for n in walk(ac['body']) if n.get('k') == 'For'), None)
    call = next((c for c in H.calls_in(lp['body']) if H.is_call_to(c, 'propdep::analyze_block')), None) if lp else None
    it = pp(lp['iter'], maxlen=120) if lp else ''
    ok = call is not None and re.search(r'0\s*\.\.\s*code\.basic_blocks\.len\(\)|Range\s*\{\s*start:\s*0,\s*end:\s*code\.basic_blocks\.len\(\)', it) is not None and \
        not any(x.get('k') in ('Break', 'Continue', 'Ret', 'If') for x in walk(lp['body']))
    if call is not None and ok:
        ib = H.binding_sites(ac).get((H.root_local(call['args'][1]) or {}).get('hid'))
        ok = ib is not None and ib['kind'] == 'for'
    ck.ob('R2.1', 'all-blocks-scanned', ok, L.loc(lp) if lp else L.loc(ac['body']), 'for i in %s: analyze_block(code, i, ..)' % it)

    loops = [n for n in walk(ab['body']) if n.get('k') == 'For']
    scan = next((n for n in loops if 'statements' in pp(n['iter'], maxlen=120) and 'enumerate' in pp(n['iter'], maxlen=120)), None)
    if scan is None:
        ck.floor('R2.1', 0, 1, 'statement loop of analyze_block')
        return
    filt = [m['m'] for m in walk(scan['iter']) if m.get('k') == 'MCall' and m.get('m') in LF.FILTERS]
    early = [x['k'] for x in walk(scan['body']) if x.get('k') in ('Break', 'Continue', 'Ret')]
    ck.ob('R2.1', 'all-statements-scanned', not filt and not early, L.loc(scan), 'for (line, stmt) in block.statements.iter().enumerate(), no filter, no early exit' if not filt and not early else 'the scan can skip statements (%s)' % (filt + early))
    line_bind = next((b for b in H.pat_bindings(scan['pat']) if slot_path(scan['pat'], b['hid']) == (0,)), None)
    stmt_bind = next((b for b in H.pat_bindings(scan['pat']) if slot_path(scan['pat'], b['hid']) == (1,)), None)
    top = [s.get('e', s) for s in scan['body'].get('stmts', [])] + ([scan['body']['e']] if 'e' in scan['body'] else [])
    def on_stmt(t):
        if stmt_bind is None:
            return False
        if t.get('k') == 'Match':
            return (H.root_local(t['e']) or {}).get('hid') == stmt_bind['hid']
        if t.get('k') == 'If' and t['c'].get('k') == 'LetCond':
            return (H.root_local(t['c']['e']) or {}).get('hid') == stmt_bind['hid']
        return False
    top = [t for t in top if on_stmt(t)]
    ck.ob('R2.1', 'inspect-then-update', len(top) == 2 and top[0].get('k') == 'Match', L.loc(scan['body']), '%d top-level dispatches on the statement in the loop body (inspection, then alias update)' % len(top))
    if len(top) != 2 or top[0].get('k') != 'Match':
        return
    insp, upd = top

    # --- inspection tree
    arm_rv = next((a for a in insp['arms'] if set(pat_variants(a['pat'])) == {'Assign', 'Exec'}), None)
    ck.ob('R2.1', 'assign-and-exec-inspected', arm_rv is not None, L.loc(insp), 'statement kinds carrying an rvalue: %s' % [pat_variants(a['pat']) for a in insp['arms']])
    others = [a for a in insp['arms'] if a is not arm_rv]
    ck.ob('R2.1', 'only-observe-statements-ignored', all(set(pat_variants(a['pat'])) == {'ObserveProperty'} for a in others), L.loc(insp),
          'statement kinds not inspected: %s' % [pat_variants(a['pat']) for a in others])
    rvm = next((n for n in walk(arm_rv['body']) if n.get('k') == 'Match'), None) if arm_rv else None
    rp = next((a for a in (rvm['arms'] if rvm else []) if pat_variants(a['pat']) == ['ReadProperty']), None)
    if rp is None:
        ck.ob('R2.1', 'read-property-arm', False, L.loc(insp), 'no arm for Rvalue::ReadProperty')
        return
    rb = {slot_path(rp['pat'], b['hid']): b for b in H.pat_bindings(rp['pat'])}
    recv_b, prop_b = rb.get((0,)), rb.get((1,))
    g = [pp(c, maxlen=80) for c in conjuncts(rp['guard'])] if 'guard' in rp else []
    okg = True
    seen = set()
    for c in (conjuncts(rp['guard']) if 'guard' in rp else []):
        neg = c.get('k') == 'Unary' and c.get('op') == 'Not'
        inner = H.strip_refs(c['e']) if neg else c
        m = inner.get('m') if inner.get('k') == 'MCall' else None
        root = (H.root_local(inner) or {}).get('hid')
        if m == 'is_pointer' and not neg and recv_b is not None and root == recv_b['hid']:
            seen.add('pointer')
        elif m == 'is_constant' and neg and prop_b is not None and root == prop_b['hid']:
            seen.add('non-constant')
        else:
            okg = False
    ck.ob('R2.1', 'read-skipped-only-if-value-receiver-or-constant', okg and seen <= {'pointer', 'non-constant'}, L.loc(rp),
          'guard: %s' % (g or 'none') if okg else 'the ReadProperty arm is guarded by %s: reads failing an extra condition are silently left unobserved' % g)
    # Rvalue variants carrying a Property
    rv_adt = L.adts.get('tir::core::Rvalue') or {}
    with_prop = sorted(v['name'] for v in rv_adt.get('variants', []) if any('Property<' in (f.get('ty') or '') for f in v.get('fields', [])))
    ck.ob('R2.1', 'property-carrying-rvalues', with_prop == ['ReadProperty', 'WriteProperty'], '', 'Rvalue variants with a Property payload: %s (ReadProperty is scanned; WriteProperty is a store, not a read)' % with_prop)
    nm = next((n for n in walk(rp['body']) if n.get('k') == 'Match' and any(c.get('m') == 'notify_signal' for c in H.calls_in(n['e']))), None)
    if nm is None:
        ck.ob('R2.1', 'notify-lookup', False, L.loc(rp), 'no match on prop.notify_signal()')
        return
    ok = prop_b is not None and (H.root_local(nm['e']) or {}).get('hid') == prop_b['hid']
    ck.ob('R2.1', 'notify-lookup', ok, L.loc(nm), 'looks up the NOTIFY signal of the property being read')
    arms = [(pp(a['pat'], maxlen=40), a) for a in nm['arms']]
    some = next((a for p, a in arms if re.match(r'^Ok\(Some\(\w+\)\)$', p) and 'guard' not in a), None)
    nones = [a for p, a in arms if p in ('Ok(None)', 'Ok(_)', '_')]
    errs_ = [a for p, a in arms if p.startswith('Err(') or p == '_']
    guarded = [p for p, a in arms if 'guard' in a]
    ck.ob('R2.1', 'notify-outcomes-exhaustive', some is not None and bool(nones) and bool(errs_) and len(arms) == 3 and not guarded, L.loc(nm),
          'arms: %s' % [p for p, a in arms] if not guarded else 'arms %s: a guarded arm splits an outcome of the notify lookup; every part must still be handled' % [p + (' if ..' if 'guard' in a else '') for p, a in arms])
    for name, group in (('no-notify', nones), ('lookup-error', errs_)):
        for i, arm in enumerate(group or [None]):
            push = [c for c in H.calls_in(arm['body']) if c.get('m') == 'push' and 'Diagnostics' in (L.ty(c['recv'], adjusted=True) or L.ty(c['recv']) or '')] if arm else []
            iserr = bool(push) and H.is_call_to(push[0]['args'][0], 'Diagnostic::error')
            ck.ob('R2.7', '%s-is-an-error%s' % (name, '#%d' % (i + 1) if i else ''), iserr, L.loc(arm) if arm else L.loc(nm),
                  'pushes Diagnostic::error(..)' if iserr else 'no error diagnostic on this outcome%s: the binding would be generated stale' % (' (arm guarded by `%s`)' % pp(arm['guard'], maxlen=60) if arm and 'guard' in arm else ''), fn=ab['path'])
    n_leaf = 0
    if some is not None:
        sig_b = H.pat_bindings(some['pat'])[0]
        om = next((n for n in walk(some['body']) if n.get('k') == 'Match' and recv_b is not None and (H.root_local(n['e']) or {}).get('hid') == recv_b['hid']), None)
        if om is None:
            ck.ob('R2.1', 'receiver-kinds', False, L.loc(some), 'no match on the receiver operand')
        else:
            kinds = {}
            for a in om['arms']:
                for v in pat_variants(a['pat']):
                    kinds[v] = a
            ck.ob('R2.1', 'receiver-kinds', '_' not in kinds and {'NamedObject', 'Local'} <= set(kinds), L.loc(om), 'receiver kinds: %s (no wildcard)' % sorted(kinds))

            def record_calls(root):
                out = []
                for c in H.calls_in(root):
                    if c.get('m') == 'push' and c['args'] and H.strip_refs(c['args'][0]).get('k') == 'Tup':
                        tgt = pp(c['recv'], maxlen=60)
                        out.append((c, 'static' if 'static_property_deps' in tgt else 'observe' if (H.root_local(c['recv']) or {}).get('name') else '?', H.strip_refs(c['args'][0])))
                return out
            # NamedObject
            a = kinds.get('NamedObject')
            if a is not None:
                xb = H.pat_bindings(a['pat'])[0]
                rc = record_calls(a['body'])
                ok = len(rc) == 1 and rc[0][1] == 'static' and len(rc[0][2]['es']) == 2 and (H.root_local(rc[0][2]['es'][0]) or {}).get('hid') == xb['hid'] and \
                    (H.root_local(rc[0][2]['es'][1]) or {}).get('hid') == sig_b['hid'] and not [x for x in H.ancestors(ab, rc[0][0]) if x.get('k') == 'If' and any(y is x for y in walk(a['body']))]
                n_leaf += 1
                ck.ob('R2.1', 'leaf|NamedObject', ok, L.loc(a), 'records (this object, its NOTIFY signal) as a static dependency, unconditionally', fn=ab['path'])
            a = kinds.get('Local')
            if a is not None:
                xb = H.pat_bindings(a['pat'])[0]
                iff = next((n for n in walk(a['body']) if n.get('k') == 'If'), None)
                ok = False
                why = 'no alias lookup'
                if iff is not None and iff['c'].get('k') == 'LetCond' and 'els' in iff:
                    idx = H.strip_refs(iff['c']['e'])
                    tab = H.root_local(idx['e']) if idx.get('k') == 'Index' else None
                    idx_ok = idx.get('k') == 'Index' and (H.root_local(idx['i']) or {}).get('hid') == xb['hid']
                    nb = H.pat_bindings(iff['c']['pat'])
                    t = record_calls(iff['then'])
                    e = record_calls(iff['els'])
                    ok = idx_ok and len(t) == 1 and len(e) == 1 and t[0][1] == 'static' and e[0][1] == 'observe' and \
                        (H.root_local(t[0][2]['es'][0]) or {}).get('hid') == nb[0]['hid'] and (H.root_local(t[0][2]['es'][1]) or {}).get('hid') == sig_b['hid'] and \
                        len(e[0][2]['es']) == 3 and (H.root_local(e[0][2]['es'][0]) or {}).get('hid') == (line_bind or {}).get('hid') and \
                        (H.root_local(e[0][2]['es'][1]) or {}).get('hid') == xb['hid'] and (H.root_local(e[0][2]['es'][2]) or {}).get('hid') == sig_b['hid']
                    why = 'known alias => static dependency on the aliased object; unknown => observe request (statement index, this local, signal)'
                    ck.note('alias table: %s' % ((tab or {}).get('name')))
                n_leaf += 1
                ck.ob('R2.1', 'leaf|Local', ok, L.loc(a), why, fn=ab['path'])
            for v, a in kinds.items():
                if v in ('NamedObject', 'Local', '_'):
                    continue
                pan = any(x.get('x') in ('panic', 'unreachable') or H.is_call_to(x, 'panic_fmt', 'panicking::panic') for x in walk(a['body']))
                n_leaf += 1
                ck.ob('R2.1', 'leaf|%s' % v, pan, L.loc(a), 'a non-object receiver cannot have a pointer type: panics rather than dropping the read (reachability: C07)', nontrivial=False)
    ck.floor('R2.1', n_leaf, 3, 'receiver-kind leaves')

    # ---- R2.2 alias table ----------------------------------------------------------------------------------------------
    # the region executed for `Statement::Assign(l, r)`: a match arm, or the then-branch of `if let Assign(l, r) = stmt`
    if upd.get('k') == 'Match':
        asg_arm = next((a for a in upd['arms'] if pat_variants(a['pat']) == ['Assign']), None)
        region, apat = (asg_arm['body'], asg_arm['pat']) if asg_arm is not None else (None, None)
    else:
        apat = upd['c']['pat']
        region = upd['then'] if pat_variants(apat) == ['Assign'] else None
    if region is None:
        ck.ob('R2.2', 'assign-arm', False, L.loc(upd), 'no region handling Statement::Assign in the alias update')
    else:
        ab_b = {slot_path(apat, b['hid']): b for b in H.pat_bindings(apat)}
        lb = ab_b.get((0,))

        def is_table_write(n):
            return n.get('k') == 'Assign' and n['l'].get('k') == 'Index' and lb is not None and (H.root_local(n['l']['i']) or {}).get('hid') == lb['hid']

        def paths(e, ctx):
            """[(ctx, [writes])] for every path through e; ctx = list of (variants, arm/if node, extra bindings)."""
            k = e.get('k')
            if is_table_write(e):
                return [(ctx, [e])]
            if k == 'Block':
                acc = [(ctx, [])]
                seq = [st.get('e') or st.get('init') or st for st in e.get('stmts', [])] + ([e['e']] if 'e' in e else [])
                for part in seq:
                    nxt = []
                    for c0, w0 in acc:
                        for c1, w1 in paths(part, c0):
                            nxt.append((c1, w0 + w1))
                    acc = nxt[:64]
                return acc
            if k == 'Match':
                out = []
                for a in e['arms']:
                    out += paths(a['body'], ctx + [(pat_variants(a['pat']) + nested_variants(a['pat']), a)])
                return out
            if k == 'If':
                extra = [('if-let', e)] if e['c'].get('k') == 'LetCond' else [('if', e)]
                out = paths(e['then'], ctx + [(['then'], e)])
                out += paths(e['els'], ctx + [(['else'], e)]) if 'els' in e else [(ctx + [(['else'], e)], [])]
                return out
            if k in ('Semi', 'Expr'):
                return paths(e['e'], ctx)
            return [(ctx, [])]

        def nested_variants(pat):
            out = []
            for x in walk(pat):
                if x.get('k') in ('PTS', 'PPath', 'PStruct') and x is not pat:
                    out.append((x.get('def') or '?').split('::')[-1])
            return out
        ps = paths(region, [])
        missing = [c for c, w in ps if not w]
        multi = [c for c, w in ps if len(w) > 1]
        allw = [w0 for c, w in ps for w0 in w]
        ck.ob('R2.2', 'every-assign-overwrites-its-target', bool(ps) and not missing and bool(allw), L.loc(allw[0]) if allw else L.loc(region),
              'locals[target] is written on each of the %d paths through the Assign handling' % len(ps) if not missing and allw else
              'the alias entry of the assigned local is not overwritten on every Assign (path %s writes nothing): a stale "this local is object X" survives a re-assignment and the re-pointed object is never observed' %
              ([v for c in (missing[0] if missing else []) for v in c[0]],), fn=ab['path'])
        if allw:
            table = H.root_local(allw[0]['l']['e'])
            tb = bs.get((table or {}).get('hid'))
            ok = tb is not None and tb['kind'] == 'let' and 'None' in pp(tb['node']['init'], maxlen=80) and not any(x.get('k') in ('For', 'Loop') for x in H.ancestors(ab, tb['node']))
            ck.ob('R2.2', 'table-per-block-initially-unknown', ok, L.loc(tb['node']) if tb else L.loc(ab['body']), 'created inside analyze_block, all None: locals coming from other blocks are dynamic')
            bad = []
            known = set()
            wild_reset = False
            for ctx, ws in ps:
                for w in ws:
                    leaves = []

                    def collect(e, c2):
                        if e.get('k') == 'Block' and not e.get('stmts') and 'e' in e:
                            return collect(e['e'], c2)
                        if e.get('k') == 'Match':
                            for a in e['arms']:
                                collect(a['body'], c2 + [(pat_variants(a['pat']) + nested_variants(a['pat']), a)])
                            return
                        s2 = H.strip_refs(e)
                        if s2.get('k') == 'Path' and s2.get('res') == 'local':
                            b2 = bs.get(s2.get('hid'))
                            if b2 is not None and b2['kind'] == 'let' and b2['node'].get('init') is not None and b2['bind'].get('mode', '').find('mut') < 0:
                                return collect(b2['node']['init'], c2)
                        leaves.append((c2, e))
                    collect(w['r'], ctx)
                    for c2, e in leaves:
                        sv = H.strip_refs(e)
                        vs = [v for c in c2 for v in c[0]]
                        if sv.get('k') == 'Path' and (sv.get('def') or '').endswith('Option::None'):
                            if '_' in vs:
                                wild_reset = True
                            continue
                        if sv.get('k') == 'Index' and (H.root_local(sv['e']) or {}).get('hid') == (table or {}).get('hid') and 'Copy' in vs and 'Local' in vs:
                            known.add('Copy(Local)')
                            continue
                        if sv.get('k') == 'Call' and (sv.get('def') or '').endswith('Option::Some') and 'Copy' in vs:
                            inner = H.root_local(sv['args'][0])
                            ib = bs.get((inner or {}).get('hid')) or {}
                            if 'NamedObject' in vs and ib.get('kind') in ('arm', 'letcond') and H.strip_refs(sv['args'][0]).get('k') in ('Field', 'AddrOf', 'Path') and 'name' in pp(sv['args'][0]):
                                known.add('Copy(NamedObject)')
                                continue
                            # Some(n) with n taken out of the table entry of the copied local
                            if 'Local' in vs and ib.get('kind') == 'letcond' and H.strip_refs(ib['node']['e']).get('k') == 'Index' and (H.root_local(ib['node']['e']) or {}).get('hid') == (table or {}).get('hid'):
                                known.add('Copy(Local)')
                                continue
                        bad.append('%s => %s' % (vs, pp(e, maxlen=40)))
            ck.ob('R2.2', 'known-only-by-copy-of-object', not bad and known == {'Copy(Local)', 'Copy(NamedObject)'}, L.loc(allw[0]),
                  'known entries: Copy(NamedObject) and Copy(known Local); everything else resets to unknown' if not bad else 'entries become known by %s' % bad, fn=ab['path'])
            ck.ob('R2.2', 'other-rvalues-reset', wild_reset, L.loc(allw[0]), 'the catch-all rvalue arm yields None')
        ck.ob('R2.2', 'update-after-inspection', H.source_before(insp, upd), L.loc(upd), 'the entry is updated after the statement\'s own read was inspected')

    # ---- R2.3 observe insertion ---------------------------------------------------------------------------------------------
    ins = next((c for c in H.calls_in(ab['body']) if c.get('m') == 'insert' and 'statements' in pp(c['recv'])), None)
    if ins is None:
        ck.ob('R2.3', 'observe-inserted', False, L.loc(ab['body']), 'no statements.insert(..) found')
    else:
        ilp = next((a for a in H.ancestors(ab, ins) if a.get('k') == 'For'), None)
        its = [m.get('m') for m in walk(ilp['iter']) if m.get('k') == 'MCall'] if ilp else []
        ok = ilp is not None and 'rev' in its and 'zip' in its and not any(m in LF.FILTERS for m in its)
        ck.ob('R2.3', 'inserted-in-reverse-order', ok, L.loc(ilp) if ilp else L.loc(ins), 'requests are inserted last-first (%s), so earlier statement indices stay valid' % its if ok else
              'observe statements are not inserted in reverse order (%s): each insertion shifts the indices recorded for the later ones, which then land after their read' % its, fn=ab['path'])
        if ilp is not None:
            sp = {b['hid']: slot_path(ilp['pat'], b['hid']) for b in H.pat_bindings(ilp['pat'])}
            st = H.strip_refs(ins['args'][1])
            okp = (st.get('def') or '').endswith('Statement::ObserveProperty') and len(st.get('args', [])) == 3
            if okp:
                got = [sp.get((H.root_local(ins['args'][0]) or {}).get('hid'))] + [sp.get((H.root_local(a) or {}).get('hid')) for a in st['args']]
                okp = got == [(0, 0), (1,), (0, 1), (0, 2)] and H.strip_refs(ins['args'][0]).get('k') == 'Path'
            ck.ob('R2.3', 'request-fields-keep-position', okp, L.loc(ins), 'insert(at = request.0, ObserveProperty(observer, request.1, request.2))')
        rz = next((c for c in H.calls_in(ab['body']) if c.get('m') == 'resize_with'), None)
        ok = rz is not None and re.sub(r'\s', '', pp(rz['args'][0])) .endswith('.len()') and rz['args'][1].get('k') == 'Closure' and any(c.get('m') == 'alloc_property_observer' for c in H.calls_in(rz['args'][1]))
        if ok and ilp is not None:
            req = H.root_local(rz['args'][0])
            src = next((m for m in walk(ilp['iter']) if m.get('k') == 'MCall' and m.get('m') == 'into_iter'), None)
            ok = req is not None and src is not None and (H.root_local(src['recv']) or {}).get('hid') == req['hid']
        ck.ob('R2.3', 'one-observer-per-request', ok, L.loc(rz) if rz else L.loc(ab['body']), 'observers.resize_with(requests.len(), alloc_property_observer): a fresh slot for each request')

    # ---- R2.4 scan runs before the body is stored ----------------------------------------------------------------------------------
    ctors = [(f, n) for f in L.fn_list for n in walk(f['body']) if n.get('k') == 'Call' and n.get('dk') == 'Ctor' and (n.get('def') or '').endswith('PropertyCodeKind::Expr')]
    ck.floor('R2.4', len(ctors), 1, 'constructions of PropertyCodeKind::Expr')
    for f, n in ctors:
        code_arg = n['args'][1]
        r = H.root_local(code_arg)
        calls = [c for c in H.calls_in(f['body']) if H.is_call_to(c, 'analyze_code_property_dependency') and (H.root_local(c['args'][0]) or {}).get('hid') == (r or {}).get('hid')]
        ok = bool(calls) and all(H.lexically_precedes_dominating(f, c, n) for c in calls[:1])
        b = H.binding_sites(f).get((r or {}).get('hid'))
        built = b is not None and b['kind'] == 'let' and any(H.is_call_to(c, 'tir::builder::build', 'tir::build') for c in H.calls_in(b['node']['init']))
        ck.ob('R2.4', 'scanned-before-stored|%s' % short(f['path']), ok and built, L.loc(n), 'code = tir::build(..)?; analyze_code_property_dependency(&mut code, ..); Expr(ty, code)', fn=f['path'])

    # ---- R2.5 constness ---------------------------------------------------------------------------------------------------------------
    ie = L.fn('uigen::objcode::PropertyCode::is_evaluated_constant')
    if ie is None:
        ck.floor('R2.5', 0, 1, 'fn is_evaluated_constant')
    else:
        ck.analysed(ie['path'])
        m = next((n for n in walk(ie['body']) if n.get('k') == 'Match'), None)
        for arm in (m['arms'] if m else []):
            vs = pat_variants(arm['pat'])
            if 'Expr' in vs:
                t = re.sub(r'\s', '', pp(arm['body'], maxlen=200))
                ok = 'evaluated_value.get()' in t and 'is_some()' in t and 'unwrap_or(false)' in t
                ck.ob('R2.5', 'expr-constant-iff-evaluated-to-a-value', ok, L.loc(arm), 'evaluated_value.get().map(is_some).unwrap_or(false): never-evaluated or failed evaluation => dynamic')
            else:
                calls = [c for c in H.calls_in(arm['body']) if c.get('m') in ('all', 'any', 'find', 'position', 'fold', 'count')]
                ok = len(calls) == 1 and calls[0]['m'] == 'all' and any(c.get('m') == 'is_evaluated_constant' for c in H.calls_in(calls[0]['args'][0])) and \
                    not any(c.get('m') in LF.FILTERS for c in H.calls_in(arm['body']))
                ck.ob('R2.5', 'map-constant-iff-all-children|%s' % '+'.join(sorted(vs)), ok, L.loc(arm),
                      'map.values().all(is_evaluated_constant)' if ok else 'a map counts as constant although some child is dynamic (%s): that child gets neither a static value nor a binding' % [c['m'] for c in calls], fn=ie['path'])
    import rules.c03 as c03
    import rules.c14 as c14
    s3 = core.Shared(ck, 'R2.5', lambda r, k: r == 'R3.7', 'C03:')
    c03.run(s3)
    s14 = core.Shared(ck, 'R2.5', lambda r, k: r == 'R14.4', 'C14:')
    c14.run(s14)
    ck.floor('R2.5', s3.count, 5, 'shared C03 R3.7 obligations')
    ck.floor('R2.5', s14.count, 4, 'shared C14 R14.4 obligations')

    # ---- R2.6 code generation -------------------------------------------------------------------------------------------------------------
    bfns = [f for f in L.fn_list if 'uigen::binding' in f['path']]

    def bf(suffix):
        return next((f for f in bfns if f['path'].endswith(suffix)), None)
    eb = bf('CxxEvalExprFunction::build')
    if eb is not None:
        ck.analysed(eb['path'])
        st = next((n for n in walk(eb['body']) if n.get('k') == 'Struct'), None)
        fi = next((f for f in (st or {}).get('fields', []) if f.get('f') == 'sender_signals'), None)
        src = None
        if fi is not None:
            b = H.binding_sites(eb).get((H.root_local(fi['e']) or {}).get('hid'))
            src = b['node']['init'] if b is not None and b['kind'] == 'let' else fi['e']
        ms = [m.get('m') for m in walk(src) if m.get('k') == 'MCall'] if src else []
        ok = src is not None and 'static_property_deps' in pp(src, maxlen=300) and not any(m in LF.FILTERS for m in ms) and 'map' in ms and 'collect' in ms
        clo = next((m['args'][0] for m in walk(src) if m.get('k') == 'MCall' and m.get('m') == 'map'), None) if src else None
        if ok and clo is not None:
            ret = list(H.return_exprs(clo['body'], is_closure=True))
            ok = len(ret) == 1 and ret[0].get('k') == 'Tup' and any(c.get('m') == 'format_named_object_ref' for c in H.calls_in(clo['body'])) and any(H.is_call_to(c, 'format_signal_pointer') for c in H.calls_in(clo['body']))
        ck.ob('R2.6', 'all-static-deps-become-sender-signals', ok, L.loc(src) if src else L.loc(eb['body']), 'code.static_property_deps.iter().map(|(obj, signal)| (object ref, signal pointer)).collect(), no filter')
    ws = bf('CxxBinding::write_setup_function')
    if ws is not None:
        ck.analysed(ws['path'])
        lp2 = next((n for n in walk(ws['body']) if n.get('k') == 'For'), None)
        ms = [m.get('m') for m in walk(lp2['iter']) if m.get('k') == 'MCall'] if lp2 else []
        sites = [s for s in H.format_sites_in_fn(ws) if 'QObject::connect(' in H.fmt_text(s)]
        ok = lp2 is not None and 'sender_signals' in ms and not any(m in LF.FILTERS for m in ms) and set(ms) <= {'sender_signals', 'unique', 'iter'} and len(sites) == 1 and any(x is sites[0]['node'] for x in walk(lp2['body']))
        if ok:
            sp = {b['hid']: slot_path(lp2['pat'], b['hid']) for b in H.pat_bindings(lp2['pat'])}
            args = sites[0]['args']
            t = H.fmt_text(sites[0])
            mm = re.search(r'QObject::connect\(\{(\d)\}, \{(\d)\}, [^,]+, \[this\]\(\) \{ this->\{(\d)\}\(\); \}\)', t)
            ok = mm is not None and sp.get((H.root_local(args[int(mm.group(1))][1]) or {}).get('hid')) == (0,) and sp.get((H.root_local(args[int(mm.group(2))][1]) or {}).get('hid')) == (1,) and \
                any(c.get('m') == 'update_function_name' for c in H.calls_in(args[int(mm.group(3))][1]))
        ck.ob('R2.6', 'every-dependency-connected-to-update', ok, L.loc(lp2) if lp2 else L.loc(ws['body']), 'for (sender, signal) in sender_signals().unique(): QObject::connect(sender, signal, root, [this]{ this->update..(); })')
    ss = bf('CxxBindingValueFunction::sender_signals')
    if ss is not None:
        m = next((n for n in walk(ss['body']) if n.get('k') == 'Match'), None)
        ok = m is not None and all(any(c.get('m') == 'sender_signals' for c in H.calls_in(a['body'])) for a in m['arms']) and len(m['arms']) == 2
        ck.ob('R2.6', 'value-function-kinds-forward-signals', ok, L.loc(ss['body']), 'Expr and GadgetMap both forward their sender_signals()')
    gs = bf('CxxEvalGadgetMapFunction::sender_signals')
    if gs is not None:
        ms = [m.get('m') for m in walk(gs['body']) if m.get('k') == 'MCall']
        ok = 'flat_map' in ms and not any(m in LF.FILTERS for m in ms) and 'bindings' in pp(gs['body'], maxlen=200)
        ck.ob('R2.6', 'gadget-map-forwards-all-sub-bindings', ok, L.loc(gs['body']), 'self.bindings.iter().flat_map(sender_signals), no filter')
    wst = bf('CxxCodeBodyTranslator::write_statement')
    if wst is not None:
        ck.analysed(wst['path'])
        m = next((n for n in walk(wst['body']) if n.get('k') == 'Match'), None)
        arm = next((a for a in (m['arms'] if m else []) if pat_variants(a['pat']) == ['ObserveProperty']), None)
        ok = False
        why = 'ObserveProperty arm not found'
        if arm is not None:
            sp = {b['hid']: slot_path(arm['pat'], b['hid']) for b in H.pat_bindings(arm['pat'])}
            lets = [b for b in H.binding_sites(wst).values() if b['kind'] == 'let' and any(x is b['node'] for x in walk(arm['body']))]
            obs = next((b for b in lets if any(c.get('m') == 'format_property_observer_ref' for c in H.calls_in(b['node'].get('init', {'k': 'x'})))), None)
            snd = next((b for b in lets if any(c.get('m') == 'format_local_ref' for c in H.calls_in(b['node'].get('init', {'k': 'x'})))), None)

            def from_slot(e, want, via):
                return any(c.get('m') == via or H.is_call_to(c, via) for c in H.calls_in(e)) and any(sp.get(x.get('hid')) == want for x in walk(e) if x.get('k') == 'Path' and x.get('res') == 'local')
            sites = [s for s in H.format_sites_in_fn(wst) if any(x is s['node'] for x in walk(arm['body']))]
            con = next((s for s in sites if 'QObject::connect(' in H.fmt_text(s)), None)
            objset = next((s for s in sites if re.match(r'^\{\d\}\.object = \{\d\};', H.fmt_text(s))), None)
            cond = next((s for s in sites if '.object != ' in H.fmt_text(s)), None)
            ok = obs is not None and snd is not None and from_slot(obs['node']['init'], (0,), 'format_property_observer_ref') and from_slot(snd['node']['init'], (1,), 'format_local_ref') and \
                con is not None and objset is not None and cond is not None
            why = 'observer/sender not derived from the statement\'s own slot and local'
            if ok:
                t = H.fmt_text(con)
                mm = re.search(r'\{(\d)\}\.connection = QObject::connect\(\{(\d)\}, \{(\d)\}, [^,]+, update\)', t)

                def root_name(i, s=con):
                    h = (H.root_local(s['args'][i][1]) or {}).get('hid')
                    return 'observer' if h == obs['bind']['hid'] else 'sender' if h == snd['bind']['hid'] else '?'
                ok = mm is not None and root_name(int(mm.group(1))) == 'observer' and root_name(int(mm.group(2))) == 'sender' and from_slot(con['args'][int(mm.group(3))][1], (2,), 'format_signal_pointer')
                why = 'observer.connection = QObject::connect(sender, <this statement\'s signal>, root, update); observer.object = sender; guarded by connection/object comparison'
                if ok:
                    t2 = H.fmt_text(objset)
                    m2 = re.match(r'^\{(\d)\}\.object = \{(\d)\};', t2)
                    ok = root_name(int(m2.group(1)), objset) == 'observer' and root_name(int(m2.group(2)), objset) == 'sender'
        ck.ob('R2.6', 'observe-statement-reconnects-own-slot', ok, L.loc(arm) if arm else L.loc(wst['body']), why)
    wf = bf('CxxEvalExprFunction::write_function')
    if wf is not None:
        sites = H.format_sites_in_fn(wf)
        up = next((s for s in sites if 'const auto update = ' in H.fmt_text(s)), None)
        upb = H.binding_sites(wf).get((H.root_local(up['args'][0][1]) or {}).get('hid')) if up is not None else None
        ok = up is not None and upb is not None and upb['kind'] == 'param' and 'str' in (wf['inputs'][upb['index']] if upb['index'] < len(wf['inputs']) else '') and \
            any(a.get('k') == 'If' and 'property_observer_count' in pp(a['c']) for a in H.ancestors(wf, up['node']))
        ck.ob('R2.6', 'observer-update-lambda-is-the-binding-update', ok, L.loc(up['node']) if up else L.loc(wf['body']), '`update` = [this]{ this-><update function of the owning binding>(); }, defined whenever the body has observers')
    wv = bf('CxxBinding::write_value_function')
    if wv is not None:
        c = next((c for c in H.calls_in(wv['body']) if c.get('m') == 'write_function'), None)
        ok = c is not None and any(x.get('m') == 'update_function_name' for x in H.calls_in(c['args'][-1]))
        ck.ob('R2.6', 'value-function-gets-own-update-name', ok, L.loc(c) if c else L.loc(wv['body']), 'write_function(w, &self.update_function_name())')
    su = bf('UiSupportCode::write_setup_function')
    if su is not None:
        lps = [n for n in walk(su['body']) if n.get('k') == 'For']
        kinds = []
        for lp3 in lps:
            calls = [c.get('m') for c in H.calls_in(lp3['body']) if (c.get('m') or '').endswith('_function_name')]
            fld = next((x.get('f') for x in walk(lp3['iter']) if x.get('k') == 'Field'), None)
            kinds.append((fld, calls[0] if calls else None))
        ok = kinds == [('bindings', 'setup_function_name'), ('callbacks', 'setup_function_name'), ('bindings', 'update_function_name')]
        ck.ob('R2.6', 'setup-connects-then-updates-everything', ok, L.loc(su['body']), 'setup(): %s' % kinds)
    fe = bf('CxxUpdateBinding::format_expression')
    wu = bf('CxxBinding::write_update_function')
    if fe is not None and wu is not None:
        ts = [H.fmt_text(s) for s in H.format_sites_in_fn(fe)]
        ok = len(ts) == 2 and all(re.match(r'^\{0\}\{1\}\{2\}\(this->\{3\}\(', t) for t in ts)
        sites = H.format_sites_in_fn(fe)
        ok = ok and all(pp(s['args'][2][1]).endswith('self.write') and any(c.get('m') == 'function_name' for c in H.calls_in(s['args'][3][1])) for s in sites)
        s = next((s for s in H.format_sites_in_fn(wu) if H.fmt_text(s).strip() == '{0};'), None)
        ok = ok and s is not None and any(c.get('m') == 'format_expression' for c in H.calls_in(s['args'][0][1]))
        ck.ob('R2.6', 'update-writes-eval-to-property', ok, L.loc(fe['body']), 'update(): receiver-><WRITE function>(this->eval..(..))')
    import rules.c16 as c16
    s16 = core.Shared(ck, 'R2.6', lambda r, k: r == 'R16.5' and k.startswith('emitter-loop|'), 'C16:')
    c16.run(s16)
    ck.floor('R2.6', s16.count, 7, 'shared C16 R16.5 emitter loops')

    # ---- R2.7 notify lookup --------------------------------------------------------------------------------------------------------------------
    ns = L.fn('typemap::class::Property::notify_signal')
    fnz = L.fn('typemap::class::Property::find_notify_signal')
    if ns is None or fnz is None:
        ck.floor('R2.7', 0, 2, 'fns notify_signal / find_notify_signal')
    else:
        ck.analysed(ns['path'])
        ck.analysed(fnz['path'])
        t = re.sub(r'\s', '', pp(ns['body'], maxlen=200))
        ck.ob('R2.7', 'none-iff-no-notify-name', 'self.notify_signal_name().map(' in t and 'find_notify_signal' in t and 'filter' not in t and 'and_then' not in t, L.loc(ns['body']),
              'notify_signal() is None exactly when the metatype has no NOTIFY entry; a named but unresolvable signal is an Err')
        gp = next((c for c in H.calls_in(fnz['body']) if c.get('m') == 'get_public_method'), None)
        ok = gp is not None and 'object_class' in pp(gp['recv']) and (H.binding_sites(fnz).get((H.root_local(gp['args'][0]) or {}).get('hid')) or {}).get('kind') == 'param'
        ck.ob('R2.7', 'signal-looked-up-on-property-class', ok, L.loc(gp) if gp else L.loc(fnz['body']), 'self.object_class.get_public_method(<notify name>) (walks base classes: C17)')
        flt = next((c for c in H.calls_in(fnz['body']) if c.get('m') == 'filter'), None)
        ok = flt is not None and 'MethodKind::Signal' in pp(flt['args'][0]) and 'kind()' in pp(flt['args'][0]) and ' Eq ' in pp(flt['args'][0]) or (flt is not None and '==' in pp(flt['args'][0]))
        ck.ob('R2.7', 'only-signals-qualify', bool(ok), L.loc(flt) if flt else L.loc(fnz['body']), 'candidates are filtered to MethodKind::Signal')
        rets = list(H.return_exprs(fnz['body']))
        fin = next((r for r in rets if r.get('k') == 'MCall' and r.get('m') == 'ok_or_else'), None)
        best = (H.root_local(fin['recv']) or {}).get('hid') if fin is not None else None
        asg = [n for n in walk(fnz['body']) if n.get('k') == 'Assign' and best is not None and (H.root_local(n['l']) or {}).get('hid') == best]
        ok = len(asg) == 1
        if ok:
            iff = next((a for a in H.ancestors(fnz, asg[0]) if a.get('k') == 'If'), None)
            c = pp(iff['c'], maxlen=200) if iff else ''
            ok = iff is not None and 'arguments_len()' in c and 'argument_type(0)' in c and 'value_type()' in c
        ck.ob('R2.7', 'signal-carries-nothing-or-the-value', ok, L.loc(asg[0]) if asg else L.loc(fnz['body']), 'a candidate is taken only if it has no argument or its first argument has the property\'s value type')
        ok = fin is not None and best is not None
        ck.ob('R2.7', 'no-candidate-is-an-error', ok, L.loc(rets[-1]) if rets else L.loc(fnz['body']), 'best.ok_or_else(InvalidNotifySignal)')

    # the class a property claims to belong to is the class it was found in (C17 R17.11): the NOTIFY signal is looked up from there
    import core as _core17
    import rules.c17 as c17
    s17 = _core17.Shared(ck, 'R2.7', lambda r, k: r == 'R17.11' and k.endswith(('|property_map', '|public_methods')), 'C17:',
                         ' [the notify signal of an inherited property is then searched from the derived class, and a same-named signal there is connected instead]')
    c17.run(s17)
    ck.floor('R2.7', s17.count, 2, 'shared C17 R17.11 obligations')

    # the bindings that run are the ones in the header on disk: on every successful path the header is written or compared equal (C15 R15.4)
    import rules.c15 as c15
    s15 = _core17.Shared(ck, 'R2.6', lambda r, k: (r == 'R15.4' and k.endswith('|skipped-only-if-same-bytes')) or (r == 'R15.5' and (k in ('header-path-gets-header', 'both-outputs-written') or k.startswith('buffer-starts-empty|'))), 'C15:',
                         ' [a header left over from an earlier run connects the bindings of the old document]')
    c15.run(s15)
    ck.floor('R2.6', s15.count, 5, 'shared C15 R15.4 / R15.5 obligations on the header write')
