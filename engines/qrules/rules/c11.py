"""C11: the object tree and child order of the QML document are preserved."""
import json
import os
import re
import glob
from facts import walk, short, pp
import hirutil as H
import core

LEVEL = 'other'
TECHNIQUE = 'iterator-chain purity (order and cardinality preserving adaptors only) over typed HIR, specificity order of the class dispatch chains against the class graph of the bundled metatypes, decision table of the action-like mapping, serializer loop order'
LEVEL_TEXT = ('Decides that nothing between the QML children and the emitted elements can reorder, drop or duplicate them: every child '
              'pipeline (object tree construction, widget/tab/box/form/grid children, action collection) is a single pass made of '
              'children()/iter, enumerate, map and collect (filter_map only where the rejected case is diagnosed or is the documented '
              'non-action case); the dispatch chains test classes with is_derived_from and never test a super class before one of its '
              'sub classes; action-like children map Action/ActionSeparator/Menu to names in one pass; serializer loops run over the '
              'vectors in order, actions before items before children; class attributes are the C++ class name of the node.')
LEVEL_NOTE = ('Trusted: contrib/metatypes/*.json as the class graph for the specificity check; rustc resolution. Not decided: dispatch of '
              'arbitrary class graphs to element kinds; that every QML object reaches exactly one builder (tree recursion is structural).')
DESIGN_REF = 'DESIGN.md section 4, C11'

PURE = {'children', 'iter', 'enumerate', 'map', 'collect', 'into_iter', 'child_object_nodes', 'by_ref', 'copied', 'cloned', 'as_ref', 'deref', 'borrow'}
KNOWN = {'action': 'QAction', 'layout': 'QLayout', 'menu': 'QMenu', 'widget': 'QWidget', 'tab_widget': 'QTabWidget', 'combo_box': 'QComboBox',
         'list_widget': 'QListWidget', 'table_view': 'QTableView', 'tree_view': 'QTreeView', 'push_button': 'QPushButton', 'vbox_layout': 'QVBoxLayout',
         'hbox_layout': 'QHBoxLayout', 'form_layout': 'QFormLayout', 'grid_layout': 'QGridLayout', 'spacer_item': 'QSpacerItem', 'object': 'QObject'}


def class_graph():
    supers = {}
    for p in glob.glob(os.path.join(core.REPO, 'contrib', 'metatypes', '*.json')):
        try:
            data = json.load(open(p))
        except Exception:
            continue
        for unit in data:
            for c in unit.get('classes', []):
                supers.setdefault(c.get('className'), set()).update(s.get('name') for s in c.get('superClasses', []) if s.get('access') == 'public')
    # the tweak adds QSpacerItem etc.; missing classes simply have no supers
    return supers


def derives(supers, a, b):
    seen = set()
    todo = [a]
    while todo:
        x = todo.pop()
        if x == b:
            return True
        if x in seen:
            continue
        seen.add(x)
        todo.extend(supers.get(x, ()))
    return False


def chain_names(expr):
    names = []
    x = expr
    while x.get('k') == 'MCall':
        names.append(x['m'])
        x = x['recv']
    names.reverse()
    return names, x


def run(ck):
    if getattr(ck, 'depth', 0) >= 2:
        return      # a shared run of a shared run: nothing of it is selected, and mutual sharing must end somewhere
    _run(ck)
    _shares(ck)


def _run(ck):
    F = ck.facts
    L = F.lib
    supers = class_graph()
    ck.explanation = (
        'R11.1 pipelines: populate_node_rec (child_object_nodes().iter().filter_map(rec).collect()), process_widget_children, '
        'process_tab_widget_children, the four process_*_layout_children, ObjectNode::children: adaptor names must be within the pure '
        'set; no rev/filter/skip/take/sorted/dedup/unique/step_by/chain/zip. R11.2 each `if cls.is_derived_from(&ctx.classes.X)` chain: '
        'all tests are is_derived_from on a KnownClasses field; if X derives from Y (bundled metatypes) X is tested first. R11.3 '
        'collect_action_like_children: children.iter().filter_map(match).collect() with arms Action=>Some(name), ActionSeparator=>Some(const), '
        'Menu=>Some(name), Layout|Widget=>None; Widget::build uses it only when no `actions` binding exists. R11.4 Widget/Layout '
        'serializers iterate actions, items, children with plain for-loops in that order. R11.5 class field = class.qualified_cxx_name().')
    ck.rule('R11.1', 'child pipelines preserve order and cardinality')
    ck.rule('R11.2', 'class dispatch tests sub classes before super classes, by derivation')
    ck.rule('R11.3', 'action-like children are added in declaration order, in one pass')
    ck.rule('R11.4', 'serializers emit actions, items and children in stored order')
    ck.rule('R11.5', 'the class attribute names the C++ class of the object')
    ck.rule('R11.6', 'element kinds that cannot hold children diagnose nested objects instead of dropping them')
    ck.floor('R11.2', len(supers), 100, 'classes in the bundled metatypes')

    # ---- R11.1 ----------------------------------------------------------------------------
    pipes = {
        'objtree::ObjectTree::populate_node_rec': {'filter_map'},
        'uigen::object::process_widget_children': set(),
        'uigen::object::process_tab_widget_children': set(),
        'uigen::layout::process_vbox_layout_children': set(),
        'uigen::layout::process_hbox_layout_children': set(),
        'uigen::layout::process_form_layout_children': set(),
        'uigen::layout::process_grid_layout_children': set(),
        'objtree::ObjectNode::children': set(),
        'uigen::object::collect_action_like_children': {'filter_map'},
    }
    n_p = 0
    for path, extra in pipes.items():
        fn = L.fn(path)
        if fn is None:
            ck.ob('R11.1', 'pipeline|%s' % short(path), False, '', 'fn not found')
            continue
        ck.analysed(path)
        # the pipeline: the (unique) collect()/returned iterator chain rooted at children()/child_object_nodes()/iter()
        cands = []
        for n in walk(fn['body'], enter_closures=False):
            if n.get('k') == 'MCall':
                names, root = chain_names(n)
                if names and names[0] in ('children', 'child_object_nodes', 'iter') and (names[-1] == 'collect' or n in list(H.return_exprs(fn['body']))):
                    if names[0] == 'iter' and not any(x in pp(root) for x in ('children', 'child_indices')):
                        continue
                    cands.append((n, names))
        # keep maximal chains
        cands = [c for c in cands if not any(c[0] is not d[0] and any(x is c[0] for x in walk(d[0])) for d in cands)]
        if len(cands) == 0:
            # loop form: for n in <children> { if let Some(x) = f(n) { v.push(x) } }
            loopforms = []
            for c in H.calls_in(fn['body']):
                if c.get('k') in ('Call', 'MCall'):
                    lf = H.absorbing_child_loop(fn, c)
                    if lf is not None and any(x in pp(lf['loop']['iter'], maxlen=200) for x in ('children', 'child_object_nodes', 'child_indices')):
                        loopforms.append((c, lf))
            if len(loopforms) == 1:
                c, lf = loopforms[0]
                n_p += 1
                bad = []
                for c2 in H.calls_in(fn['body']):
                    if c2.get('k') == 'MCall' and c2 is not lf['push'] and (H.root_local(c2['recv']) or {}).get('hid') == lf['vec_hid'] and (L.ty(c2['recv'], adjusted=True) or '').startswith('&mut '):
                        bad.append('%s() on the collected children' % c2['m'])
                if lf['conditional'] and 'filter_map' not in extra:
                    bad.append('children are dropped conditionally')
                ck.ob('R11.1', 'pipeline|%s' % short(path), not bad, L.loc(lf['loop']),
                      'loop form: for each child in order, push the result%s' % (' if it is Some' if lf['conditional'] else '') if not bad else 'loop over the children with %s' % bad, fn=path)
                continue
        if len(cands) != 1:
            ck.ob('R11.1', 'pipeline|%s' % short(path), False, L.loc(fn['body']), 'expected one child pipeline, found %d (a multi-pass construction can reorder children)' % len(cands), fn=path)
            continue
        n_p += 1
        node, names = cands[0]
        bad = [x for x in names if x not in PURE and x not in extra]
        # the collected vector must not be mutated afterwards (reverse/sort/retain/..)
        par = H.parents(fn).get(id(node))
        if par is not None and par.get('k') == 'Let' and par['pat'].get('k') == 'Bind':
            hid = par['pat']['hid']
            for c in H.calls_in(fn['body']):
                if c.get('k') == 'MCall' and (H.root_local(c['recv']) or {}).get('hid') == hid and (L.ty(c['recv'], adjusted=True) or '').startswith('&mut '):
                    bad.append('%s() on the collected children' % c['m'])
            for n2 in walk(fn['body']):
                if n2.get('k') == 'AddrOf' and n2.get('mut') and (H.root_local(n2) or {}).get('hid') == hid:
                    bad.append('&mut borrow of the collected children')
        ck.ob('R11.1', 'pipeline|%s' % short(path), not bad, L.loc(node),
              'chain: %s' % ' -> '.join(names) if not bad else 'chain %s contains %s: order or cardinality of the children is not preserved' % (' -> '.join(names), bad), fn=path)
    ck.floor('R11.1', n_p, 9, 'child pipelines')
    # populate_node_rec: the rejected case of its filter_map is a diagnosed failure (the recursion is a "None => diagnosed" unit: C04 R4.1)
    pr = L.fn('objtree::ObjectTree::populate_node_rec')
    if pr is not None:
        cl = next((a for c in H.calls_in(pr['body']) if c.get('m') == 'filter_map' for a in c['args'] if a.get('k') == 'Closure'), None)
        ok = cl is not None and any(c.get('m') == 'populate_node_rec' for c in H.calls_in(cl['body'])) and len(list(H.calls_in(cl['body']))) == 1
        rec_calls = [c for c in H.calls_in(pr['body']) if c.get('m') == 'populate_node_rec']
        lf = H.absorbing_child_loop(pr, rec_calls[0]) if len(rec_calls) == 1 and cl is None else None
        if lf is not None and lf['conditional']:
            ok = True
        ck.ob('R11.1', 'tree-recursion-only-drops-failed-children', ok, L.loc(cl) if cl else (L.loc(lf['loop']) if lf else ''), 'a child is absent only if its own construction failed (filter_map over the recursion, or its loop form)')
        # parent index is pushed after the children (post-order) and child_indices is what the recursion returned
        st = next((n for n in walk(pr['body']) if n.get('k') == 'Struct' and (n.get('def') or '').endswith('ObjectNodeData')), None)
        ok = False
        if st is not None:
            f = next((x for x in st['fields'] if x['f'] == 'child_indices'), None)
            if f is not None:
                org = H.origin_callees(pr, f['e'], through=())
                ok = any(x.endswith('collect') for x in org)
                if not ok and lf is not None:
                    ok = (H.root_local(f['e']) or {}).get('hid') == lf['vec_hid']
        ck.ob('R11.1', 'child-indices-are-the-recursion-results', ok, L.loc(st) if st else '', 'child_indices <- the collected recursion results')

    # ---- R11.2 dispatch chains ------------------------------------------------------------------
    n_chain = 0
    for path in ('uigen::object::UiObject::build', 'uigen::layout::LayoutItemContent::build', 'uigen::layout::Layout::build'):
        fn = L.fn(path)
        if fn is None:
            ck.ob('R11.2', 'dispatch|%s' % short(path), False, '', 'fn not found')
            continue
        ck.analysed(path)
        top = None
        for n in walk(fn['body']):
            if n.get('k') == 'If' and any(c.get('m') == 'is_derived_from' for c in H.calls_in(n['c'])) or (n.get('k') == 'If' and n['c'].get('k') == 'Binary'):
                # outermost if of the chain: its parent is not an If's else
                par = H.parents(fn).get(id(n))
                while par is not None and par.get('k') == 'Block' and not par.get('stmts') and par.get('e') is n:
                    n2 = par
                    par = H.parents(fn).get(id(par))
                    if par is not None and par.get('k') == 'If' and par.get('els') is n2:
                        break
                else:
                    top = n
                    break
        if top is None:
            ck.ob('R11.2', 'dispatch|%s' % short(path), False, L.loc(fn['body']), 'dispatch chain not found')
            continue
        n_chain += 1
        tests = []
        cur = top
        ok_form = True
        while cur is not None and cur.get('k') == 'If':
            c = cur['c']
            if c.get('k') == 'MCall' and c.get('m') == 'is_derived_from':
                fld = [x.get('f') for x in walk(c['args'][0]) if x.get('k') == 'Field' and x.get('adt', '').endswith('KnownClasses')]
                tests.append(fld[0] if fld else '?')
            else:
                ok_form = False
                tests.append('!' + pp(c, maxlen=40))
            nxt = cur.get('els')
            while nxt is not None and nxt.get('k') == 'Block' and not nxt.get('stmts') and 'e' in nxt and nxt['e'].get('k') == 'If':
                nxt = nxt['e']
            cur = nxt if nxt is not None and nxt.get('k') == 'If' else None
        ck.ob('R11.2', 'tests-by-derivation|%s' % short(path), ok_form, L.loc(top),
              'every test is cls.is_derived_from(&ctx.classes.X): %s' % tests if ok_form else 'a dispatch test is not a derivation test (sub classes and custom components would be misclassified): %s' % tests, fn=path)
        bad = []
        for i, a in enumerate(tests):
            for b in tests[i + 1:]:
                ca, cb = KNOWN.get(a), KNOWN.get(b)
                if ca and cb and ca != cb and derives(supers, cb, ca):
                    bad.append('%s before its sub class %s' % (a, b))
        ck.ob('R11.2', 'specific-first|%s' % short(path), not bad, L.loc(top), 'order %s' % tests if not bad else 'tests %s: %s' % (tests, bad), fn=path)
    ck.floor('R11.2', n_chain, 3, 'dispatch chains')

    # ---- R11.3 action-like children ---------------------------------------------------------------
    ca = L.fn('uigen::object::collect_action_like_children')
    if ca is None:
        ck.floor('R11.3', 0, 1, 'fn collect_action_like_children')
    else:
        m = next((n for n in walk(ca['body']) if n.get('k') == 'Match'), None)
        table = {}
        if m is not None:
            for arm in m['arms']:
                pats = arm['pat']['alts'] if arm['pat'].get('k') == 'POr' else [arm['pat']]
                vals = list(H.value_exprs(arm['body']))
                v = vals[0] if len(vals) == 1 else None
                if v is not None and v.get('k') == 'Call' and (v.get('def') or '').endswith('Option::Some'):
                    inner = v['args'][0]
                    fl = [x.get('f') for x in walk(inner) if x.get('k') == 'Field']
                    res = 'name' if fl == ['name'] else ('const' if any(x.get('k') == 'Path' and x.get('dk') == 'Const' for x in walk(inner)) else '?')
                elif v is not None and (v.get('def') or '').endswith('Option::None'):
                    res = 'none'
                else:
                    res = '?'
                for p in pats:
                    table[(p.get('def') or '').split('::')[-1]] = res
        exp = {'Action': 'name', 'ActionSeparator': 'const', 'Menu': 'name', 'Layout': 'none', 'Widget': 'none'}
        ck.ob('R11.3', 'action-like-table', table == exp, L.loc(m) if m else '', 'UiObject kind -> addaction entry: %s' % table)
        wb = L.fn('uigen::object::Widget::build')
        if wb is not None:
            call = next((c for c in H.calls_in(wb['body']) if H.is_call_to(c, 'collect_action_like_children')), None)
            ok = False
            if call is not None:
                for anc in H.ancestors(wb, call):
                    if anc.get('k') == 'If' and anc['c'].get('k') == 'LetCond' and any(H.lit_value(a) == 'actions' for x in H.calls_in(anc['c']['e']) for a in x['args']):
                        ok = any(x is call for x in walk(anc.get('els', {'k': 'x'})))
                # argument is the children vector built by the pipeline above
                rl = H.root_local(call['args'][0])
                site = H.binding_sites(wb).get(rl['hid'], {}) if rl is not None else {}
                ok = ok and site.get('kind') == 'let' and any('process_' in (H.callee(x) or '') for x in H.calls_in(site['node'].get('init', {'k': 'x'})))
            ck.ob('R11.3', 'used-only-without-explicit-actions', ok, L.loc(call) if call else '', 'else-branch of `if let Some(p) = properties_code_map.get("actions")`, applied to the built children')

    # ---- R11.4 serializer loops ------------------------------------------------------------------------
    for path, order in (('uigen::object::Widget::serialize_to_xml', ['actions', 'items', 'children']), ('uigen::layout::Layout::serialize_to_xml', ['children'])):
        fn = L.fn(path)
        if fn is None:
            ck.ob('R11.4', 'loops|%s' % short(path), False, '', 'fn not found')
            continue
        got = []
        plain = True
        for n in walk(fn['body']):
            if n.get('k') == 'For':
                it = H.strip_refs(n['iter'])
                if it.get('k') == 'Field':
                    got.append(it['f'])
                else:
                    names, root = chain_names(it)
                    fl = [x.get('f') for x in walk(it) if x.get('k') == 'Field']
                    got.append((fl[0] if fl else '?'))
                    if any(x not in ('iter',) for x in names):
                        plain = False
        ck.ob('R11.4', 'loops|%s' % short(path), got == order and plain, L.loc(fn['body']), 'for-loops over %s%s' % (got, '' if plain else ' (with reordering adaptors)'), fn=path)

    # ---- R11.5 class attribute ------------------------------------------------------------------------------
    for path in ('uigen::object::Widget::new', 'uigen::layout::Layout::new'):
        fn = L.fn(path)
        if fn is None:
            continue
        bs = H.binding_sites(fn)
        st = next((n for n in walk(fn['body']) if n.get('k') == 'Struct' and short(n.get('def') or '') == short(path).split('::')[0]), None)
        ok = False
        if st is not None:
            f = next((x for x in st['fields'] if x['f'] == 'class'), None)
            if f is not None:
                q = next((c for c in H.calls_in(f['e']) if c.get('m') == 'qualified_cxx_name'), None)
                ok = q is not None and bs.get((H.root_local(q['recv']) or {}).get('hid'), {}).get('kind') == 'param'
        ck.ob('R11.5', 'class-attribute|%s' % short(path), ok, L.loc(st) if st else '', 'class <- class.qualified_cxx_name() of the class parameter', fn=path)
    for path in ('uigen::object::Widget::build', 'uigen::layout::Layout::build'):
        fn = L.fn(path)
        if fn is None:
            continue
        call = next((c for c in H.calls_in(fn['body']) if c.get('k') == 'Call' and (H.callee(c) or '').endswith(path.rsplit('::', 1)[0] + '::new')), None)
        ok = False
        if call is not None:
            a = call['args'][1]
            ok = a.get('k') == 'MCall' and a.get('m') == 'class' and H.binding_sites(fn).get((H.root_local(a['recv']) or {}).get('hid'), {}).get('kind') == 'param'
        ck.ob('R11.5', 'class-of-the-node|%s' % short(path), ok, L.loc(call) if call else '', 'Self::new(.., obj_node.class(), obj_node.name(), ..)', fn=path)

    # ---- R11.6 childless kinds (shared with C10 R10.5) ----------------------------------------------------------
    n_k = 0
    for path in ('uigen::object::UiObject::build', 'uigen::layout::LayoutItemContent::build'):
        fn = L.fn(path)
        if fn is None:
            continue
        conf = [c for c in H.calls_in(fn['body']) if H.is_call_to(c, 'confine_children')]
        for n in walk(fn['body']):
            d = n.get('def') or ''
            if n.get('k') in ('Call', 'Path') and re.search(r'(UiObject::(Action|ActionSeparator)|LayoutItemContent::SpacerItem)$', d):
                par = H.parents(fn).get(id(n), {})
                if n.get('k') == 'Path' and par.get('k') == 'Call' and par.get('f') is n:
                    continue
                n_k += 1
                ok = any(H.lexically_precedes_dominating(fn, c, n) for c in conf)
                ck.ob('R11.6', 'childless-kind-confined|%s' % d.split('::')[-1], ok, L.loc(n),
                      'confine_children(..) dominates the construction' if ok else
                      '%s is built on a path that does not call confine_children(): objects nested in it vanish from the .ui without a diagnostic' % short(d), fn=path)
    ck.floor('R11.6', n_k, 3, 'constructions of childless element kinds')
    cc = L.fn('uigen::object::confine_children')
    if cc is not None:
        import nonediag
        errs = [p for p in nonediag.pushes_in(L, cc['body']) if any(H.is_call_to(x, 'Diagnostic::error') for x in H.calls_in(p['args'][0]))]
        iff = next((n for n in walk(cc['body']) if n.get('k') == 'If'), None)
        ok = bool(errs) and iff is not None and any(x.get('m') == 'children' for x in H.calls_in(iff['c']))
        ck.ob('R11.6', 'confine-children-diagnoses', ok, L.loc(cc['body']), 'if the node has a child, an error is pushed')

    # ---- R11.7 the element kind of an object is decided once, by the class-ancestry dispatch -----------------------------------
    ck.rule('R11.7', 'element kinds are constructed only by the class-ancestry dispatch (UiObject::build / LayoutItemContent::build)')
    n_ct = 0
    for ty, home in (('uigen::object::UiObject', 'UiObject::build'), ('uigen::layout::LayoutItemContent', 'LayoutItemContent::build')):
        outside = {}
        for fn in L.fn_list:
            if fn.get('x') in ('Clone', 'Debug') or fn.get('impl_trait') in ('std::clone::Clone',):
                continue
            for n in walk(fn['body']):
                if n.get('dk') == 'Ctor' and n.get('k') in ('Call', 'Path') and (n.get('def') or '').rsplit('::', 1)[0].endswith(ty.split('::', 1)[1]):
                    if n.get('k') == 'Path' and (H.parents(fn).get(id(n)) or {}).get('f') is n:
                        continue   # callee position of the Call already counted
                    # patterns are not constructions (PTS/PPath nodes are not Call/Path expression nodes)
                    n_ct += 1
                    if short(fn['path']) != home:
                        outside.setdefault(short(fn['path']), []).append(n)
        ck.ob('R11.7', 'kind-constructed-only-in|%s' % home, not outside, L.loc(next(iter(outside.values()))[0]) if outside else '',
              'every %s variant is built inside %s' % (ty.split('::')[-1], home) if not outside else
              '%s builds a %s variant itself (%s): the object can end up as another element kind than its class prescribes (e.g. a menu re-wrapped as a plain widget is no longer added to its parent)' %
              (sorted(outside), ty.split('::')[-1], sorted({(x.get('def') or '').split('::')[-1] for v in outside.values() for x in v})))
    ck.floor('R11.7', n_ct, 9, 'constructions of UiObject / LayoutItemContent variants')


def _shares(ck):
    """the predicate the class dispatch asks (C17 R17.2, same facts)."""
    import core as _core
    import rules.c17 as c17
    s17 = _core.Shared(ck, 'R11.2', lambda r, k: r == 'R17.2', 'C17:', ' [the element kind is chosen by `is_derived_from`: a class that wrongly counts as derived from QAction or QLayout becomes an <action> or <layout>]')
    c17.run(s17)
    ck.floor('R11.2', s17.count, 3, 'shared C17 R17.2 obligations')

    # which class a type name stands for (and with it the element kind) depends on the import scope: C18 R18.4, same facts
    import rules.c18 as c18
    s18 = _core.Shared(ck, 'R11.2', lambda r, k: r == 'R18.4' and (k.startswith(('own-directory-imported', 'base-directory-imported', 'import-stack-'))), 'C18:',
                       ' [a child whose type name resolves to another class is dispatched to another element kind]')
    c18.run(s18)
    # the .ui on disk is this run's tree, in the file meant for it (C15 R15.4 / R15.5)
    import rules.c15 as c15
    ck.rule('R11.8', 'the tree that was built is what is written to the .ui path (shared with C15)')
    s15 = _core.Shared(ck, 'R11.8', lambda r, k: (r == 'R15.4' and k.endswith('|skipped-only-if-same-bytes')) or (r == 'R15.5' and (k in ('ui-path-gets-form-xml', 'both-outputs-written') or k.startswith(('buffer-starts-empty|', 'path-')))), 'C15:',
                       ' [the order, classes and kinds in the .ui are those of the current document only if the file is this run\'s form]')
    c15.run(s15)
    ck.floor('R11.8', s15.count, 6, 'shared C15 obligations on the .ui write')

    # an object is tested against a well-known class by derivation, never by identity: an instance of a component (or of any subclass) is
    # a combo box if its class derives from QComboBox
    ck.rule('R11.9', 'tests against the well-known classes are made with is_derived_from, never with ==')
    L = ck.facts.lib
    n_d, eqs = 0, []
    # the well-known classes that stand for a family (some place tests them by derivation); value classes such as QBrush or QFont have
    # no subclasses in this world and are compared by identity
    family = set()
    cmp_sites = []
    for fn in L.fn_list:
        if not fn['path'].startswith(('uigen::', '<uigen::')) or fn.get('x') in ('Clone', 'Debug', 'PartialEq'):
            continue
        for n in walk(fn['body']):
            if n.get('k') == 'MCall' and n.get('m') == 'is_derived_from':
                fs = [x.get('f') for a in n['args'] for x in walk(a) if x.get('k') == 'Field' and 'KnownClasses' in (x.get('adt') or '')]
                if fs:
                    n_d += 1
                    family.update(fs)
            if n.get('k') == 'Binary' and n.get('op') in ('Eq', 'Ne'):
                fs = [x.get('f') for sd in (n['l'], n['r']) for x in walk(sd) if x.get('k') == 'Field' and 'KnownClasses' in (x.get('adt') or '')]
                if fs:
                    cmp_sites.append((fn, n, fs))
    # every <addaction name=..> names one declared object only if generated names are never handed out twice (C10 R10.3)
    import rules.c10 as c10
    ck.rule('R11.10', 'an action or menu is added once under a name no other object carries (shared with C10)')
    s10 = _core.Shared(ck, 'R11.10', lambda r, k: r == 'R10.3', 'C10:', ' [two menus of one name: <addaction> names it twice and one declared menu is never added]')
    c10.run(s10)
    ck.floor('R11.10', s10.count, 3, 'shared C10 R10.3 obligations')
    ck.explanation += (' R11.9 the QObject-derived well-known classes (a frozen, reviewed list of KnownClasses fields; value classes are exempt) are tested with '
                       'is_derived_from only, never by ==: an object of a derived class, or of a component rooted at one, is treated as its base. The list fails closed when '
                       'a new field is tested by derivation or a listed field disappears.')
    # frozen from the tree as reviewed: the QObject-derived well-known classes (the others are value classes)
    FAMILY = {'action', 'combo_box', 'form_layout', 'grid_layout', 'hbox_layout', 'layout', 'list_widget', 'menu', 'object', 'push_button', 'spacer_item', 'tab_widget',
              'table_view', 'tree_view', 'vbox_layout', 'widget'}
    known = {f['name'] for v in (L.adts.get('uigen::context::KnownClasses') or {}).get('variants', []) for f in v['fields']}
    ck.ob('R11.9', 'family-list-current', FAMILY <= known and family <= FAMILY, '', 'classes tested by derivation today: %s' % sorted(family) if FAMILY <= known and family <= FAMILY else
          'the reviewed list of QObject-derived well-known classes is out of date: unknown %s, newly tested by derivation %s' % (sorted(FAMILY - known), sorted(family - FAMILY)))
    eqs = [(fn, n) for fn, n, fs in cmp_sites if set(fs) & FAMILY]
    for fn, n in eqs:
        ck.ob('R11.9', 'known-class-by-derivation|%s' % short(fn['path']), False, L.loc(n),
              '`%s` compares the class of the object with a well-known class by identity: an instance of a subclass or of a QML component rooted at that class is not recognised '
              '(its pseudo properties are not handled, it is dispatched as something else)' % pp(n, maxlen=70), fn=fn['path'])
    ck.ob('R11.9', 'no-identity-test-against-known-classes', not eqs, '', '%d is_derived_from(&ctx.classes.X) tests, %d identity comparisons' % (n_d, len(eqs)))
    ck.floor('R11.9', n_d, 10, 'is_derived_from tests against well-known classes in uigen')
