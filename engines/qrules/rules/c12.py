"""C12: layout items land in the documented cells; per-row/column settings follow."""
import re
from facts import walk, short, pp
import hirutil as H

LEVEL = 'other'
TECHNIQUE = 'index-kind agreement by value provenance (tuple slots through call returns), writer/reader field-to-attribute tables, sibling mirror cross-check of the row/column and LeftToRight/TopToBottom branches + shared None=>diagnosed obligations of the attachment readers, store/guard shape of the per-index lists'
LEVEL_TEXT = ('Decides the agreement conditions without which no layout can be right: every per-row array is indexed by a value that '
              'originates in the row slot of the cursor (and per-column by the column slot), written by the accessor of the same '
              'attached property and serialized under the attribute of the same name and the same field; item row/column/span/alignment '
              'attributes read the like-named fields filled from the like-named accessors; range limits are own-axis bounded by count-1 '
              'and other-axis free; and the row-only/column-only and LeftToRight/TopToBottom branches of the cursor are mirror images '
              '(Engler-style sibling cross-check). The flow arithmetic itself is not decided.')
LEVEL_NOTE = ('Trusted: rustc name resolution; the convention that LayoutAttributes field names, accessor keys and XML attributes are the '
              'same words (checked for equality, not assumed). Not decided: the values produced by the wrap/carry arithmetic.')
DESIGN_REF = 'DESIGN.md section 4, C12'


def camel_to_snake(s):
    return re.sub(r'([A-Z])', lambda m: '_' + m.group(1).lower(), s)


def ret_slot_field(crate, fn, slot, depth=0):
    """Which struct field does tuple slot `slot` of fn's return value read? Follows returns through local calls."""
    if depth > 4 or fn is None:
        return None
    res = set()
    for v in H.return_exprs(fn['body']):
        for o in H.origins(fn, v):
            oo = H.strip_refs(o)
            if oo.get('k') == 'Tup' and slot < len(oo['es']):
                for o2 in H.origins(fn, oo['es'][slot]):
                    o2 = H.strip_refs(o2)
                    if o2.get('k') == 'Field':
                        res.add(o2['f'])
                    else:
                        res.add('?' + pp(o2, maxlen=30))
            elif oo.get('k') in ('MCall', 'Call'):
                callee = crate.fns.get(H.callee(oo)) or crate.fns.get(H.callee_decl(oo))
                r = ret_slot_field(crate, callee, slot, depth + 1)
                res.add(r if r else '?call')
            else:
                res.add('?' + pp(oo, maxlen=30))
    return res.pop() if len(res) == 1 else None


def index_kind(crate, fn, e):
    """'row' / 'column' / 'enumerate' / unknown for an index expression, from its provenance (never from its spelling)."""
    kinds = set()
    bs = H.binding_sites(fn)
    for node, slot in H.resolve_slots(fn, e):
        if node.get('k') in ('MCall', 'Call') and slot is not None:
            callee = crate.fns.get(H.callee(node)) or crate.fns.get(H.callee_decl(node))
            f = ret_slot_field(crate, callee, slot)
            kinds.add({'next_row': 'row', 'next_column': 'column'}.get(f, 'unknown:%s' % f))
        elif node.get('k') == 'Bind' and bs.get(node.get('hid'), {}).get('kind') == 'closure_param' and slot == 0:
            kinds.add('enumerate')
        else:
            kinds.add('unknown')
    return kinds.pop() if len(kinds) == 1 else 'ambiguous:%s' % sorted(kinds)


def accessor_key(crate, call):
    """Key string of an attached-property accessor call (attached.row_stretch(..) -> 'rowStretch')."""
    fn = crate.fns.get(H.callee(call)) or crate.fns.get(H.callee_decl(call))
    if fn is None:
        return None
    lits = [n['v'] for n in walk(fn['body']) if n.get('k') == 'Lit' and n.get('lk') == 'str']
    return lits[0] if len(lits) == 1 else None


def run(ck):
    if getattr(ck, 'depth', 0) >= 2:
        return      # a shared run of a shared run: nothing of it is selected, and mutual sharing must end somewhere
    F = ck.facts
    L = F.lib
    ck.explanation = (
        'R12.1 for every maybe_insert_into_opt_i32_array(&mut attributes.F, I, attached.A(..)): kind(I) is derived from provenance (tuple '
        'slot of parse_next -> next -> (self.next_row, self.next_column); or the enumerate counter in box layouts, whose kind is the '
        'orientation under which the fn is dispatched), kind(A) from the accessor key literal; F == snake(key) for grid arrays and kinds '
        'agree. R12.1s in Layout::serialize_to_xml each array attribute is gated by, and formats, the same field, and is named '
        'lowercase(key). R12.2 LayoutItem::new gets (row, column) from slots (0, 1); fields are filled from like-named accessors and '
        'serialized under row/column/rowspan/colspan/alignment. R12.3 parse_next bounds: own axis count-1, other axis free; '
        'maybe_parse_layout_index rejects < 0 and > max with a diagnostic. R12.4 mirror cross-check inside LayoutIndexCounter::next.')
    ck.rule('R12.1', 'row-wise arrays are indexed by the row, column-wise by the column, by the accessor of the same property')
    ck.rule('R12.1s', 'each per-row/column array is serialized under its own attribute name from its own field')
    ck.rule('R12.2', 'item row/column/span/alignment fields, accessors and XML attributes agree')
    ck.rule('R12.3', 'explicit indices are range-checked against the flow on their own axis')
    ck.rule('R12.4', 'row/column and LeftToRight/TopToBottom branches of the cursor are mirror images')

    # ---- R12.1 -------------------------------------------------------------------
    n_sites = 0
    orient = {'process_vbox_layout_children': 'row', 'process_hbox_layout_children': 'column'}
    # orientation of the box functions is re-derived from Layout::build's dispatch
    lb = L.fn('uigen::layout::Layout::build')
    dispatch = {}
    if lb is not None:
        for n in walk(lb['body']):
            if n.get('k') == 'If':
                c = n['c']
                cls = [x.get('f') for x in walk(c) if x.get('k') == 'Field' and x.get('adt', '').endswith('KnownClasses')]
                calls = [short(H.callee(x) or '') for x in H.calls_in(n['then']) if 'process_' in (H.callee(x) or '')]
                if cls and calls:
                    dispatch[calls[0]] = cls[0]
    ck.ob('R12.1', 'dispatch|vbox->process_vbox', dispatch.get('process_vbox_layout_children') == 'vbox_layout', '', 'Layout::build dispatch: %s' % dispatch)
    ck.ob('R12.1', 'dispatch|hbox->process_hbox', dispatch.get('process_hbox_layout_children') == 'hbox_layout', '', 'Layout::build dispatch: %s' % dispatch)
    for fn in L.fn_list:
        for c in H.calls_in(fn['body']):
            if not H.is_call_to(c, 'maybe_insert_into_opt_i32_array'):
                continue
            n_sites += 1
            ck.analysed(fn['path'])
            farg = H.strip_refs(c['args'][0])
            fld = farg.get('f') if farg.get('k') == 'Field' else None
            ik = index_kind(L, fn, c['args'][1])
            acc = H.strip_refs(c['args'][2])
            key = accessor_key(L, acc) if acc.get('k') == 'MCall' else None
            fshort = short(fn['path'].split('::{closure')[0])
            if ik == 'enumerate':
                ik = orient.get(fshort, 'unknown-enumerate')
            akind = 'row' if (key or '').startswith('row') else 'column' if (key or '').startswith('column') else None
            site = '%s|%s' % (fshort, fld)
            # which arrays a layout kind may fill: box layouts have the single `stretch` list (uic reads no rowstretch/columnstretch
            # for them), the grid has the per-row/per-column lists and no `stretch`
            is_box = fshort in orient
            ck.ob('R12.1', 'array-belongs-to-layout-kind|' + site, (fld == 'stretch') == is_box, L.loc(c),
                  '%s fills `%s`' % (fshort, fld) if (fld == 'stretch') == is_box else
                  '%s records the setting in `%s`: %s' % (fshort, fld, 'a box layout is serialized with `stretch` only, so the value ends up under an attribute uic ignores for it' if is_box else 'a grid has no `stretch` list'), fn=fn['path'])
            if fld == 'stretch':
                ok = ik in ('row', 'column') and akind == ik and (key or '').endswith('Stretch')
                ck.ob('R12.1', 'kinds-agree|' + site, ok, L.loc(c), 'box layout: index kind %s, accessor key %s' % (ik, key), fn=fn['path'])
            else:
                fkind = 'row' if (fld or '').startswith('row_') else 'column' if (fld or '').startswith('column_') else None
                ok_name = fld is not None and key is not None and camel_to_snake(key) == fld
                ck.ob('R12.1', 'array-matches-accessor|' + site, ok_name, L.loc(c), 'field %s <- accessor key %s' % (fld, key), fn=fn['path'])
                ok = fkind is not None and ik == fkind
                ck.ob('R12.1', 'index-kind|' + site, ok, L.loc(c),
                      'field kind %s indexed by the %s slot of the cursor' % (fkind, ik) if ok else
                      'per-%s array `%s` is indexed by the %s of the item' % (fkind, fld, ik), fn=fn['path'])
    ck.floor('R12.1', n_sites, 6, 'maybe_insert_into_opt_i32_array call sites')

    # ---- R12.1s serialization ---------------------------------------------------------
    ls = L.fn('uigen::layout::Layout::serialize_to_xml')
    n_attr = 0
    if ls is None:
        ck.floor('R12.1s', 0, 1, 'fn Layout::serialize_to_xml')
    else:
        ck.analysed(ls['path'])

        def attr_fields(node):
            """fields of LayoutAttributes that node mentions, directly or through a local bound to one (`let w = &self.attributes.F;`)"""
            out = []
            for x in walk(node):
                if x.get('k') == 'Field' and x.get('adt', '').endswith('LayoutAttributes'):
                    out.append(x.get('f'))
                elif x.get('k') == 'Path' and x.get('res') == 'local':
                    b_ = H.binding_sites(ls).get(x.get('hid')) or {}
                    if b_.get('kind') == 'let' and b_.get('pat', {}).get('k') == 'Bind' and b_['node'].get('init') is not None:
                        out += [y.get('f') for y in walk(b_['node']['init']) if y.get('k') == 'Field' and y.get('adt', '').endswith('LayoutAttributes')]
            return out
        for n in walk(ls['body']):
            if n.get('k') != 'If':
                continue
            gate = attr_fields(n['c'])
            tups = [t for t in walk(n['then']) if t.get('k') == 'Tup' and len(t['es']) == 2 and H.lit_value(t['es'][0]) is not None]
            if not gate or not tups:
                continue
            n_attr += 1
            attr = H.lit_value(tups[0]['es'][0])
            used = attr_fields(tups[0]['es'][1])
            if not used and n['c'].get('k') == 'LetCond':
                # `if let Some(s) = format(&self.attributes.F, d) { push((name, s)) }`: the value is what the condition bound
                bound = {b['hid'] for b in H.pat_bindings(n['c']['pat'])}
                rl = H.root_local(tups[0]['es'][1])
                if rl is not None and rl.get('hid') in bound:
                    used = list(gate)
            ok = len(gate) == 1 and used == gate and attr == gate[0].replace('_', '')
            ck.ob('R12.1s', 'attribute|%s' % attr, ok, L.loc(n),
                  'attribute %s gated by the presence of %s and formatted from %s' % (attr, gate, used))
        # helper form: `push_opt(&mut tag, "rowstretch", &self.attributes.row_stretch, 1)`
        for c in H.calls_in(ls['body']):
            if c.get('k') != 'Call' or not (H.callee(c) or H.callee_decl(c) or '').startswith('uigen::layout::'):
                continue
            attr = next((H.lit_value(a) for a in c['args'] if isinstance(H.lit_value(a), str)), None)
            used = [x.get('f') for a in c['args'] for x in walk(a) if x.get('k') == 'Field' and x.get('adt', '').endswith('LayoutAttributes')]
            if attr is None or not used:
                continue
            n_attr += 1
            ck.ob('R12.1s', 'attribute|%s' % attr, len(used) == 1 and attr == used[0].replace('_', ''), L.loc(c), 'attribute %s written by a helper from %s' % (attr, used))
        ck.floor('R12.1s', n_attr, 5, 'array attributes in Layout::serialize_to_xml')
    # an index or setting that cannot be used is diagnosed, not read as "not given" (C04 R4.1 on the helpers the layout code reads through)
    import core as _core
    import rules.c04 as c04
    sh41 = _core.Shared(ck, 'R12.3', lambda r, k: r == 'R4.1' and re.match(r'^(get_i32|get_enum|get_simple_value|LayoutItemAttached::|maybe_parse_layout_index|LayoutFlow::parse)', k) is not None, 'C04:',
                        ' [a silent None here is taken for "no explicit index / setting": the item is placed by the flow instead of being rejected]')
    c04.run(sh41)
    ck.floor('R12.3', sh41.count, 30, 'shared C04 R4.1 obligations on the layout attachment readers')
    # what the gate may test (presence only, never the values) is C04 R4.7, on the same facts
    import core as _core
    import rules.c04 as c04

    sh47 = _core.Shared(ck, 'R12.1s', lambda r, k: r == 'R4.7', 'C04:', ' [a stretch / minimum size that is left out of the .ui is not applied to that row or column]')
    c04.layout_data_written(sh47, L)
    ck.floor('R12.1s', sh47.count, 10, 'shared C04 R4.7 obligations')

    # ---- R12.2 item fields ----------------------------------------------------------------
    ln = L.fn('uigen::layout::LayoutItem::new')
    li = L.fn('uigen::layout::LayoutItem::serialize_to_xml')
    if ln is None or li is None:
        ck.floor('R12.2', 0, 1, 'fns LayoutItem::new / serialize_to_xml')
    else:
        ck.analysed(ln['path'])
        ck.analysed(li['path'])
        bs = H.binding_sites(ln)
        st = next((n for n in walk(ln['body']) if n.get('k') == 'Struct' and (n.get('def') or '').endswith('LayoutItem')), None)
        want = {'row': ('param', 0), 'column': ('param', 1), 'row_span': ('acc', 'rowSpan'), 'column_span': ('acc', 'columnSpan'), 'alignment': ('acc', 'alignment')}
        if st is None:
            ck.ob('R12.2', 'item-ctor', False, '', 'LayoutItem struct literal not found')
        else:
            for f in st['fields']:
                if f['f'] not in want:
                    continue
                kind, exp = want[f['f']]
                if kind == 'param':
                    rl = H.root_local(f['e'])
                    site = bs.get(rl['hid'], {}) if rl is not None else {}
                    ok = site.get('kind') == 'param' and site.get('index') == exp
                    ck.ob('R12.2', 'item-field|%s' % f['f'], ok, L.loc(st), 'field %s <- parameter #%s' % (f['f'], site.get('index')))
                else:
                    acc = next((x for x in H.calls_in(f['e']) if x.get('k') == 'MCall' and 'LayoutItemAttached' in (H.callee_decl(x) or '')), None)
                    key = accessor_key(L, acc) if acc is not None else None
                    ck.ob('R12.2', 'item-field|%s' % f['f'], key == exp, L.loc(st), 'field %s <- accessor key %s' % (f['f'], key))
        # all callers pass (Some(slot0), Some(slot1)) or (None, None)
        n_calls = 0
        for fn in L.fn_list:
            for c in H.calls_in(fn['body']):
                if H.is_call_to(c, 'LayoutItem::new'):
                    n_calls += 1
                    a0, a1 = c['args'][0], c['args'][1]
                    def kind_of(a):
                        a = H.strip_refs(a)
                        if a.get('k') == 'Path' and (a.get('def') or '').endswith('Option::None'):
                            return 'none'
                        if a.get('k') == 'Call' and (a.get('def') or '').endswith('Option::Some'):
                            return index_kind(L, fn, a['args'][0])
                        return 'unknown'
                    k0, k1 = kind_of(a0), kind_of(a1)
                    ok = (k0, k1) in (('row', 'column'), ('none', 'none'))
                    ck.ob('R12.2', 'item-position-args|%s' % short(fn['path'].split('::{closure')[0]), ok, L.loc(c), 'LayoutItem::new(%s, %s, ..)' % (k0, k1), fn=fn['path'])
        ck.floor('R12.2', n_calls, 4, 'LayoutItem::new call sites')
        amap = {}
        for n in walk(li['body']):
            if n.get('k') == 'If' and n['c'].get('k') == 'LetCond':
                src = [x.get('f') for x in walk(n['c']['e']) if x.get('k') == 'Field' and x.get('adt', '').endswith('LayoutItem')]
                tups = [t for t in walk(n['then']) if t.get('k') == 'Tup' and len(t['es']) == 2 and H.lit_value(t['es'][0]) is not None]
                if src and tups:
                    # the written value must be the bound variable
                    pb = [b['hid'] for b in H.pat_bindings(n['c']['pat'])]
                    rl = H.root_local(tups[0]['es'][1])
                    amap[H.lit_value(tups[0]['es'][0])] = src[0] if (rl is not None and rl.get('hid') in pb) else src[0] + '(value not the bound field)'
        expect = {'alignment': 'alignment', 'column': 'column', 'colspan': 'column_span', 'row': 'row', 'rowspan': 'row_span'}
        ck.ob('R12.2', 'item-attributes', amap == expect, L.loc(li['body']), 'attribute -> field: %s' % amap)

    # ---- R12.3 bounds ------------------------------------------------------------------------
    pn = L.fn('uigen::layout::LayoutIndexCounter::parse_next')
    mp = L.fn('uigen::layout::maybe_parse_layout_index')
    if pn is None or mp is None:
        ck.floor('R12.3', 0, 1, 'fns parse_next / maybe_parse_layout_index')
    else:
        ck.analysed(pn['path'])
        m = next((n for n in walk(pn['body']) if n.get('k') == 'Match' and any('LayoutFlow' in (a['pat'].get('def') or '') for a in n['arms'])), None)
        if m is None:
            ck.ob('R12.3', 'bounds-match', False, '', 'match on the flow not found in parse_next')
        else:
            for arm in m['arms']:
                var = (arm['pat'].get('def') or '').split('::')[-1]
                binds = {b['hid'] for b in H.pat_bindings(arm['pat'])}
                vals = [v for v in H.value_exprs(arm['body'])]
                tup = vals[0] if len(vals) == 1 and vals[0].get('k') == 'Tup' and len(vals[0]['es']) == 2 else None
                if tup is None:
                    ck.ob('R12.3', 'bounds|%s' % var, False, L.loc(arm), 'arm does not yield a (max_row, max_column) pair')
                    continue
                own = 1 if var == 'LeftToRight' else 0
                o = H.strip_refs(tup['es'][own])
                ok_own = (o.get('k') == 'Binary' and o.get('op') == 'Sub' and H.lit_value(o['r']) == 1
                          and (H.root_local(o['l']) or {}).get('hid') in binds)
                other = H.strip_refs(tup['es'][1 - own])
                ok_other = other.get('k') == 'Path' and other.get('res') == 'def'
                ck.ob('R12.3', 'bounds|%s' % var, ok_own and ok_other, L.loc(arm),
                      '%s: (max_row, max_column) = (%s, %s)' % (var, pp(tup['es'][0], maxlen=20), pp(tup['es'][1], maxlen=20)))
            # slots reach the right calls
            bs = H.binding_sites(pn)
            calls = [c for c in H.calls_in(pn['body']) if H.is_call_to(c, 'maybe_parse_layout_index')]
            seen = {}
            for c in calls:
                acc = next((x for x in H.calls_in(c['args'][1]) if 'LayoutItemAttached' in (H.callee_decl(x) or '')), None)
                key = accessor_key(L, acc) if acc is not None else None
                rl = H.root_local(c['args'][2])
                site = bs.get(rl['hid'], {}) if rl is not None else {}
                slot = H._slot_of_pat(site['pat'], rl['hid']) if site.get('kind') == 'let' else None
                seen[key] = slot
            ck.ob('R12.3', 'bound-paired-with-axis', seen == {'row': 0, 'column': 1}, L.loc(pn['body']), 'accessor key -> slot of (max_row, max_column): %s' % seen)
            nx = next((c for c in H.calls_in(pn['body']) if c.get('m') == 'next'), None)
            if nx is not None:
                order = []
                for a in nx['args']:
                    srcs = [a]
                    b_ = H.binding_sites(pn).get((H.root_local(a) or {}).get('hid')) if H.strip_refs(a).get('k') == 'Path' else None
                    if b_ is not None and b_['kind'] == 'let' and b_['node'].get('init') is not None:
                        srcs.append(b_['node']['init'])
                    acc = next((x for s_ in srcs for x in H.calls_in(s_) if 'LayoutItemAttached' in (H.callee_decl(x) or '')), None)
                    order.append(accessor_key(L, acc) if acc is not None else None)
                ck.ob('R12.3', 'next-arg-order', order == ['row', 'column'], L.loc(nx), 'self.next(%s)' % order)
        ifs = [n for n in walk(mp['body']) if n.get('k') == 'If']
        conds = []
        for n in ifs:
            c = n['c']
            if c.get('k') == 'Binary':
                vals = list(H.value_exprs(n['then']))
                none = bool(vals) and all(v.get('k') == 'Path' and (v.get('def') or '').endswith('Option::None') for v in vals)
                diag = any(H.is_call_to(x, 'Diagnostic::error') for x in H.calls_in(n['then']))
                conds.append((c['op'], pp(c['r'], maxlen=12), none and diag))
        ck.ob('R12.3', 'index-range-check', ('Lt', '0', True) in conds and any(op == 'Gt' and ok for op, _, ok in conds), L.loc(mp['body']),
              'rejections in maybe_parse_layout_index: %s' % conds)

    # ---- R12.4 mirror cross-check ---------------------------------------------------------------
    nx = L.fn('uigen::layout::LayoutIndexCounter::next')
    if nx is None:
        ck.floor('R12.4', 0, 1, 'fn LayoutIndexCounter::next')
    else:
        ck.analysed(nx['path'])

        def mirror(s):
            swaps = [('next_row', '\0A'), ('next_column', 'next_row'), ('\0A', 'next_column'),
                     ('LeftToRight', '\0B'), ('TopToBottom', 'LeftToRight'), ('\0B', 'TopToBottom'),
                     ('columns', '\0C'), ('rows', 'columns'), ('\0C', 'rows')]
            for a, b in swaps:
                s = s.replace(a, b)
            return s

        def sort_arms(node):
            import copy
            n2 = copy.deepcopy(node)
            for m in walk(n2):
                if m.get('k') == 'Match':
                    m['arms'].sort(key=lambda a: pp(a['pat']))
            return n2

        def norm(node, rename):
            s = pp(sort_arms(node))
            for a, b in rename.items():
                s = re.sub(r'\b%s\b' % re.escape(a), b, s)
            return s
        # explicit-position cases, read path-wise (if-let chain or `match (row, column)` alike): which parameters are Some on the
        # path, and what is assigned to the cursor fields there
        bs = H.binding_sites(nx)
        pidx = {h: b['index'] for h, b in bs.items() if b['kind'] == 'param'}     # self=0, row=1, column=2

        def some_params(pat, scrut):
            """{param index: binding hid or None} for the parameters this pattern requires to be Some; [] for None-patterns."""
            out = {}
            nones = set()
            p = pat
            while p.get('k') in ('PRef', 'PDeref'):
                p = p['p']
            sc = H.strip_refs(scrut)
            parts = list(zip(p['subs'], sc['es'])) if p.get('k') == 'PTup' and sc.get('k') == 'Tup' and len(p['subs']) == len(sc['es']) else [(p, sc)]
            for sp_, se in parts:
                r = H.root_local(se)
                i = pidx.get((r or {}).get('hid'))
                if i is None:
                    continue
                q = sp_
                while q.get('k') in ('PRef', 'PDeref'):
                    q = q['p']
                if q.get('k') == 'PTS' and (q.get('def') or '').endswith('Option::Some'):
                    b = H.pat_bindings(q)
                    out[i] = b[0]['hid'] if b else None
                elif q.get('k') == 'PPath' and (q.get('def') or '').endswith('Option::None'):
                    nones.add(i)
            return out, nones
        first = None
        for st in nx['body'].get('stmts', []):
            e = st.get('e') or st.get('init')
            if e is not None and e.get('k') in ('If', 'Match') and st.get('k') != 'Let':
                first = e
                break
        cases = {}
        stray = []
        if first is not None:
            def ev(n):
                if n.get('k') == 'Assign' and n['l'].get('k') == 'Field' and n['l'].get('f') in ('next_row', 'next_column'):
                    return n
                return None
            for ctx, evs, ex in H.paths(first, ev):
                somes, nones, ren = {}, set(), {}
                for lab, node in ctx:
                    if lab == 'then' and node['c'].get('k') == 'LetCond':
                        so, no = some_params(node['c']['pat'], node['c']['e'])
                        somes.update(so)
                        nones |= no
                    elif lab == 'arm':
                        par = H.parents(nx).get(id(node))
                        if par is not None and par.get('k') == 'Match' and par is first:
                            so, no = some_params(node['pat'], par['e'])
                            somes.update(so)
                            nones |= no
                for i, h in somes.items():
                    if h is not None:
                        ren[bs[h]['bind']['name']] = 'ROWV' if i == 1 else 'COLV'
                key = tuple(sorted(i for i in somes))
                if not key:
                    if evs:
                        stray.append(sorted('%s := %s' % (a['l']['f'], norm(a['r'], ren)) for a in evs))
                    continue      # neither given: the cursor stays where it is
                # several paths of one case differ only by the nested flow match: events of the outer case are the same set
                sig = sorted('%s := %s' % (a['l']['f'], norm(a['r'], ren)) for a in evs)
                cases.setdefault(key, set()).add(tuple(sig))
        got_keys = sorted(cases)
        ck.ob('R12.4', 'explicit-chain-shape', got_keys == [(1,), (1, 2), (2,)] and all(len(v) == 1 for v in cases.values()), L.loc(nx['body']),
              'explicit-position cases found: %s (both, row only, column only)' % got_keys if all(len(v) == 1 for v in cases.values()) else
              'a case moves the cursor on some of its paths only: %s' % {k: sorted(v) for k, v in cases.items() if len(v) != 1})
        ck.ob('R12.4', 'nothing-given-moves-nothing', not stray, L.loc(nx['body']),
              'without an explicit position the cursor is not moved before the cell is taken' if not stray else 'assignments with neither given: %s' % stray)
        if got_keys == [(1,), (1, 2), (2,)] and all(len(v) == 1 for v in cases.values()):
            def arms_canon(s_):
                def fix(m):
                    arms = sorted(x.strip() for x in m.group(2).split(', '))
                    return 'match %s { %s }' % (m.group(1), ', '.join(arms))
                return re.sub(r'match ([^{]+) \{ ([^{}]*(?:\{[^{}]*\}[^{}]*)*) \}', fix, s_)

            def mirror2(sig):
                out = []
                for x in sig:
                    y = mirror(x).replace('ROWV', '\0R').replace('COLV', 'ROWV').replace('\0R', 'COLV')
                    out.append(arms_canon(y))
                return sorted(out)
            s_row = list(next(iter(cases[(1,)])))
            s_col = sorted(arms_canon(x) for x in next(iter(cases[(2,)])))
            ck.ob('R12.4', 'row-only~column-only-mirror', mirror2(s_row) == s_col, L.loc(first),
                  'the row-only and column-only cases are mirror images' if mirror2(s_row) == s_col else
                  'row-only case %s is not the mirror image of column-only case %s' % (s_row, s_col))
            both = sorted(next(iter(cases[(1, 2)])))
            ck.ob('R12.4', 'both-given-assigns-both', both == ['next_column := COLV', 'next_row := ROWV'], L.loc(first), 'assignments with both given: %s' % both)
        adv = [n for n in walk(nx['body']) if n.get('k') == 'Match' and any(a['pat'].get('k') == 'PStruct' and H.pat_bindings(a['pat']) for a in n['arms'])]
        if len(adv) != 1 or len(adv[0]['arms']) != 2:
            ck.ob('R12.4', 'advance-shape', False, L.loc(nx['body']), 'expected one 2-arm match that advances the cursor')
        else:
            a, b = adv[0]['arms']
            sa = pp(a['pat']) + ' => ' + pp(a['body'])
            sb = pp(b['pat']) + ' => ' + pp(b['body'])
            ck.ob('R12.4', 'advance-arms-mirror', mirror(sa) == sb, L.loc(adv[0]),
                  'LeftToRight and TopToBottom advance arms are mirror images' if mirror(sa) == sb else 'advance arms differ beyond the row/column swap: `%s` vs `%s`' % (sa[:150], sb[:150]))
            # the wrap uses the flow's own count: (x + 1) % count
            rems = [n for n in walk(a['body']) if n.get('k') == 'Binary' and n.get('op') == 'Rem']
            binds = {x['hid'] for x in H.pat_bindings(a['pat'])}
            ok = len(rems) == 1 and (H.root_local(rems[0]['r']) or {}).get('hid') in binds and H.lit_value(rems[0]['l'].get('r', {})) == 1
            ck.ob('R12.4', 'wrap-at-own-count', ok, L.loc(a), 'advance wraps with (cursor + 1) %% <count bound by the arm>')
        # the returned cell is the cursor *before* advancing
        vals = list(H.return_exprs(nx['body']))
        ok = False
        if len(vals) == 1:
            rl = H.root_local(vals[0])
            site = H.binding_sites(nx).get(rl['hid'], {}) if rl is not None else {}
            if site.get('kind') == 'let' and adv:
                ok = H.lexically_precedes_dominating(nx, site['node'].get('init'), adv[0]) and pp(site['node']['init']) == '(self.next_row, self.next_column)'
        ck.ob('R12.4', 'returns-cell-before-advance', ok, L.loc(nx['body']), 'returns the (next_row, next_column) pair captured before the advance')

    # ---- R12.6 recorded settings are never dropped: the per-row/column lists only grow ----------------------------------------------
    ck.rule('R12.6', 'a recorded per-row/column setting is never lost: the lists only grow')
    mi = L.fn('uigen::layout::maybe_insert_into_opt_i32_array')
    if mi is None:
        ck.floor('R12.6', 0, 1, 'fn maybe_insert_into_opt_i32_array')
    else:
        ck.analysed(mi['path'])
        arr = next((b for b in H.binding_sites(mi).values() if b['kind'] == 'param' and b['index'] == 0), None)
        shr = [c for c in H.calls_in(mi['body']) if c.get('m') in ('resize', 'resize_with', 'truncate', 'clear', 'pop', 'remove', 'drain', 'swap_remove', 'split_off', 'retain') and
               arr is not None and (H.root_local(c['recv']) or {}).get('hid') == arr['bind']['hid']]
        bad = []
        for c in shr:
            if c['m'] not in ('resize', 'resize_with'):
                bad.append('%s()' % c['m'])
                continue
            # growing only: under `index >= array.len()` (or `array.len() <= index`, `<`/`>` forms)
            g = None
            for a in H.ancestors(mi, c):
                if a.get('k') == 'If' and any(x is c for x in walk(a['then'])):
                    t = H.strip_refs(a['c'])
                    if t.get('k') == 'Binary' and t.get('op') in ('Ge', 'Gt', 'Le', 'Lt'):
                        l_len = any(x.get('m') == 'len' for x in H.calls_in(t['l']))
                        r_len = any(x.get('m') == 'len' for x in H.calls_in(t['r']))
                        if (t['op'] in ('Ge', 'Gt') and r_len and not l_len) or (t['op'] in ('Le', 'Lt') and l_len and not r_len):
                            g = a
            if g is None:
                bad.append('%s() without `index >= len` in front' % c['m'])
        ck.ob('R12.6', 'lists-only-grow', not bad and bool(shr), L.loc(shr[0]) if shr else L.loc(mi['body']),
              'the list is resized only under `index >= array.len()`: existing entries stay' if not bad and shr else
              'the list can shrink (%s): Vec::resize_with also truncates, so filling a lower empty slot drops the settings recorded at higher indices' % bad, fn=mi['path'])

        # the value written into the slot is the value given, whatever it is (0 is a value: a storage type that cannot hold it, such as
        # Option<NonZeroI32>, turns an explicit 0 into "unset")
        valp = next((b for b in H.binding_sites(mi).values() if b['kind'] in ('letcond', 'arm') and b['bind'].get('name', '').startswith('v')), None)
        val_hids = set()
        vparam = next((b for b in H.binding_sites(mi).values() if b['kind'] == 'param' and b['index'] == 2), None)
        for b in H.binding_sites(mi).values():
            if b['kind'] in ('letcond', 'arm', 'let') and vparam is not None:
                src = b['node'].get('e') if b['kind'] == 'letcond' else b['node'].get('init') if b['kind'] == 'let' else (H.parents(mi).get(id(b['node'])) or {}).get('e')
                if src is not None and (H.root_local(src) or {}).get('hid') == vparam['bind']['hid'] and 'i32' == (L.tys[b['bind']['t']] if 't' in b['bind'] else ''):
                    val_hids.add(b['bind']['hid'])
        stores = [n for n in walk(mi['body']) if n.get('k') == 'Assign' and n['l'].get('k') == 'Index' and arr is not None and (H.root_local(n['l']['e']) or {}).get('hid') == arr['bind']['hid']]
        stores += [c for c in H.calls_in(mi['body']) if c.get('m') in ('replace', 'insert', 'get_or_insert') and H.strip_refs(c['recv']).get('k') == 'Index' and arr is not None and (H.root_local(c['recv']) or {}).get('hid') == arr['bind']['hid']]
        bad = []
        for st in stores:
            v = H.strip_refs(st['r']) if st.get('k') == 'Assign' else H.strip_refs(st['args'][0])
            if st.get('k') == 'Assign':
                if v.get('k') == 'Call' and (v.get('def') or '').endswith('Option::Some') and len(v['args']) == 1:
                    v = H.strip_refs(v['args'][0])
                elif v.get('k') == 'MCall' and v.get('m') == 'into' or (v.get('k') == 'Call' and (v.get('def') or '').endswith('From::from')):
                    v = H.strip_refs(v['recv'] if v.get('k') == 'MCall' else v['args'][0])
                else:
                    bad.append(pp(st, maxlen=60))
                    continue
            if not (v.get('k') == 'Path' and v.get('hid') in val_hids):
                bad.append(pp(st, maxlen=60))
        elem = L.ty(arr['bind']) if arr is not None else ''
        ok = bool(stores) and not bad and bool(val_hids)
        ck.ob('R12.6', 'stores-the-value-given', ok, L.loc(stores[0]) if stores else L.loc(mi['body']),
              'the slot receives Some(<the i32 given>) unchanged' if ok else
              'the slot does not simply receive Some(value) (%s): some values (an explicit 0) are recorded as "unset" and serialized as the fill value' % (bad or 'no store found'), fn=mi['path'])
        lat = L.adts.get('uigen::layout::LayoutAttributes') or {}
        ftys = {f.get('name'): f.get('ty') for v_ in (lat.get('variants') or []) for f in (v_.get('fields') or [])}
        ck.floor('R12.6', len(ftys), 5, 'fields of LayoutAttributes')
        if ftys:
            odd = {n_: t for n_, t in ftys.items() if 'Option<i32>' not in (t or '')}
            ck.ob('R12.6', 'slots-can-hold-every-i32', not odd, '', 'LayoutAttributes lists are Vec<Option<i32>>' if not odd else 'list element types %s cannot hold every i32 that an attachment can carry' % odd)

    # ---- R12.7 the index that is range-checked and recorded is the value the source denotes, and the .ui on disk is this run's ---------------
    ck.rule('R12.7', 'index values reach the layout code unchanged and the written .ui is the one just built (shared with C03, C01, C15)')
    import rules.c03 as c03
    s3 = _core.Shared(ck, 'R12.7', lambda r, k: r == 'R3.4' and k.startswith(('get_i32|', 'get_enum|', 'get_simple_value|')), 'C03:',
                      ' [a row/column/count that is folded on its way from the constant to the range check passes the check with another value]')
    c03.run(s3)
    import rules.c01 as c01
    s1 = _core.Shared(ck, 'R12.7', lambda r, k: r == 'R1.2' and ('|Integer|' in k or k.startswith('overflow-is-error')), 'C01:',
                      ' [indices may be constant expressions: `QLayout.column: 7 % 3` must be column 1]')
    c01.run(s1)
    import rules.c15 as c15
    s15 = _core.Shared(ck, 'R12.7', lambda r, k: (r == 'R15.4' and k.endswith('|skipped-only-if-same-bytes')) or (r == 'R15.5' and (k == 'ui-path-gets-form-xml' or k.startswith('buffer-starts-empty|'))), 'C15:',
                       ' [a layout edit that keeps the length of the .ui must still replace the file]')
    c15.run(s15)
    ck.floor('R12.7', s3.count + s1.count + s15.count, 20, 'shared C03 R3.4 / C01 R1.2 / C15 R15.4-5 obligations')

    # ---- R12.8 the cursor wraps modulo the flow's count: the count a flow is built with is at least 1 ----------------------------------------
    ck.rule('R12.8', 'every divisor of the cursor arithmetic is a flow count, and no flow is built with a count below 1')
    ck.explanation += (' R12.8 every i32 `%`/`/` in uigen::layout divides by a count field of a LayoutFlow variant (bound by pattern) or a non-zero constant; at every '
                       'construction of such a variant the lower bound of the field value, read backwards through lets, the local closure, and_then/map/unwrap_or and the '
                       'comparisons that dominate the `Some(c)`, is at least 1 (a zero count would abort the run in the modulo).')
    flow_counts_positive(ck, L, 'R12.8')


class _LB:
    """lower bounds of integer expressions, read backwards from a use (literals, constants, let chains, local closures, Option plumbing and
    the comparisons that dominate the use). None = not known."""

    def __init__(self, L):
        self.L = L
        from aeval import Interp
        self.I = Interp(L)

    def const(self, e):
        e = H.strip_refs(e)
        if e.get('k') == 'Lit' and isinstance(e.get('v'), int):
            return e['v']
        if e.get('k') == 'Unary' and e.get('op') == 'Neg':
            v = self.const(e['e'])
            return -v if v is not None else None
        if e.get('k') == 'Path' and e.get('dk') in ('Const', 'AssocConst'):
            try:
                v = self.I.const_value(e['def'])
            except Exception:  # noqa
                return None
            return v if isinstance(v, int) and not isinstance(v, bool) else None
        return None

    def guards(self, fn, site, hid):
        """the greatest lower bound the conditions around site give the local hid (comparisons with constants, through !, && and ||)"""
        lb = None
        for a in H.ancestors(fn, site):
            if a.get('k') != 'If' or a['c'].get('k') not in ('Binary', 'Unary'):
                continue
            in_then = any(x is site for x in walk(a['then']))
            in_else = 'els' in a and any(x is site for x in walk(a['els']))
            if not (in_then or in_else):
                continue
            for b in self.bounds_from(a['c'], in_then, hid):
                if lb is None or b > lb:
                    lb = b
        return lb

    def bounds_from(self, c, holds, hid):
        """lower bounds on hid that follow from `c` being true (holds) or false"""
        c = H.strip_refs(c)
        while c.get('k') in ('Paren', 'DropTemps'):
            c = H.strip_refs(c['e'])
        if c.get('k') == 'Unary' and c.get('op') == 'Not':
            return self.bounds_from(c['e'], not holds, hid)
        if c.get('k') != 'Binary':
            return []
        op = c['op']
        if op in ('And', 'Or'):
            # a && b true: both true; a || b false: both false; the other two cases give nothing for certain
            if (op == 'And') == holds:
                return self.bounds_from(c['l'], holds, hid) + self.bounds_from(c['r'], holds, hid)
            return []
        l, r = H.strip_refs(c['l']), H.strip_refs(c['r'])
        if r.get('k') == 'Path' and r.get('hid') == hid and l.get('hid') != hid:
            l, r = r, l
            op = {'Lt': 'Gt', 'Le': 'Ge', 'Gt': 'Lt', 'Ge': 'Le'}.get(op, op)
        if not (l.get('k') == 'Path' and l.get('hid') == hid):
            return []
        k = self.const(r)
        if k is None:
            return []
        b = ({'Gt': k + 1, 'Ge': k, 'Eq': k} if holds else {'Le': k + 1, 'Lt': k}).get(op)
        return [b] if b is not None else []

    def lb(self, fn, e, depth=0):
        if depth > 20:
            return None
        e = H.strip_refs(e)
        k = e.get('k')
        c = self.const(e)
        if c is not None:
            return c
        if k == 'Path' and e.get('res') == 'local':
            g = self.guards(fn, e, e['hid'])
            b = H.binding_sites(fn).get(e['hid'])
            v = None
            if b is not None and b['kind'] == 'let' and b['pat'].get('k') == 'Bind' and b['node'].get('init') is not None and \
                    not any(n.get('k') in ('Assign', 'AssignOp') and H.strip_refs(n['l']).get('hid') == e['hid'] for n in walk(fn['body'])):
                v = self.lb(fn, b['node']['init'], depth + 1)
            cands = [x for x in (g, v) if x is not None]
            return max(cands) if cands else None
        if k in ('Block', 'If', 'Match'):
            vals = [self.lb(fn, v, depth + 1) for v in H.value_exprs(e) if not H.diverges_always(v)]
            return None if not vals or any(v is None for v in vals) else min(vals)
        if k == 'Call' and e['f'].get('k') == 'Path' and e['f'].get('res') == 'local':
            b = H.binding_sites(fn).get(e['f']['hid'])
            cl = H.strip_refs(b['node']['init']) if b is not None and b['kind'] == 'let' and b['node'].get('init') is not None else None
            if cl is not None and cl.get('k') == 'Closure':
                return self.lb(fn, cl['body'], depth + 1)
            return None
        if k in ('Call', 'MCall') and (H.callee(e) or e.get('def')):
            f2 = self.L.fn(H.callee(e) or '?') or self.L.fn(e.get('def') or '?')
            if f2 is not None and f2.get('body') is not None and f2.get('dk') in ('Fn', 'AssocFn'):
                vals = [self.lb(f2, v, depth + 1) for v in H.return_exprs(f2['body']) if not H.diverges_always(v)]
                return None if not vals or any(v is None for v in vals) else min(vals)
        if k == 'MCall' and e.get('m') == 'clamp' and len(e['args']) == 2:
            return self.lb(fn, e['args'][0], depth + 1)
        if k == 'MCall' and e.get('m') == 'unwrap_or' and len(e['args']) == 1:
            a, s = self.lb(fn, e['args'][0], depth + 1), self.lb_some(fn, e['recv'], depth + 1)
            return None if a is None or s is None else min(a, s)
        if k == 'MCall' and e.get('m') in ('max',) and len(e['args']) == 1:
            a, s = self.lb(fn, e['args'][0], depth + 1), self.lb(fn, e['recv'], depth + 1)
            cands = [x for x in (a, s) if x is not None]
            return max(cands) if cands else None
        return None

    def lb_some(self, fn, e, depth=0):
        """lower bound of the payload whenever the Option e is Some"""
        e = H.strip_refs(e)
        if e.get('k') == 'MCall' and e.get('m') in ('and_then', 'map', 'filter_map') and e['args'] and H.strip_refs(e['args'][0]).get('k') == 'Closure':
            cl = H.strip_refs(e['args'][0])
            out = []
            for v in H.value_exprs(cl['body']):
                v = H.strip_refs(v)
                if H.diverges_always(v) or (v.get('k') == 'Path' and (v.get('def') or '').endswith('Option::None')):
                    continue
                if e['m'] == 'map':
                    out.append(self.lb(fn, v, depth + 1))
                elif v.get('k') == 'Call' and (v.get('def') or '').endswith('Option::Some') and len(v['args']) == 1:
                    out.append(self.lb(fn, v['args'][0], depth + 1))
                else:
                    out.append(None)
            return None if not out or any(x is None for x in out) else min(out)
        if e.get('k') == 'Call' and (e.get('def') or '').endswith('Option::Some') and len(e['args']) == 1:
            return self.lb(fn, e['args'][0], depth + 1)
        return None


def flow_counts_positive(ck, L, rule):
    fns = [f for f in L.fn_list if f['path'].startswith('uigen::layout::') and f.get('body') is not None and f.get('dk') in ('Fn', 'AssocFn')]
    divisors = set()
    n_div = 0
    for fn in fns:
        for n in walk(fn['body']):
            if not (n.get('k') in ('Binary', 'AssignOp') and n.get('op') in ('Rem', 'Div') and 'i32' == (L.ty(n['r']) or '')):
                continue
            n_div += 1
            r = H.strip_refs(n['r'])
            b = H.binding_sites(fn).get(r.get('hid')) if r.get('k') == 'Path' and r.get('res') == 'local' else None
            src = None
            if b is not None and b['kind'] in ('arm', 'letcond'):
                for p in walk(b['pat']):
                    if p.get('k') == 'PStruct' and 'LayoutFlow::' in (p.get('def') or ''):
                        for f_ in p.get('fields', []):
                            if any(x.get('hid') == r['hid'] for x in H.pat_bindings(f_['p'])):
                                src = (p['def'].split('::')[-1], f_['f'])
            lit = _LB(L).const(r)
            ok = src is not None or (lit is not None and lit != 0)
            if src:
                divisors.add(src)
            ck.ob(rule, 'divisor-is-a-flow-count|%s|%s' % (short(fn['path']), pp(n, maxlen=40)), ok, L.loc(n),
                  'the divisor is %s' % ('%s::%s' % src if src else 'the constant %s' % lit) if ok else 'the divisor `%s` is neither a count of the flow nor a non-zero constant' % pp(r, maxlen=30), fn=fn['path'])
    ck.floor(rule, n_div, 2, 'divisions in uigen::layout')
    ev = _LB(L)
    n_ctor = 0
    for fn in L.fn_list:
        if fn.get('body') is None or fn.get('dk') not in ('Fn', 'AssocFn'):
            continue
        for n in walk(fn['body']):
            if n.get('k') == 'Struct' and 'uigen::layout::LayoutFlow::' in (n.get('def') or ''):
                var = n['def'].split('::')[-1]
                for f_ in n.get('fields', []):
                    if (var, f_['f']) not in divisors:
                        continue
                    n_ctor += 1
                    lb = ev.lb(fn, f_['e'])
                    ck.ob(rule, 'count-at-least-one|%s|%s::%s' % (short(fn['path']), var, f_['f']), lb is not None and lb >= 1, L.loc(n),
                          'every value that reaches %s is at least %s' % (f_['f'], lb) if lb is not None and lb >= 1 else
                          '%s can be %s: the cursor divides by it (a zero count aborts the run; no form, no diagnostic)' % (f_['f'], 'as low as %d' % lb if lb is not None else 'any value (lower bound not established)'), fn=fn['path'])
    ck.floor(rule, n_ctor, 2, 'constructions of a LayoutFlow with a count')
