"""C18: QML components in directories resolve as custom widgets, in any order."""
import re
from facts import walk, short, pp
import hirutil as H

LEVEL = 'other'
TECHNIQUE = 'work-list termination guards and post-dominating insert over typed HIR, key-normalisation provenance for directory module ids, iterator-chain shape of the custom-widget pipeline, field provenance, loop-exit check of the per-source loop'
LEVEL_TEXT = ('Decides the structural conditions of directory discovery and custom-widget listing: the directory work list skips visited '
              'modules and registers every popped directory under the very key it was popped with; every directory module id is built from '
              'a normalised path (writer and reader keys agree); an import is skipped only together with an error; the custom-widget '
              'pipeline de-duplicates globally (unique / set), not adjacently; customwidget fields come from the class name, its first '
              'public super class and the header naming rule; components are registered with their own root type as super class. The '
              'per-source loop of the CLI has an early exit: reported as a known finding (outputs depend on argument order when another '
              'source fails).')
LEVEL_NOTE = ('Trusted: canonicalize_utf8 as the normal form; read_dir order is an input. Not decided: order independence as a relation '
              'between two runs beyond the loop-exit condition.')
DESIGN_REF = 'DESIGN.md section 4, C18'


def run(ck):
    if getattr(ck, 'depth', 0) >= 2:
        return      # a shared run of a shared run: nothing of it is selected, and mutual sharing must end somewhere
    F = ck.facts
    L = F.lib
    B = F.bin
    ck.explanation = (
        'R18.1 populate_directories: while-let pops a directory; (head guard contains_module => continue) or every push guarded by '
        '!contains_module; insert_module(Directory(<popped dir>)) is the last, unconditional statement of the loop body. R18.1k every '
        'ModuleId(Buf)::Directory(..) constructed in the library/CLI takes a path that derives from normalize_path(..) (or is a '
        'parameter/popped key already in normal form). R18.2 UiForm::build custom widgets: flat_iter -> filter(is_custom_type) -> '
        'map(class) -> unique -> filter_map(from_class) -> collect. R18.3 CustomWidget::from_class field provenance. R18.4 '
        'make_doc_component_data: with_super(doc.type_name(), <root object type name>); base directory imported first; inside the import '
        'loop `continue` only after an error push; is_qml_file is the only admission test in the directory scan. R18.5 in the loop over '
        'sources in generate_ui a diagnosed source never ends the loop; nor does any other error (known finding).')
    ck.rule('R18.1', 'directory discovery terminates and registers every visited directory')
    ck.rule('R18.1k', 'directory module ids are built from normalised paths on both the writer and the reader side')
    ck.rule('R18.2', 'each custom widget class is listed once')
    ck.rule('R18.3', 'customwidget class / extends / header come from the class, its first public super class and the header rule')
    ck.rule('R18.4', 'components are registered with their root type and all their imports')
    ck.rule('R18.5', "one source's failure does not decide another source's outputs")
    ck.rule('R18.6', 'X.qml is type X: the type name is the stem of the path the document is asked for by (shared with C15)')
    ck.rule('R18.7', 'the walk over the root types of components terminates on cycles (shared with C17)')
    ck.rule('R18.1n', 'the path normaliser maps every spelling of a directory to one key')

    # ---- R18.1 --------------------------------------------------------------------------
    pd = L.fn('qmldir::populate_directories')
    if pd is None:
        ck.floor('R18.1', 0, 1, 'fn populate_directories')
    else:
        ck.analysed(pd['path'])
        loop = next((n for n in walk(pd['body']) if n.get('k') == 'Loop' and any(x.get('m') == 'pop' for x in H.calls_in(n['body'].get('e') or n['body']))), None)
        if loop is None:
            ck.ob('R18.1', 'worklist-loop', False, '', 'while let Some(dir) = pending.pop() not found')
        else:
            # the `while let` desugars to loop { if let Some(x) = pop() { body } else { break } }
            iff = loop['body'].get('e')
            body = iff['then'] if iff is not None and iff.get('k') == 'If' else None
            pb = H.pat_bindings(iff['c']['pat']) if iff is not None and iff['c'].get('k') == 'LetCond' else []
            popped = pb[0]['hid'] if pb else None
            stmts = body.get('stmts', []) if body else []
            head = stmts[0] if stmts else None
            he = (head.get('e') or head.get('init')) if head else None
            head_guard = he is not None and he.get('k') == 'If' and any(x.get('m') == 'contains_module' for x in H.calls_in(he['c'])) and \
                he['c'].get('k') != 'Unary' and any(x.get('k') == 'Continue' for x in walk(he['then']))
            pushes = [c for c in H.calls_in(body) if c.get('m') == 'push' and (H.root_local(c['recv']) or {}).get('hid') == (H.root_local(next(x for x in H.calls_in(iff['c']['e']) if x.get('m') == 'pop')['recv']) or {}).get('hid')] if body else []
            guarded = []
            for p in pushes:
                g = False
                for anc in H.ancestors(pd, p):
                    if anc.get('k') == 'Arm' and 'guard' in anc and anc['guard'].get('k') == 'Unary' and anc['guard'].get('op') == 'Not' and \
                            any(x.get('m') == 'contains_module' for x in H.calls_in(anc['guard'])):
                        g = True
                    if anc.get('k') == 'If' and anc['c'].get('k') == 'Unary' and anc['c'].get('op') == 'Not' and any(x.get('m') == 'contains_module' for x in H.calls_in(anc['c'])) and any(x is p for x in walk(anc['then'])):
                        g = True
                guarded.append(g)
            ck.ob('R18.1', 'visited-guard', head_guard or (bool(pushes) and all(guarded)), L.loc(loop),
                  'head guard: %s; %d/%d pushes guarded by !contains_module' % (head_guard, sum(guarded), len(pushes)))
            ins = [c for c in H.calls_in(body) if c.get('m') == 'insert_module'] if body else []
            ok = False
            why = 'insert_module not found'
            if len(ins) == 1:
                last = stmts[-1] if 'e' not in body else None
                tail = body.get('e')
                is_last = (tail is not None and any(x is ins[0] for x in walk(tail))) or (last is not None and any(x is ins[0] for x in walk(last.get('e') or last.get('init') or {'k': 'x'})))
                # unconditional: no If/Match/Closure between the call and the body block
                cond = any(a.get('k') in ('If', 'Match', 'Closure', 'For', 'Loop', 'Arm') for a in H.ancestors(pd, ins[0]) if any(x is a for x in walk(body)) and a is not body)
                key_same = any((H.root_local(x) or {}).get('hid') == popped for x in walk(ins[0]['args'][0]) if x.get('k') == 'Path')
                ok = is_last and not cond and key_same
                why = 'last statement: %s, unconditional: %s, keyed by the popped directory: %s' % (is_last, not cond, key_same)
            ck.ob('R18.1', 'popped-directory-registered', ok, L.loc(ins[0]) if ins else '', why)
            # only QML files are admitted
            adm = [c for c in H.calls_in(body) if H.is_call_to(c, 'is_qml_file')] if body else []
            ok = len(adm) == 1 and any(a.get('k') == 'If' and a['c'].get('k') == 'Unary' and any(x.get('k') == 'Continue' for x in walk(a['then'])) for a in H.ancestors(pd, adm[0]))
            ck.ob('R18.4', 'admission-is-qml-file', ok, L.loc(adm[0]) if adm else '', 'if !is_qml_file(path) { continue }')
        iq = L.fn('qmldir::is_qml_file')
        if iq is not None:
            lits = [n['v'] for n in walk(iq['body']) if n.get('k') == 'Lit' and n.get('lk') == 'str']
            ok = lits == ['qml'] and any(c.get('m') == 'eq_ignore_ascii_case' for c in H.calls_in(iq['body'])) and any(c.get('m') == 'is_file' for c in H.calls_in(iq['body']))
            ck.ob('R18.4', 'qml-suffix-test', ok, L.loc(iq['body']), 'is_file() && extension eq_ignore_ascii_case "qml"')

    # ---- R18.1k normalised keys ------------------------------------------------------------
    n_keys = 0
    for crate in (L, B, F.cli):
        for fn in crate.fn_list:
            if fn.get('x') in ('Clone', 'Debug', 'PartialEq', 'Eq', 'Hash'):
                continue
            if fn['path'].startswith('typemap::'):
                continue  # conversions between the borrowed and owned forms of an existing id
            ordn = 0
            bs = H.binding_sites(fn)
            for n in walk(fn['body']):
                if n.get('k') == 'Call' and re.search(r'ModuleId(Buf)?::Directory$', n.get('def') or ''):
                    n_keys += 1
                    ordn += 1
                    arg = n['args'][0]
                    org = H.origin_callees(fn, arg, through=('to_owned', 'as_ref', 'into', 'clone', 'as_path', 'to_path_buf', 'borrow', 'deref'))
                    roots = []
                    for o in H.origins(fn, arg):
                        oo = H.strip_refs(o)
                        while oo.get('k') == 'MCall' and oo.get('m') in ('to_owned', 'as_ref', 'into', 'clone', 'to_path_buf', 'borrow', 'deref'):
                            oo = H.strip_refs(oo['recv'])
                        rl = H.root_local(oo)
                        if rl is not None:
                            roots.append(bs.get(rl['hid'], {}).get('kind'))
                    normalised = any(x.endswith('normalize_path') for x in org)
                    handed_in = bool(roots) and all(r in ('param', 'letcond', 'arm', 'closure_param', 'for') for r in roots) and not org - set(x for x in org if x.split('::')[-1] in ('to_owned', 'as_ref', 'into', 'clone', 'to_path_buf', 'borrow', 'deref'))
                    popped_ok = False
                    if not normalised and not handed_in:
                        # popped from a local work list whose every element was normalised when queued
                        for o in H.origins(fn, arg):
                            oo = H.strip_refs(o)
                            while oo.get('k') == 'MCall' and oo.get('m') in ('to_owned', 'as_ref', 'into', 'clone', 'to_path_buf', 'borrow', 'deref'):
                                oo = H.strip_refs(oo['recv'])
                            srcs = H.origins(fn, oo) if oo.get('k') == 'Path' else [oo]
                            for s0 in srcs:
                                s0 = H.strip_refs(s0)
                                if s0.get('k') == 'MCall' and s0.get('m') in ('pop', 'pop_front'):
                                    v = H.root_local(s0['recv'])
                                    site = bs.get(v['hid'], {}) if v is not None else {}
                                    fills_ok = False
                                    if site.get('kind') == 'let' and 'init' in site['node']:
                                        cls = [a2 for c2 in H.calls_in(site['node']['init']) if c2.get('m') == 'map' for a2 in c2['args'] if a2.get('k') == 'Closure']
                                        fills_ok = bool(cls) and all(all(H.is_call_to(v2, 'normalize_path') for v2 in H.value_exprs(cl['body'])) for cl in cls)
                                    for c2 in H.calls_in(fn['body']):
                                        if c2.get('m') in ('push', 'push_back') and (H.root_local(c2['recv']) or {}).get('hid') == (v or {}).get('hid'):
                                            r2 = H.root_local(c2['args'][0])
                                            k2 = bs.get(r2['hid'], {}).get('kind') if r2 is not None else None
                                            if k2 not in ('arm', 'letcond'):     # taken out of an existing id by a pattern (match arm or if-let)
                                                fills_ok = False
                                    popped_ok = fills_ok
                    ok = normalised or handed_in or popped_ok
                    ck.ob('R18.1k', 'directory-key|%s|%d' % (short(fn['path']), ordn), ok, crate.loc(n),
                          'path derives from normalize_path(..)' if normalised else ('key handed in (already a module key)' if handed_in else 'popped from a work list filled only with normalised paths / existing ids' if popped_ok else
                          'directory module id built from `%s` without normalize_path(): lookups use the canonical path and will miss it' % pp(arg, maxlen=50)), fn=fn['path'])
    ck.floor('R18.1k', n_keys, 5, 'Directory module id constructions')

    # ---- R18.2 / R18.3 -------------------------------------------------------------------------
    ub = L.fn('uigen::form::UiForm::build')
    if ub is None:
        ck.floor('R18.2', 0, 1, 'fn UiForm::build')
    else:
        ck.analysed(ub['path'])
        chain = None
        for h, s in H.binding_sites(ub).items():
            if s['kind'] == 'let' and 'init' in s['node'] and any(H.is_call_to(x, 'CustomWidget::from_class') for x in H.calls_in(s['node']['init'])):
                chain = s['node']['init']
        fcc = next((c for c in H.calls_in(ub['body']) if H.is_call_to(c, 'CustomWidget::from_class')), None)
        lp2 = next((a for a in H.ancestors(ub, fcc) if a.get('k') == 'For'), None) if fcc is not None else None
        if chain is None and lp2 is not None:
            # loop form: for n in flat_iter().filter(is_custom_type) { if !seen.insert(class) { continue } if let Some(w) = from_class(..) { push } }
            it_names = []
            x = lp2['iter']
            while x.get('k') == 'MCall':
                it_names.append(x['m'])
                x = x['recv']
            it_names.reverse()
            ins = [c for c in H.calls_in(lp2['body']) if c.get('m') == 'insert' and re.search(r'(Hash|BTree)Set<', L.ty(c['recv'], adjusted=True) or L.ty(c['recv']) or '')]
            dd = False
            on_class = False
            for c in ins:
                iff = H.parents(ub).get(id(c))
                neg = False
                while iff is not None and iff.get('k') == 'Unary' and iff.get('op') == 'Not':
                    neg = not neg
                    iff = H.parents(ub).get(id(iff))
                if iff is not None and iff.get('k') == 'If' and neg and H.diverges_always(iff['then']) and H.source_before(c, fcc) and \
                        not any(a.get('k') in ('If', 'Match') and a is not iff for a in H.ancestors(ub, c) if any(z is a for z in walk(lp2['body']))):
                    dd = True
                    on_class = 'typemap::class::Class' in (L.ty(c['args'][0]) or '')
            ck.ob('R18.2', 'global-dedup', dd, L.loc(lp2), 'loop over %s with `if !seen.insert(class) { continue }` in front of from_class()' % ' -> '.join(it_names) if dd else
                  'the loop that lists custom widgets has no test-and-set on a set of classes in front of from_class(): a component used twice is listed twice')
            sel = any(c.get('m') == 'is_custom_type' for c in H.calls_in(lp2['iter'])) or \
                any(c.get('m') == 'is_custom_type' and H.selects_by_negated(ub, H.parents(ub).get(id(c)) if H.parents(ub).get(id(c), {}).get('k') == 'Unary' else c) for c in H.calls_in(lp2['body']))
            ck.ob('R18.2', 'custom-types-only', sel, L.loc(lp2), 'only objects with is_custom_type() are listed')
            ck.ob('R18.2', 'covers-every-object', it_names[:1] == ['flat_iter'] and not any(n_ in ('skip', 'take', 'step_by', 'rev', 'take_while') for n_ in it_names), L.loc(lp2), 'starts from object_tree.flat_iter() without skipping')
            ck.ob('R18.2', 'dedup-on-class', on_class, L.loc(lp2), 'the set holds classes (not names or headers)')
        elif chain is None:
            ck.ob('R18.2', 'pipeline-found', False, '', 'custom-widget pipeline not found')
        else:
            names = []
            x = chain
            while x.get('k') == 'MCall':
                names.append(x['m'])
                x = x['recv']
            names.reverse()
            ok_dedup = any(n in ('unique', 'unique_by') for n in names) or 'Set<' in (L.ty(chain) or '')
            ck.ob('R18.2', 'global-dedup', ok_dedup, L.loc(chain),
                  'pipeline: %s' % ' -> '.join(names) if ok_dedup else 'pipeline %s has no global de-duplication (dedup() only removes adjacent repeats)' % ' -> '.join(names))
            ck.ob('R18.2', 'custom-types-only', 'filter' in names and any(c.get('m') == 'is_custom_type' for c in H.calls_in(chain)), L.loc(chain), 'filter(|n| n.is_custom_type())')
            ck.ob('R18.2', 'covers-every-object', names[:1] == ['flat_iter'] and not any(n in ('skip', 'take', 'step_by', 'rev', 'take_while') for n in names), L.loc(chain), 'starts from object_tree.flat_iter() without skipping')
            # dedup happens on the class, before the fallible conversion
            if 'unique' in names and 'filter_map' in names:
                ck.ob('R18.2', 'dedup-on-class', names.index('unique') < names.index('filter_map') and 'map' in names[:names.index('unique')], L.loc(chain), 'map(class) -> unique -> filter_map(from_class)')
    fc = L.fn('uigen::form::CustomWidget::from_class')
    if fc is None:
        ck.floor('R18.3', 0, 1, 'fn CustomWidget::from_class')
    else:
        ck.analysed(fc['path'])
        bs = H.binding_sites(fc)
        st = next((n for n in walk(fc['body']) if n.get('k') == 'Struct' and (n.get('def') or '').endswith('CustomWidget')), None)
        got = {}
        if st is not None:
            for f in st['fields']:
                calls = [c.get('m') or short(H.callee_decl(c) or '') for c in H.calls_in(f['e'])]
                roots = set()
                for x in walk(f['e']):
                    if x.get('k') == 'Path' and x.get('res') == 'local':
                        s = bs.get(x['hid'], {})
                        roots.add('param%s' % s.get('index') if s.get('kind') == 'param' else 'super' if s.get('kind') == 'let' else '?')
                got[f['f']] = (sorted(set(calls) - {'into'}), sorted(roots))
        exp = {'class': (['qualified_cxx_name'], ['param0']), 'extends': (['qualified_cxx_name'], ['super']),
               'header': (['name', 'type_name_to_cxx_header_name'], ['param0', 'param1'])}
        ck.ob('R18.3', 'customwidget-fields', got == exp, L.loc(st) if st else '', 'field provenance: %s' % got)
        sup = next((s for s in bs.values() if s['kind'] == 'let' and any(x.get('m') == 'public_super_classes' for x in H.calls_in(s['node'].get('init', {'k': 'x'})))), None)
        ok = sup is not None and [c.get('m') for c in H.calls_in(sup['node']['init'])][:3] and any(c.get('m') == 'next' for c in H.calls_in(sup['node']['init']))
        ck.ob('R18.3', 'extends-first-public-super', bool(ok), L.loc(sup['node']) if sup else '', 'super = cls.public_super_classes().next()')

    # ---- R18.4 components ----------------------------------------------------------------------------
    mc = L.fn('qmldir::make_doc_component_data')
    if mc is None:
        ck.floor('R18.4', 0, 1, 'fn make_doc_component_data')
    else:
        ck.analysed(mc['path'])
        ws = next((c for c in H.calls_in(mc['body']) if H.is_call_to(c, 'QmlComponentData::with_super')), None)
        ok = False
        if ws is not None:
            a0 = H.strip_refs(ws['args'][0])
            a1 = ws['args'][1]
            ok = a0.get('k') == 'MCall' and a0.get('m') == 'type_name' and 'UiDocument' in (a0.get('def') or '') and \
                any(c.get('m') == 'type_name' and 'UiObjectDefinition' in (c.get('def') or '') for c in H.calls_in(a1))
        ck.ob('R18.4', 'component-name-and-super', ok, L.loc(ws) if ws else '', 'with_super(doc.type_name(), <root object>.type_name())')
        imps = [c for c in H.calls_in(mc['body']) if c.get('m') == 'import_module']
        loop = next((n for n in walk(mc['body']) if n.get('k') == 'For'), None)
        first = imps[0] if imps else None
        ok = first is not None and loop is not None and H.lexically_precedes_dominating(mc, first, loop) and 'ModuleIdBuf::Directory' in pp(first['args'][0])
        ck.ob('R18.4', 'base-directory-imported-first', ok, L.loc(first) if first else '', 'data.import_module(Directory(doc_base_dir)) before the import loop')
        if loop is not None:
            conts = [n for n in walk(loop['body']) if n.get('k') == 'Continue']
            import nonediag
            for i, c in enumerate(conts):
                # an error push in the same block dominates the continue
                pushes = [p for p in nonediag.pushes_in(L, loop['body']) if H.lexically_precedes_dominating(mc, p, c) and any(H.is_call_to(x, 'Diagnostic::error') for x in H.calls_in(p['args'][0]))]
                # and that push is in the innermost branch containing the continue
                inner = next((a for a in H.ancestors(mc, c) if a.get('k') in ('If', 'Arm')), None)
                ok = any(inner is not None and any(x is p for x in walk(inner)) for p in pushes)
                ck.ob('R18.4', 'import-skipped-only-with-error|%d' % (i + 1), ok, L.loc(c),
                      '`continue` follows an error push in its own branch' if ok else 'an import is skipped (`continue`) without an error diagnostic in that branch: the component loses the import silently')
            # both import kinds are registered
            m = next((n for n in walk(loop['body']) if n.get('k') == 'Match' and any('UiImportSource::' in pp(a['pat']) for a in n['arms'])), None)
            ok = False
            if m is not None:
                ok = True
                for arm in m['arms']:
                    has_imp = any(c.get('m') == 'import_module' for c in H.calls_in(arm['body']))
                    if not has_imp:
                        ok = False
            ck.ob('R18.4', 'every-import-kind-registered', ok, L.loc(m) if m else '', 'Identifier and String imports both call data.import_module(..)')
            # path-based: on every path through the loop body the import is registered or an ERROR is pushed
            def ev(n):
                if n.get('k') == 'MCall' and n.get('m') == 'import_module':
                    return 'import'
                if n.get('k') == 'MCall' and n.get('m') == 'push' and n.get('args') and 'Diagnostics' in (L.ty(n['recv'], adjusted=True) or L.ty(n['recv']) or ''):
                    return 'warning' if nonediag.is_warning_push(n) else 'error'
                return None
            ps = H.paths(loop['body'], ev)
            silent = [(c, e) for c, e, x in ps if 'import' not in e and 'error' not in e]
            ck.ob('R18.4', 'every-import-registered-or-rejected', bool(ps) and not silent, L.loc(loop),
                  'each of the %d paths through the import loop registers the module or pushes an error' % len(ps) if not silent else
                  'on the path [%s] an import is neither registered nor rejected (events: %s): the component silently lacks that import, so its base type does not resolve when it is used from another document' %
                  (H.describe_ctx(silent[0][0]), silent[0][1] or 'none'), fn=mc['path'])

    # ---- R18.5 per-source loop ----------------------------------------------------------------------------
    gu = B.fn('generate_ui')
    if gu is None:
        ck.floor('R18.5', 0, 1, 'bin fn generate_ui')
    else:
        ck.analysed('bin::generate_ui')
        loop = next((n for n in walk(gu['body']) if n.get('k') == 'For' and any(H.is_call_to(c, 'generate_ui_file') for c in H.calls_in(n['body']))), None)
        if loop is None:
            ck.ob('R18.5', 'per-source-loop', False, '', 'loop over sources calling generate_ui_file not found')
        else:
            exits = [n for n in walk(loop['body'], enter_closures=False) if n.get('k') in ('Try', 'Ret', 'Break')]
            call = next(c for c in H.calls_in(loop['body']) if H.is_call_to(c, 'generate_ui_file'))
            par = H.parents(gu).get(id(call)) or {}
            # (a) a diagnosed source (a function of the inputs alone) never ends the loop
            diag_exits = exits
            if par.get('k') == 'Match' and par.get('e') is call:
                diag_exits = []
                for arm in par['arms']:
                    pt = pp(arm['pat'])
                    covers_diag = pt.startswith('Err(') and ('DiagnosticGenerated' in pt or re.match(r'^Err\((_|\w+)\)$', pt))
                    if covers_diag:
                        diag_exits += [n for n in walk(arm['body'], enter_closures=False) if n.get('k') in ('Try', 'Ret', 'Break')]
                    if 'DiagnosticGenerated' in pt:
                        break   # later arms cannot see this variant
            ck.ob('R18.5', 'diagnosed-source-does-not-stop-the-loop', not diag_exits, B.loc(loop),
                  'Err(DiagnosticGenerated) of one source is remembered and the remaining sources are still processed' if not diag_exits else
                  'the loop over sources leaves early (%s) when a source has diagnostics: whether a good source is translated depends on its position relative to a failing one' % ', '.join(sorted(set(n['k'] for n in diag_exits))))
            # (b) no other exit either
            other = [n for n in exits if not any(n is d for d in diag_exits)]
            ck.ob('R18.5', 'fatal-error-does-not-stop-the-loop', not exits, B.loc(loop),
                  'the loop over sources runs to exhaustion' if not exits else
                  'a non-diagnostic error of one source (unloadable file such as a bad suffix, I/O failure) still ends the loop (%s): sources named after it are not translated' % ', '.join(sorted(set(n['k'] for n in exits))))
            import core as _core
            import rules.c04 as c04
            sh = _core.Shared(ck, 'R18.5', lambda r, k: r == 'R4.4' and k == 'per-source-error-propagates', 'C04:', ' [otherwise the exit status depends on which source is named last]')
            c04.run(sh)
            src = pp(loop['iter'])
            ck.ob('R18.5', 'every-source-visited', 'sources' in src and not re.search(r'\b(skip|take|rev|filter|step_by)\b', src), B.loc(loop), 'iterates %s' % src)

    # ---- R18.6 the type name of a component / source is the stem of its own path (C15 R15.6, same facts) --------------------------------
    import core as _core6
    import rules.c15 as c15
    s15 = _core6.Shared(ck, 'R18.6', lambda r, k: r == 'R15.6', 'C15:', ' [which type a file provides, and what its outputs are called, must not depend on what else was read before it]')
    c15.run(s15)
    ck.floor('R18.6', s15.count, 7, 'shared C15 R15.6 obligations')

    # ---- R18.7 mutually inheriting components: the ancestor walk (C17 R17.1 / R17.10 on the same facts) ------------------------------------
    import rules.c17 as c17
    s17 = _core6.Shared(ck, 'R18.7', lambda r, k: r in ('R17.1', 'R17.10'), 'C17:', ' [a QML component has exactly one super class: a cycle of components is a cycle the walk must notice]')
    c17.run(s17)
    ck.floor('R18.7', s17.count, 6, 'shared C17 R17.1 / R17.10 obligations')
    # ---- R18.3 the header of a custom widget follows the file-name rules (C15 R15.5 on the same facts) -------------------------------------
    s15b = _core6.Shared(ck, 'R18.3', lambda r, k: r == 'R15.5' and (k.startswith(('case-rule', 'name-template')) or k == 'cli-lowercase-flag'), 'C15:',
                         ' [the <header> of a custom widget must name the file that generate-ui writes for that component]')
    c15.run(s15b)
    ck.floor('R18.3', s15b.count, 8, 'shared C15 R15.5 obligations on the file-name rules')
    # ---- R18.1n what normalize_path does ------------------------------------------------------------------------------------------------
    npf = L.fn('qmldir::normalize_path')
    if npf is None:
        ck.floor('R18.1n', 0, 1, 'fn qmldir::normalize_path')
    else:
        ck.analysed(npf['path'])
        # the value is `<if .. { A } else { B }>.unwrap_or_else(|_| path.to_owned())`: A and B must resolve `..` and symbolic links
        vals = list(H.return_exprs(npf['body']))
        cands = []
        for v in vals:
            x = H.strip_refs(v)
            fb = None
            if x.get('k') == 'MCall' and x.get('m') in ('unwrap_or_else', 'unwrap_or'):
                fb = x
                x = H.strip_refs(x['recv'])
            cands.extend((y, fb) for y in H.value_exprs(x))
        bad = []
        for y, fb in cands:
            y = H.strip_refs(y)
            nm_ = y.get('m') if y.get('k') == 'MCall' else (H.callee_decl(y) or '').split('::')[-1] if y.get('k') == 'Call' else None
            if nm_ not in ('canonicalize_utf8', 'canonicalize'):
                bad.append(pp(y, maxlen=50))
        ok = bool(cands) and not bad
        ck.ob('R18.1n', 'normaliser-resolves-dots-and-links', ok, L.loc(npf['body']),
              'normalize_path = canonicalize (%d branch(es)); the unchanged path is only the fallback when that fails' % len(cands) if ok else
              'normalize_path yields %s: `..` components or symbolic links survive, so one directory gets several module ids — the visited test of the discovery does not recognise it '
              '(mutually importing directories are walked until the path length limit) and components are registered twice' % bad, fn=npf['path'])

    # ---- R18.4 import order: the document's own directory first, the explicit imports after it, in both places that build a scope -----------
    # the import stack is searched from the back, so a later import shadows an earlier one: `import "base"` must be able to shadow the
    # component's own directory (a Panel.qml that extends the Panel of an imported directory), and a component must see the same
    # scope whether it is translated as a source or loaded as a type.
    order = {}
    for path in ('qmldir::make_doc_component_data', 'uigen::make_doc_module_space'):
        fn = L.fn(path)
        if fn is None:
            ck.floor('R18.4', 0, 1, 'fn ' + path)
            continue
        ck.analysed(fn['path'])
        imps = [c for c in H.calls_in(fn['body']) if c.get('k') == 'MCall' and c.get('m') == 'import_module']
        lp = next((n for n in walk(fn['body']) if n.get('k') == 'For' and any(x.get('m') == 'imports' for x in H.calls_in(n['iter']))), None)
        own = [c for c in imps if lp is None or not any(x is c for x in walk(lp))]
        # the own-directory import: the one outside the loop whose argument is a Directory id
        def is_dir_id(e):
            e = H.strip_refs(e)
            while e.get('k') == 'MCall' and e.get('m') in ('as_ref', 'clone', 'to_owned', 'borrow', 'into'):
                e = H.strip_refs(e['recv'])
            return 'Directory' in pp(e, maxlen=120) or any('Directory' in pp(o, maxlen=120) for o in H.origins(fn, e))
        own_dir = [c for c in own if is_dir_id(c['args'][0])]
        ok = lp is not None and len(own_dir) == 1 and H.source_before(own_dir[0], lp)
        order[path] = ok
        ck.ob('R18.4', 'own-directory-imported-before-explicit-imports|%s' % short(path), ok, L.loc(own_dir[0]) if own_dir else L.loc(fn['body']),
              'import_module(Directory(<own dir>)) precedes the loop over program.imports()' if ok else
              'the own directory is imported after (or not apart from) the explicit imports: it shadows them, so a component that extends the same-named component of an imported directory '
              'resolves its super class to itself', fn=fn['path'])

    # the stack of imported modules is searched from the back (a later import shadows an earlier one), which is what the order above is for
    gt = next((f for f in L.fn_list if f['name'] == 'get_type' and 'ImportedModuleSpace' in (f.get('impl_self') or '')), None)
    if gt is None:
        ck.floor('R18.4', 0, 1, 'fn ImportedModuleSpace::get_type')
    else:
        ck.analysed(gt['path'])
        fm = next((c for c in H.calls_in(gt['body']) if c.get('k') == 'MCall' and c.get('m') in ('find_map', 'find', 'filter_map')), None)
        chain = []
        x = H.strip_refs(fm['recv']) if fm is not None else {}
        while x.get('k') == 'MCall':
            chain.append(x.get('m'))
            x = H.strip_refs(x['recv'])
        ok = fm is not None and fm['m'] == 'find_map' and list(reversed(chain)) == ['iter', 'rev'] and x.get('k') == 'Field' and x.get('f') == 'data_stack'
        ck.ob('R18.4', 'import-stack-searched-from-the-back', ok, L.loc(fm) if fm is not None else L.loc(gt['body']),
              'data_stack.iter().rev().find_map(..): the last import that knows the name wins' if ok else
              'the imported modules are searched as data_stack.%s().%s(..): an earlier import wins over a later one, so `import "dir"` no longer shadows the own directory '
              '(a type name provided twice resolves to the other class: other ancestry, other element kind)' % ('().'.join(reversed(chain)), fm['m'] if fm is not None else '?'), fn=gt['path'])

    # instances of a component accept what their base class accepts: class tests by derivation (C11 R11.9, same facts)
    import rules.c11 as c11
    s11 = _core6.Shared(ck, 'R18.3', lambda r, k: r == 'R11.9', 'C11:', ' [a component rooted at QComboBox is a combo box]')
    c11.run(s11)

    # "X.qml is usable as type X": an instance `X { }` is read as an object whatever letters X starts with (C20 R20.10)
    import rules.c20 as c20
    ck.rule('R18.8', 'a component is usable as a child object whatever script its name is written in (shared with C20)')
    s20 = _core6.Shared(ck, 'R18.8', lambda r, k: r == 'R20.10', 'C20:', ' [`Éditeur.qml` is registered as type Éditeur; `Éditeur { }` inside another object must be an object, not a grouped binding]')
    c20.run(s20)
    ck.floor('R18.8', s20.count, 2, 'shared C20 R20.10 obligations')
