"""C17: type lookups agree with the class graph and always terminate."""
import re
from facts import walk, short, pp
import hirutil as H

LEVEL = 'other'
TECHNIQUE = 'work-list termination guard (control dependence of push on visited-insert), sibling agreement of the four lookup wrappers, writer/reader index and key agreement over typed HIR, small combinator algebra over Option/Result for error handling in the walkers + owner agreement (an entry is handed out with the class whose table it was found in)'
LEVEL_TEXT = ('Decides the structural conditions on which every query depends: the breadth-first ancestor iterator only queues a class '
              'after a successful visited-insert and pops exhausted queues (termination on cyclic graphs); "derives from" tests self '
              'first and turns walk errors into "not derived"; property/method/type/enum-variant lookups all go through the one '
              'self-then-bases walker with their own *_no_super function; only public super classes and public methods are stored; the '
              'method table is sorted on the field it is searched by; every index stored in the namespace maps is the position at which '
              'the element is pushed (base length + batch offset) in the vector the reader indexes. These are writer/reader agreements '
              'a handful of unit tests with single-batch, acyclic data cannot see.')
LEVEL_NOTE = ('Trusted: std collections; rustc resolution. Not decided: agreement with graph reachability on all graphs; precedence among '
              'conflicting declarations in different inheritance chains (documented as unspecified by the code).')
DESIGN_REF = 'DESIGN.md section 4, C17'


def run(ck):
    if getattr(ck, 'depth', 0) >= 2:
        return      # a shared run of a shared run: nothing of it is selected, and mutual sharing must end somewhere
    F = ck.facts
    L = F.lib
    ck.explanation = (
        'R17.1 in <BaseClasses as Iterator>::next: every pending.push_back is control-dependent on visited.insert(..) (arm guard or if '
        'condition), the loop pops the front queue after draining it, and the fn returns None only after the while-let fails. R17.2 '
        'is_derived_from_pedantic tests self == base before walking; is_derived_from maps Err to "not derived" (and_then(ok)). R17.3 '
        'find_map_self_and_base_classes calls f(self) before base_classes(). R17.4 get_property/get_public_method/get_type/'
        'get_enum_by_variant call the walker with a closure that calls exactly their own *_no_super on the closure parameter. R17.5 '
        'ClassData::from_meta keeps super classes only under access == Public; MethodDataTable::from_meta filters on the access '
        'argument, passed as Public. R17.6 sort key == partition_point key == take_while key (field `name`). R17.7 index agreement in '
        'NamespaceData: stored indices are base-length + enumerate offset (or base length for a single push) of the vector that the '
        'reader arm of the same TypeIndex variant indexes; enum_variant_map indexes `enums` on both sides. R17.8 common_base_class '
        'searches ancestors-or-self of self that other derives from.')
    ck.rule('R17.1', 'ancestor walk terminates: a class is queued only after visited.insert succeeded; exhausted queues are popped')
    ck.rule('R17.2', 'derives-from is reflexive first and treats walk errors as not derived')
    ck.rule('R17.3', "the class's own declaration takes precedence: f(self) before the bases")
    ck.rule('R17.4', 'all four lookups route through the one walker with their own *_no_super')
    ck.rule('R17.5', 'only public super classes and public methods are stored')
    ck.rule('R17.6', 'method table: sort key == search key')
    ck.rule('R17.7', 'stored indices are the push positions in the vector the reader indexes')
    ck.rule('R17.8', 'common base: ancestor-or-self of self from which other derives')
    ck.rule('R17.9', 'an unresolvable (dangling) super class does not hide what the other super classes provide')
    ck.rule('R17.10', 'class identity: Eq and Hash of the data reference agree and are by address')
    ck.rule('R17.11', 'what is found in the tables of a class is handed out as belonging to that class')
    ck.rule('R17.12', 'type names stored in the type data (super classes, attached class, enum alias, property and method types) are resolved through the lexical scope')

    # ---- R17.1 ---------------------------------------------------------------------
    nx = next((f for f in L.fn_list if f['path'].startswith('<typemap::class::BaseClasses') and f['name'] == 'next'), None)
    if nx is None:
        ck.floor('R17.1', 0, 1, 'fn <BaseClasses as Iterator>::next')
    else:
        ck.analysed(nx['path'])
        pushes = [c for c in H.calls_in(nx['body']) if c.get('m') in ('push_back', 'push_front', 'push', 'extend', 'insert') and
                  any(x.get('f') == 'pending' for x in walk(c['recv']))]
        ck.floor('R17.1', len(pushes), 1, 'pushes onto the pending queue')
        for i, p in enumerate(pushes):
            guarded = False
            how = 'unguarded'
            for anc in H.ancestors(nx, p):
                if anc.get('k') == 'Arm' and 'guard' in anc:
                    g = anc['guard']
                    if any(x.get('m') == 'insert' and any(y.get('f') == 'visited' for y in walk(x['recv'])) for x in H.calls_in(g)) and \
                            not (g.get('k') == 'Unary' and g.get('op') == 'Not'):
                        guarded = True
                        how = 'arm guard ' + pp(g, maxlen=50)
                        break
                if anc.get('k') == 'If' and any(x is p for x in walk(anc['then'])):
                    c = anc['c']
                    if any(x.get('m') == 'insert' and any(y.get('f') == 'visited' for y in walk(x['recv'])) for x in H.calls_in(c)) and \
                            not (c.get('k') == 'Unary' and c.get('op') == 'Not'):
                        guarded = True
                        how = 'if ' + pp(c, maxlen=50)
                        break
            ck.ob('R17.1', 'push-guarded-by-visited-insert|%d' % (i + 1), guarded, L.loc(p),
                  'queued only when ' + how if guarded else 'a class is queued for expansion without a successful visited.insert(): cyclic super-class references loop forever')
            # what is inserted into visited is the class whose supers are pushed
            if guarded:
                ins = next(x for anc in H.ancestors(nx, p) for x in H.calls_in(anc.get('guard') or anc.get('c') or {'k': 'x'}) if x.get('m') == 'insert')
                a = H.root_local(ins['args'][0])
                b = H.root_local(p['args'][0])
                arg = H.strip_refs(ins['args'][0])
                while arg.get('k') == 'MCall' and arg.get('m') in ('clone', 'to_owned', 'borrow', 'as_ref', 'deref'):
                    arg = H.strip_refs(arg['recv'])
                whole = arg.get('k') == 'Path' and arg.get('res') == 'local' and 'typemap::class::Class<' in (L.ty(ins['args'][0]) or '')
                ck.ob('R17.1', 'visited-key-is-the-queued-class|%d' % (i + 1), a is not None and b is not None and a.get('hid') == b.get('hid') and whole, L.loc(p),
                      'visited.insert(%s) / push_back(%s): the visited set holds the class itself' % (pp(ins['args'][0], maxlen=20), pp(p['args'][0], maxlen=30)) if whole else
                      'visited.insert(%s) keys the visited set by a projection of the class (type %s), not by the class: two different classes with the same projection (same unqualified name in two modules) '
                      'shadow each other and the ancestors of the second are never walked' % (pp(ins['args'][0], maxlen=40), (L.ty(ins['args'][0]) or '?')[:40]))
        pops = [c for c in H.calls_in(nx['body']) if c.get('m') in ('pop_front',) and any(x.get('f') == 'pending' for x in walk(c['recv']))]
        loops = [n for n in walk(nx['body']) if n.get('k') == 'Loop']
        ok = len(pops) == 1 and len(loops) == 1 and any(x is pops[0] for x in walk(loops[0]))
        # the pop must come after the inner for (draining) in the loop body, unconditionally
        if ok:
            inner_for = next((n for n in walk(loops[0]) if n.get('k') == 'For'), None)
            ok = inner_for is not None and H.lexically_precedes_dominating(nx, inner_for, pops[0])
        ck.ob('R17.1', 'exhausted-queue-popped', ok, L.loc(pops[0]) if pops else '', 'pending.pop_front() follows the draining for-loop on every iteration')
        # front_mut is the loop condition
        cond_ok = bool(loops) and any(x.get('m') in ('front_mut', 'front') for x in H.calls_in(loops[0]['body'].get('e') or loops[0]['body']))
        ck.ob('R17.1', 'loop-runs-while-queue-nonempty', cond_ok, L.loc(loops[0]) if loops else '', 'while let Some(..) = self.pending.front_mut()')

    # ---- R17.2 ---------------------------------------------------------------------
    dp = L.fn('typemap::class::Class::is_derived_from_pedantic')
    df = L.fn('typemap::class::Class::is_derived_from')
    if dp is None or df is None:
        ck.floor('R17.2', 0, 1, 'fns is_derived_from(_pedantic)')
    else:
        ck.analysed(dp['path'])
        ck.analysed(df['path'])
        top = next((n for n in walk(dp['body']) if n.get('k') == 'If'), None)
        ok = False
        if top is not None:
            c = top['c']
            bs = H.binding_sites(dp)
            if c.get('k') == 'Binary' and c.get('op') == 'Eq':
                idx = sorted(bs.get((H.root_local(s) or {}).get('hid'), {}).get('index', -1) for s in (c['l'], c['r']))
                tv = [pp(v) for v in H.value_exprs(top['then'])]
                WALK = ('base_classes', 'find_map_base_classes')
                walks_in_else = 'els' in top and any(x.get('m') in WALK for x in H.calls_in(top['els'])) and \
                    not any(x.get('m') in WALK for x in H.calls_in(top['then']))
                ok = idx == [0, 1] and tv == ['Some(Ok(()))'] and walks_in_else
        ck.ob('R17.2', 'reflexive-first', ok, L.loc(top) if top else '', 'if self == base { Some(Ok(())) } else { walk the bases }')
        # the walk closure compares each ancestor with base
        cl = next((n for n in walk(dp['body']) if n.get('k') == 'Closure'), None)
        ok = False
        if cl is not None:
            eqs = [n for n in walk(cl['body']) if n.get('k') == 'Binary' and n.get('op') == 'Eq']
            ok = len(eqs) == 1 and any(x.get('m') in ('then_some', 'then') for x in H.calls_in(cl['body']))
        ck.ob('R17.2', 'walk-compares-with-base', ok, L.loc(cl) if cl else '', 'find_map(|r| r.map(|c| (&c == base).then_some(())).transpose())')
        # is_derived_from: evaluated on the three outcomes of the pedantic walk (any spelling: and_then/ok/is_some, matches!, match)
        import aeval as _ae
        res = {}
        for name, val in (('not found', ('None',)), ('found', ('Some', ('Ok', ('#unit',)))), ('walk error', ('Some', ('Err', ('#e',))))):
            Iv = _ae.Interp(L, stubs={'Class::is_derived_from_pedantic': (lambda a, v=val: v)})
            try:
                res[name] = Iv.call(df['path'], [('Class', 'X'), ('Class', 'B')], 0)
            except _ae.Undecided as e:
                res[name] = 'undecided: %s' % e
        ok = res == {'not found': False, 'found': True, 'walk error': False}
        ck.ob('R17.2', 'errors-are-not-derived', ok, L.loc(df['body']),
              'is_derived_from is true exactly for Some(Ok(())): %s' % res if ok else 'is_derived_from maps the outcomes of the walk to %s (a walk error or "not found" must not count as derived)' % res)

    # ---- R17.3 ---------------------------------------------------------------------
    fm = L.fn('typemap::class::Class::find_map_self_and_base_classes')
    if fm is None:
        ck.floor('R17.3', 0, 1, 'fn find_map_self_and_base_classes')
    else:
        ck.analysed(fm['path'])
        bs = H.binding_sites(fm)
        top = next((n for n in walk(fm['body']) if n.get('k') == 'If'), None)
        ok = False
        if top is not None and top['c'].get('k') == 'LetCond':
            call = H.strip_refs(top['c']['e'])
            is_f_self = call.get('k') == 'Call' and call['f'].get('res') == 'local' and bs.get(call['f'].get('hid'), {}).get('index') == 1 and \
                bs.get((H.root_local(call['args'][0]) or {}).get('hid'), {}).get('index') == 0
            tv = list(H.value_exprs(top['then']))
            pb = {b['hid'] for b in H.pat_bindings(top['c']['pat'])}
            returns_it = len(tv) == 1 and tv[0].get('k') == 'Call' and (tv[0].get('def') or '').endswith('Option::Some') and (H.root_local(tv[0]['args'][0]) or {}).get('hid') in pb
            walks_else = 'els' in top and ((any(x.get('m') == 'base_classes' for x in H.calls_in(top['els'])) and any(x.get('m') == 'find_map' for x in H.calls_in(top['els']))) or
                                           any(x.get('m') == 'find_map_base_classes' and x['args'] and bs.get((H.root_local(x['args'][0]) or {}).get('hid'), {}).get('index') == 1 for x in H.calls_in(top['els'])))
            ok = is_f_self and returns_it and walks_else
        ck.ob('R17.3', 'self-before-bases', ok, L.loc(top) if top else '', 'if let Some(r) = f(self) { Some(r) } else { base_classes().find_map(..) }')

    # ---- R17.4 ---------------------------------------------------------------------
    sibs = {'get_property': 'get_property_no_super', 'get_public_method': 'get_public_method_no_super',
            'get_type': 'get_type_no_super', 'get_enum_by_variant': 'get_enum_by_variant_no_super'}
    n_sib = 0
    for fn in L.fn_list:
        if fn['name'] in sibs and ('typemap::class::Class' in fn['path']) and not fn['name'].endswith('no_super'):
            n_sib += 1
            ck.analysed(fn['path'])
            vals = list(H.return_exprs(fn['body']))
            ok = False
            why = 'does not return self.find_map_self_and_base_classes(..)'
            if len(vals) == 1 and vals[0].get('k') == 'MCall' and vals[0].get('m') == 'find_map_self_and_base_classes':
                cl = vals[0]['args'][0] if vals[0]['args'] else None
                if cl is not None and cl.get('k') == 'Closure':
                    cv = list(H.value_exprs(cl['body']))
                    pb = {b['hid'] for p in cl['params'] for b in H.pat_bindings(p)}
                    ok = len(cv) == 1 and cv[0].get('k') == 'MCall' and cv[0].get('m') == sibs[fn['name']] and (H.root_local(cv[0]['recv']) or {}).get('hid') in pb
                    why = 'walker closure: %s' % pp(cl, maxlen=70)
                    # the name argument is forwarded
                    bs = H.binding_sites(fn)
                    if ok:
                        fw = [bs.get((H.root_local(a) or {}).get('hid'), {}).get('kind') for a in cv[0]['args']]
                        ok = fw == ['param']
                    else:
                        # inlined form: the closure searches the table of the class it is given, by the wrapper's name parameter
                        table = {'get_property': 'property_map', 'get_public_method': 'public_methods', 'get_type': 'inner_type_map', 'get_enum_by_variant': 'inner_type_map'}[fn['name']]
                        reads = [x for x in walk(cl['body']) if x.get('k') == 'Field' and x.get('f') == table]
                        lookups = []
                        for x in H.calls_in(cl['body']):
                            if x.get('k') == 'MCall' and x['args']:
                                rr = H.strip_refs(x['recv'])
                                if rr.get('k') == 'Field' and rr.get('f') == table:
                                    lookups.append(x)
                        ok = len(reads) == 1 and (H.root_local(reads[0]) or {}).get('hid') in pb and len(lookups) == 1 and \
                            bs.get((H.root_local(lookups[0]['args'][0]) or {}).get('hid'), {}).get('kind') == 'param' and \
                            not any(x.get('k') == 'MCall' and x.get('m') in sibs for x in H.calls_in(cl['body']))
                        why = 'walker closure searches %s of the class it is given, by the name parameter' % table if ok else why
            ck.ob('R17.4', 'one-walker|%s' % fn['name'], ok, L.loc(fn['body']), why, fn=fn['path'])
    ck.floor('R17.4', n_sib, 4, 'lookup wrappers on Class')

    # ---- R17.5 ---------------------------------------------------------------------
    cm = L.fn('typemap::class::ClassData::from_meta')
    if cm is None:
        ck.floor('R17.5', 0, 1, 'fn ClassData::from_meta')
    else:
        ck.analysed(cm['path'])
        ok = False
        for c in H.calls_in(cm['body']):
            if c.get('m') in ('filter_map', 'filter') and any(x.get('f') == 'super_classes' for x in walk(c['recv'])):
                cl = c['args'][0]
                eqs = [n for n in walk(cl) if n.get('k') == 'Binary' and n.get('op') == 'Eq' and any(x.get('f') == 'access' for x in walk(n)) and 'AccessSpecifier::Public' in pp(n)]
                ok = bool(eqs)
        ck.ob('R17.5', 'public-supers-only', ok, L.loc(cm['body']), 'super_classes filtered on access == Public')
        mt = next((c for c in H.calls_in(cm['body']) if H.is_call_to(c, 'MethodDataTable::from_meta')), None)
        ck.ob('R17.5', 'public-methods-requested', mt is not None and pp(mt['args'][1]) == 'AccessSpecifier::Public', L.loc(mt) if mt else '', 'MethodDataTable::from_meta(.., Public)')
    mm = L.fn('typemap::function::MethodDataTable::from_meta')
    if mm is None:
        ck.floor('R17.5', 0, 1, 'fn MethodDataTable::from_meta')
    else:
        ck.analysed(mm['path'])
        bs = H.binding_sites(mm)
        eqs = [n for n in walk(mm['body']) if n.get('k') == 'Binary' and n.get('op') == 'Eq' and any(x.get('f') == 'access' for x in walk(n))]
        ok = len(eqs) == 1 and any(bs.get((H.root_local(s) or {}).get('hid'), {}).get('kind') == 'param' for s in (eqs[0]['l'], eqs[0]['r']))
        ck.ob('R17.5', 'methods-filtered-on-access-argument', ok, L.loc(mm['body']), 'methods kept iff m.access == access')
        # ---- R17.6 sort key
        srt = [c for c in H.calls_in(mm['body']) if c.get('m') in ('sort_by', 'sort_by_key', 'sort_unstable_by', 'sort_unstable_by_key', 'sort_by_cached_key')]
        skey = None
        if len(srt) == 1:
            f = set(x.get('f') for x in walk(srt[0]['args'][0]) if x.get('k') == 'Field')
            skey = f.pop() if len(f) == 1 else None
        gm = L.fn('typemap::function::MethodDataTable::get_method_with')
        pkey = tkey = None
        if gm is not None:
            ck.analysed(gm['path'])
            for c in H.calls_in(gm['body']):
                if c.get('m') == 'partition_point':
                    f = set(x.get('f') for x in walk(c['args'][0]) if x.get('k') == 'Field')
                    pkey = f.pop() if len(f) == 1 else None
                    lt = [n for n in walk(c['args'][0]) if n.get('k') == 'Binary']
                    pop = lt[0].get('op') if len(lt) == 1 else None
                if c.get('m') == 'take_while':
                    f = set(x.get('f') for x in walk(c['args'][0]) if x.get('k') == 'Field')
                    tkey = f.pop() if len(f) == 1 else None
        ck.ob('R17.6', 'sort-key==search-key', skey is not None and skey == pkey == tkey, L.loc(mm['body']), 'sorted by `%s`, partition_point on `%s`, take_while on `%s`' % (skey, pkey, tkey))
        if gm is not None:
            ck.ob('R17.6', 'partition-is-strictly-less', pop == 'Lt', L.loc(gm['body']), 'partition_point(|d| d.name < name) finds the first candidate')

    # ---- R17.7 index agreement ---------------------------------------------------------
    vec_of_variant = {}
    gt = L.fn('typemap::namespace::NamespaceData::get_type_with')
    if gt is not None:
        ck.analysed(gt['path'])
        for m in (n for n in walk(gt['body']) if n.get('k') == 'Match'):
            for arm in m['arms']:
                var = (arm['pat'].get('def') or '')
                if 'TypeIndex::' not in var:
                    continue
                var = var.split('::')[-1]
                pb = {b['hid'] for b in H.pat_bindings(arm['pat'])}
                idxs = [n for n in walk(arm['body']) if n.get('k') == 'Index' and (H.root_local(n['i']) or {}).get('hid') in pb]
                flds = set(H.strip_refs(n['e']).get('f') for n in idxs)
                if var != 'Primitive':
                    vec_of_variant[var] = flds.pop() if len(flds) == 1 else None
    expect = {'Class': 'classes', 'Enum': 'enums', 'QmlComponent': 'qml_components'}
    ck.ob('R17.7', 'reader-variant-vector', vec_of_variant == expect, L.loc(gt['body']) if gt else '', 'reader arms index: %s' % vec_of_variant)
    ge = L.fn('typemap::namespace::NamespaceData::get_enum_by_variant_with')
    if ge is not None:
        ck.analysed(ge['path'])
        idxs = [H.strip_refs(n['e']).get('f') for n in walk(ge['body']) if n.get('k') == 'Index']
        maps = [x.get('f') for c in H.calls_in(ge['body']) if c.get('m') == 'get' for x in walk(c['recv']) if x.get('k') == 'Field']
        ck.ob('R17.7', 'variant-reader', idxs == ['enums'] and maps == ['enum_variant_map'], L.loc(ge['body']), 'enum_variant_map.get(name) indexes %s' % idxs)
    n_w = 0
    for fn in L.fn_list:
        if not fn['path'].startswith('typemap::namespace::NamespaceData::') or fn['name'] not in ('extend_classes', 'extend_enums', 'push_qml_component'):
            continue
        n_w += 1
        ck.analysed(fn['path'])
        pushes = [c for c in H.calls_in(fn['body']) if c.get('m') == 'push' and H.strip_refs(c['recv']).get('k') == 'Field']
        pushed = set(H.strip_refs(c['recv'])['f'] for c in pushes)
        vec = pushed.pop() if len(pushed) == 1 else None
        bs = H.binding_sites(fn)
        # `start` = self.<vec>.len() before any push
        start_hids = set()
        for h, s in bs.items():
            if s['kind'] == 'let' and s['node'].get('init') is not None:
                i = H.strip_refs(s['node']['init'])
                if i.get('k') == 'MCall' and i.get('m') == 'len' and H.strip_refs(i['recv']).get('f') == vec:
                    if all(H.lexically_precedes_dominating(fn, s['node']['init'], p) for p in pushes):
                        start_hids.add(h)
        enum_hids = set()
        for n in walk(fn['body']):
            if n.get('k') == 'For' and any(x.get('m') == 'enumerate' for x in H.calls_in(n['iter'])):
                p = n['pat']
                if p.get('k') == 'PTup' and p['subs'] and p['subs'][0].get('k') == 'Bind':
                    enum_hids.add(p['subs'][0]['hid'])
        ck.ob('R17.7', 'base-length-captured|%s' % fn['name'], bool(start_hids) and vec is not None, L.loc(fn['body']), 'let start = self.%s.len() before the push(es)' % vec, fn=fn['path'])

        def index_ok(e):
            leaves = set()
            todo = [e]
            adds = 0
            guard = 0
            while todo and guard < 50:
                guard += 1
                x = H.strip_refs(todo.pop())
                if x.get('k') == 'Binary' and x.get('op') == 'Add':
                    adds += 1
                    todo += [x['l'], x['r']]
                elif x.get('k') == 'Path' and x.get('res') == 'local':
                    if x['hid'] in start_hids or x['hid'] in enum_hids:
                        leaves.add(x['hid'])
                    else:
                        s = bs.get(x['hid'])
                        if s and s['kind'] == 'let' and s['pat'].get('k') == 'Bind' and 'init' in s['node']:
                            todo.append(s['node']['init'])
                        else:
                            leaves.add('?' + x.get('name', ''))
                else:
                    leaves.add('?' + pp(x, maxlen=20))
            if enum_hids:
                return leaves == (start_hids | enum_hids) and len(start_hids) == 1 and len(enum_hids) == 1 and adds == 1
            return leaves == start_hids and adds == 0
        # stored indices: TypeIndex::V(idx) and enum_variant_map values
        n_idx = 0
        for c in H.calls_in(fn['body']):
            d = c.get('def') or ''
            if c.get('k') == 'Call' and 'TypeIndex::' in d:
                var = d.split('::')[-1]
                n_idx += 1
                ck.ob('R17.7', 'stored-index|%s|TypeIndex::%s' % (fn['name'], var), index_ok(c['args'][0]) and expect.get(var) == vec, L.loc(c),
                      'TypeIndex::%s(%s) while pushing to %s' % (var, pp(c['args'][0], maxlen=30), vec), fn=fn['path'])
            if c.get('m') in ('extend', 'insert') and H.strip_refs(c['recv']).get('f') == 'enum_variant_map':
                vals = []
                if c['m'] == 'insert':
                    vals = [c['args'][1]]
                else:
                    vals = [t['es'][1] for t in walk(c['args'][0]) if t.get('k') == 'Tup' and len(t['es']) == 2]
                for v in vals:
                    n_idx += 1
                    ck.ob('R17.7', 'stored-index|%s|enum_variant_map' % fn['name'], index_ok(v) and vec == 'enums', L.loc(c),
                          'enum_variant_map value `%s` must be the position of the enum being pushed' % pp(v, maxlen=30), fn=fn['path'])
        ck.ob('R17.7', 'stores-an-index|%s' % fn['name'], n_idx >= 1, L.loc(fn['body']), '%d stored index expression(s)' % n_idx, fn=fn['path'])
    ck.floor('R17.7', n_w, 3, 'NamespaceData writer functions')

    # ---- R17.8 common base ----------------------------------------------------------------
    cb = L.fn('typemap::class::Class::common_base_class')
    if cb is None:
        ck.floor('R17.8', 0, 1, 'fn common_base_class')
    else:
        ck.analysed(cb['path'])
        bs = H.binding_sites(cb)
        vals = list(H.return_exprs(cb['body']))
        ok = False
        if len(vals) == 1 and vals[0].get('k') == 'MCall' and vals[0].get('m') == 'find_map_self_and_base_classes' and \
                bs.get((H.root_local(vals[0]['recv']) or {}).get('hid'), {}).get('index') == 0:
            cl = vals[0]['args'][0]
            pb = {b['hid'] for p in cl['params'] for b in H.pat_bindings(p)}
            d = next((c for c in H.calls_in(cl['body']) if c.get('m') == 'is_derived_from_pedantic'), None)
            if d is not None:
                recv_other = bs.get((H.root_local(d['recv']) or {}).get('hid'), {}).get('index') == 1
                arg_cls = (H.root_local(d['args'][0]) or {}).get('hid') in pb
                clone_cls = any(c.get('m') == 'clone' and (H.root_local(c['recv']) or {}).get('hid') in pb for c in H.calls_in(cl['body']))
                ok = recv_other and arg_cls and clone_cls
        ck.ob('R17.8', 'common-base-shape', ok, L.loc(cb['body']), 'self.walk(|cls| other.is_derived_from_pedantic(cls).map(.. cls.clone()))')

    # ---- R17.9 error items must not end the search ------------------------------------------------------------------------------------
    # two shapes are understood: the iterator form `base_classes().find_map(<closure>)`, whose closure is evaluated on an Err item, and
    # the loop form of a helper (`for r in self.base_classes() { match r { Ok(c) => .., Err(e) => .. } }`), read path-wise
    import aeval
    n9 = 0

    def loop_walk(fn):
        """(ok, why) for a helper that walks base_classes() in a `for` loop"""
        lp = next((n for n in walk(fn['body']) if n.get('k') == 'For' and any(x.get('m') == 'base_classes' for x in H.calls_in(n['iter']))), None)
        if lp is None:
            return None
        mt = next((n for n in walk(lp['body']) if n.get('k') == 'Match' and (H.root_local(n['e']) or {}).get('hid') in {b['hid'] for b in H.pat_bindings(lp['pat'])}), None)
        if mt is None:
            return (False, 'the loop over base_classes() does not match on the item')
        err = next((a for a in mt['arms'] if pp(a['pat']).startswith('Err(')), None)
        okarm = next((a for a in mt['arms'] if pp(a['pat']).startswith('Ok(')), None)
        if err is None or okarm is None or len(mt['arms']) != 2:
            return (False, 'arms: %s' % [pp(a['pat'], maxlen=30) for a in mt['arms']])
        leaves = [x.get('k') for x in walk(err['body'], enter_closures=False) if x.get('k') in ('Ret', 'Break', 'Try')]
        if leaves:
            return (False, 'the Err arm leaves the loop (%s): a super class that does not resolve ends the search, so the answer depends on where it is listed' % leaves[0].lower())
        # Ok arm: return only what f found
        rets = [x for x in walk(okarm['body'], enter_closures=False) if x.get('k') == 'Ret']
        good = len(rets) == 1
        if good:
            iff = next((a for a in H.ancestors(fn, rets[0]) if a.get('k') == 'If'), None)
            good = iff is not None and iff['c'].get('k') == 'LetCond' and pp(iff['c']['pat']).startswith('Some(') and any(x is rets[0] for x in walk(iff['then'])) and \
                H.strip_refs(iff['c']['e']).get('k') == 'Call'
        if not good:
            return (False, 'the Ok arm does not simply return what f(&class) found')
        # after the loop: the remembered error, if any
        vals = [H.strip_refs(v) for v in H.value_exprs(fn['body'])]
        tail_ok = len(vals) == 1 and vals[0].get('k') == 'MCall' and vals[0].get('m') == 'map' and 'Err' in pp(vals[0]['args'][0], maxlen=40)
        if not tail_ok:
            return (False, 'after the loop the result is %s, not <first error>.map(Err)' % [pp(v, maxlen=40) for v in vals])
        return (True, 'Err items are remembered and the loop goes on; the first hit of f ends it; the remembered error is the answer only if nothing was found')
    helper = L.fn('typemap::class::Class::find_map_base_classes')
    hres = loop_walk(helper) if helper is not None else None
    if helper is not None:
        ck.analysed(helper['path'])
    for path in ('typemap::class::Class::is_derived_from_pedantic', 'typemap::class::Class::find_map_self_and_base_classes'):
        fn = L.fn(path)
        if fn is None:
            ck.ob('R17.9', 'error-item-does-not-end-the-search|%s' % short(path), False, '', 'fn not found')
            continue
        fm = next((c for c in H.calls_in(fn['body']) if c.get('m') == 'find_map' and any(x.get('m') == 'base_classes' for x in H.calls_in(c['recv']))), None)
        dl = next((c for c in H.calls_in(fn['body']) if c.get('m') == 'find_map_base_classes'), None)
        if fm is None and dl is not None and hres is not None:
            n9 += 1
            ck.ob('R17.9', 'error-item-does-not-end-the-search|%s' % short(path), hres[0], L.loc(dl), 'walks through find_map_base_classes(): ' + hres[1], fn=fn['path'])
            ck.ob('R17.9', 'matching-item-ends-search-others-continue|%s' % short(path), hres[0], L.loc(dl), 'walks through find_map_base_classes(): ' + hres[1], fn=fn['path'])
            continue
        if fm is None or fm['args'][0].get('k') != 'Closure':
            own = loop_walk(fn)
            if own is not None:
                n9 += 1
                ck.ob('R17.9', 'error-item-does-not-end-the-search|%s' % short(path), own[0], L.loc(fn['body']), own[1], fn=fn['path'])
                continue
            ck.ob('R17.9', 'error-item-does-not-end-the-search|%s' % short(path), False, L.loc(fn['body']), 'neither base_classes().find_map(<closure>) nor a loop over base_classes() found')
            continue
        n9 += 1
        I = aeval.Interp(L, lenient=True)
        clo = ('#closure', fm['args'][0], {})
        try:
            r_err = I.apply(clo, [('Err', ('#dangling',))], 0)
        except aeval.Undecided as e:
            r_err = ('undecided', str(e))
        ok = r_err == ('None',)
        ck.ob('R17.9', 'error-item-does-not-end-the-search|%s' % short(path), ok, L.loc(fm),
              'the closure yields None for an Err item: the walk goes on to the remaining super classes' if ok else
              'the closure handed to find_map yields %r for an Err item (a super class name that does not resolve): find_map stops there, so whether a base/property/method '
              'is found depends on whether the dangling super class is listed before or after the one that provides it' % (r_err,), fn=fn['path'])
        # and the useful cases: a matching super class ends the walk with the hit, a non-matching one lets it go on
        bsf = H.binding_sites(fn)
        env = {}
        for h, b in bsf.items():
            if b['kind'] == 'param' and b['index'] == 1:
                if 'Fn' not in fn['inputs'][1] and 'Class' in fn['inputs'][1]:
                    env[h] = ('Class', 'B')                                   # `base`
                else:
                    env[h] = lambda a: ('Some', ('Ok', ('hit', a[0]))) if a[0] == ('Class', 'B') else ('None',)   # `f`
        clo = ('#closure', fm['args'][0], env)
        cases = []
        for item, want in ((('Ok', ('Class', 'B')), 'Some'), (('Ok', ('Class', 'C')), 'None')):
            try:
                r = I.apply(clo, [item], 0)
            except aeval.Undecided as e:
                r = ('undecided', str(e))
            cases.append((item, r, isinstance(r, tuple) and r[0] == want and (want == 'None' or (isinstance(r[1], tuple) and r[1][0] == 'Ok'))))
        ck.ob('R17.9', 'matching-item-ends-search-others-continue|%s' % short(path), all(c[2] for c in cases), L.loc(fm),
              '; '.join('%r -> %r' % (c[0], c[1]) for c in cases), fn=fn['path'])
    ck.floor('R17.9', n9, 2, 'walks over base_classes()')

    # ---- R17.10 identity of classes (what the visited set, `self == base` and `&c == base` rely on) -------------------------------
    eqf = next((f for f in L.fn_list if 'typemap::util::TypeDataRef' in f['path'] and f['name'] == 'eq' and f.get('impl_trait', '').endswith('PartialEq')), None)
    hsf = next((f for f in L.fn_list if 'typemap::util::TypeDataRef' in f['path'] and f['name'] == 'hash'), None)
    if eqf is None or hsf is None:
        ck.floor('R17.10', 0, 2, 'PartialEq / Hash impls of TypeDataRef')
    else:
        ck.analysed(eqf['path'])
        ck.analysed(hsf['path'])
        e = [c for c in H.calls_in(eqf['body']) if (H.callee(c) or c.get('def') or '').endswith('ptr::eq')]
        ok = len(e) == 1 and len(list(H.return_exprs(eqf['body']))) == 1 and list(H.return_exprs(eqf['body']))[0] is e[0] and \
            [pp(a) for a in e[0]['args']] in (['self.0', 'other.0'], ['other.0', 'self.0'])
        ck.ob('R17.10', 'eq-is-address-equality', ok, L.loc(eqf['body']), 'TypeDataRef == TypeDataRef is ptr::eq(self.0, other.0): two descriptions are the same class only if they are the same entry')
        h = [c for c in H.calls_in(hsf['body']) if (H.callee(c) or c.get('def') or '').endswith('ptr::hash')]
        ok = len(h) == 1 and pp(h[0]['args'][0]) == 'self.0' and len([c for c in H.calls_in(hsf['body']) if c.get('k') in ('Call', 'MCall')]) == 1
        ck.ob('R17.10', 'hash-agrees-with-eq', ok, L.loc(hsf['body']), 'Hash is ptr::hash(self.0): consistent with address equality (a HashSet<Class> never merges or splits classes)')
    cadt = L.adts.get('typemap::class::Class') or {}
    derives = {f.get('x') for f in L.fn_list if f['path'].startswith('<typemap::class::Class as') and f.get('x')}
    ck.ob('R17.10', 'class-derives-eq-and-hash-together', {'PartialEq', 'Hash'} <= derives or not derives, '', 'derived impls on Class: %s (field-wise over the data reference and the parent space)' % sorted(d for d in derives if d))

    # ---- R17.11 owner of a looked-up member -----------------------------------------------------------------------------------------
    # a property / method / inner type is built from an entry of `R.data.<table>` together with the class it belongs to; that class is
    # R itself (the class whose table was searched), not the class the walk over the ancestors started from
    n11 = 0
    for fn in L.fn_list:
        if not fn['path'].startswith('typemap::class::') and not fn['path'].startswith('<typemap::class::'):
            continue
        for r in walk(fn['body']):
            if not (r.get('k') == 'Field' and r.get('f') in ('property_map', 'public_methods', 'inner_type_map')):
                continue
            owner = H.root_local(r)
            if owner is None or 'typemap::class::Class' not in (L.ty(owner) or ''):
                continue
            # the scope the entry lives in: the nearest enclosing closure, else the function
            scope = next((a for a in H.ancestors(fn, r) if a.get('k') == 'Closure'), None)
            scope = scope['body'] if scope is not None else fn['body']
            ch = r
            handed = []
            for x in walk(scope):
                if x.get('k') == 'MCall' and x.get('m') == 'clone' and H.strip_refs(x['recv']).get('k') == 'Path' and 'typemap::class::Class' in (L.ty(H.strip_refs(x['recv'])) or ''):
                    handed.append(H.strip_refs(x['recv']))
            if not handed:
                continue
            n11 += 1
            ck.analysed(fn['path'])
            wrong = [h for h in handed if h.get('hid') != owner.get('hid')]
            ck.ob('R17.11', 'owner-is-the-class-searched|%s|%s' % (short(fn['path']), r.get('f')), not wrong, L.loc(ch),
                  'entries of %s.data.%s are handed out with %s.clone() as their class' % (owner.get('name'), r.get('f'), owner.get('name')) if not wrong else
                  'an entry found in the %s of `%s` is handed out as belonging to `%s`: an inherited member claims to be declared by the class the lookup started from '
                  '(its NOTIFY signal, overloads and inner types are then resolved from the wrong class)' % (r.get('f'), owner.get('name'), wrong[0].get('name')), fn=fn['path'])
    ck.floor('R17.11', n11, 4, 'member tables read together with an owner class')

    # ---- R17.12 stored names are resolved, not merely looked up ------------------------------------------------------------------------------
    # resolve_type*() walks the enclosing scopes and the imported modules; get_type*() looks at the space itself only. A name written in
    # the type data refers to whatever is visible from where it was written, so it has to be resolved.
    n12 = 0
    for fn in L.fn_list:
        pth = fn['path']
        if not pth.startswith(('typemap::class::', 'typemap::enum_::', 'typemap::function::', 'typemap::util::', '<typemap::class::', '<typemap::enum_::', '<typemap::function::')):
            continue
        if (fn.get('impl_trait') or '').endswith('TypeSpace'):
            continue        # the lookup API itself (get_type on self and its members)
        for c in H.calls_in(fn['body']):
            if c.get('k') != 'MCall' or c.get('m') not in ('resolve_type_scoped', 'resolve_type', 'get_type_scoped', 'get_type', 'resolve_enum_by_variant', 'get_enum_by_variant'):
                continue
            rt = (L.ty(c['recv'], adjusted=True) or '') + ' ' + (L.ty(c['recv']) or '')
            rl = H.root_local(c['recv'])
            on_other = 'ParentSpace' in rt or ('typemap::class::Class' in rt and (rl or {}).get('name') != 'self') or H.strip_refs(c['recv']).get('k') == 'Field'
            if not on_other:
                continue
            n12 += 1
            ck.analysed(pth)
            ok = c['m'].startswith('resolve_')
            ck.ob('R17.12', 'stored-name-resolved|%s|%s' % (short(pth), pp(H.strip_refs(c['recv']), maxlen=30)), ok, L.loc(c),
                  '%s.%s(<stored name>): found through the enclosing scopes and imports' % (pp(H.strip_refs(c['recv']), maxlen=30), c['m']) if ok else
                  '%s.%s(..) looks at that space only: a super class, alias or member type that lives in an imported module or an outer scope is reported as an invalid reference '
                  '(derives-from and inherited members then disagree with the class graph)' % (pp(H.strip_refs(c['recv']), maxlen=30), c['m']), fn=pth)
    ck.floor('R17.12', n12, 4, 'resolutions of stored type names')

    # ---- R17.13 the component graph: which module a component's super-class name is looked up in (C18 R18.4, same facts) ----------------------
    import core as _core13
    import rules.c18 as c18
    ck.rule('R17.13', 'a QML component resolves its root type in the same scope, in the same order, as a source document does (shared with C18)')
    s18 = _core13.Shared(ck, 'R17.13', lambda r, k: r == 'R18.4' and (k.startswith('own-directory-imported') or k.startswith('base-directory-imported') or k.startswith('import-stack-') or k == 'component-name-and-super' or k.startswith('every-import-kind')), 'C18:',
                         ' [the super class of a component is whatever its root type name resolves to: the order of the import stack is part of the class graph]')
    c18.run(s18)
    ck.floor('R17.13', s18.count, 4, 'shared C18 R18.4 obligations')

    # a directory module is one module whichever way its path is spelled (C18 R18.1k / R18.1n)
    ck.rule('R17.14', 'a directory import and the directory it names are one module: keys are normalised paths (shared with C18)')
    s18k = _core13.Shared(ck, 'R17.14', lambda r, k: r in ('R18.1k', 'R18.1n'), 'C18:',
                          ' [a module recorded under an un-normalised key is loaded twice: the super class of the importing component is a copy, and derivation tests against the original fail]')
    c18.run(s18k)
    ck.floor('R17.14', s18k.count, 3, 'shared C18 R18.1k / R18.1n obligations')

    # ---- R17.15 the name a class is registered under is the last component of its qualified name -------------------------------------------------
    ck.rule('R17.15', 'a class built from a qualified name is registered under the last `::` component')
    ck.explanation += (' R17.14 re-files C18 R18.1k/R18.1n (directory module keys are normalised paths). R17.15 evaluates the splitting chain of metatype::unqualify_name on '
                       'A::B::C, A::B, A and expects the last component.')
    un = L.fn('metatype::unqualify_name')
    if un is None:
        users = [f for f in L.fn_list if f['path'].startswith('metatype::Class::') and f['name'] in ('new', 'new_gadget', 'with_supers')]
        ck.floor('R17.15', 0 if users else 1, 1, 'fn metatype::unqualify_name (or no by-name Class constructors)')
    else:
        ck.analysed(un['path'])
        res = [last_component_eval(un, s_) for s_ in ('A::B::C', 'A::B', 'A')]
        want = ['C', 'B', 'A']
        ck.ob('R17.15', 'class-name-is-the-last-component', res == want, L.loc(un['body']),
              'unqualify_name: A::B::C -> C, A::B -> B, A -> A' if res == want else
              'unqualify_name gives %s for A::B::C, A::B, A (expected C, B, A; None = expression not understood): a class in a nested scope is registered under a name no lookup asks for' % res, fn=un['path'])
        callers = [f['path'] for f in L.fn_list if f.get('body') is not None and any(H.is_call_to(c, 'unqualify_name') for c in H.calls_in(f['body']))]
        ck.floor('R17.15', len(callers), 3, 'Class constructors that unqualify the name')


def last_component_eval(fn, sample):
    """evaluate a small str-splitting chain over the first parameter of fn on a sample string; None if a step is not understood"""
    ph = {b['hid'] for b in H.pat_bindings(fn['params'][0])} if fn.get('params') else set()
    rets = list(H.return_exprs(fn['body']))
    if len(rets) != 1:
        return None

    def ev(e):
        e = H.strip_refs(e)
        k = e.get('k')
        if k == 'Path' and e.get('hid') in ph:
            return sample
        if k == 'Lit' and isinstance(e.get('v'), str):
            return e['v']
        if k != 'MCall':
            raise ValueError(k)
        m = e['m']
        recv = ev(e['recv'])
        args = e['args']
        if m in ('split_once', 'rsplit_once') and isinstance(recv, str):
            sep = ev(args[0])
            if sep not in recv:
                return ('none',)
            l, _, r = recv.partition(sep) if m == 'split_once' else recv.rpartition(sep)
            return ('some', (l, r))
        if m in ('split', 'rsplit') and isinstance(recv, str):
            parts = recv.split(ev(args[0]))
            return ('iter', parts if m == 'split' else parts[::-1])
        if m in ('last', 'next') and isinstance(recv, tuple) and recv[0] == 'iter':
            if not recv[1]:
                return ('none',)
            return ('some', recv[1][-1] if m == 'last' else recv[1][0])
        if m == 'map' and isinstance(recv, tuple) and recv[0] in ('some', 'none'):
            if recv[0] == 'none':
                return recv
            cl = H.strip_refs(args[0])
            if cl.get('k') != 'Closure' or len(cl.get('params', [])) != 1:
                raise ValueError('map')
            pat = cl['params'][0]
            body = H.strip_refs(cl['body'])
            while body.get('k') == 'Block' and not body.get('stmts') and 'e' in body:
                body = H.strip_refs(body['e'])
            if body.get('k') != 'Path':
                raise ValueError('map body')
            if pat.get('k') == 'PTup' and isinstance(recv[1], tuple):
                for i, sp in enumerate(pat['subs']):
                    if any(b['hid'] == body.get('hid') for b in H.pat_bindings(sp)):
                        return ('some', recv[1][i])
            if pat.get('k') == 'Bind' and pat.get('hid') == body.get('hid'):
                return recv
            raise ValueError('map pattern')
        if m in ('find', 'rfind') and isinstance(recv, str):
            sep = ev(args[0])
            i = recv.find(sep) if m == 'find' else recv.rfind(sep)
            return ('some', ('idx', i)) if i >= 0 else ('none',)
        if m == 'map_or' and isinstance(recv, tuple) and recv[0] in ('some', 'none') and len(args) == 2:
            if recv[0] == 'none':
                return ev(args[0])
            cl = H.strip_refs(args[1])
            v = recv[1]
            if cl.get('k') != 'Closure' or len(cl.get('params', [])) != 1 or cl['params'][0].get('k') != 'Bind' or not (isinstance(v, tuple) and v[0] == 'idx'):
                raise ValueError('map_or')
            body = H.strip_refs(cl['body'])
            while body.get('k') == 'Block' and not body.get('stmts') and 'e' in body:
                body = H.strip_refs(body['e'])
            # &name[i + K..]
            if body.get('k') == 'Index' and H.strip_refs(body['e']).get('hid') in ph:
                rg = H.strip_refs(body['i'])
                st = next((f_['e'] for f_ in rg.get('fields', []) if f_['f'] == 'start'), None) if rg.get('k') == 'Struct' and len(rg.get('fields', [])) == 1 else None
                st = H.strip_refs(st) if st is not None else None
                if st is not None and st.get('k') == 'Binary' and st.get('op') == 'Add' and H.strip_refs(st['l']).get('hid') == cl['params'][0].get('hid') and isinstance(H.lit_value(st['r']), int):
                    return sample[v[1] + H.lit_value(st['r']):]
            raise ValueError('map_or body')
        if m == 'unwrap_or' and isinstance(recv, tuple) and recv[0] in ('some', 'none'):
            return recv[1] if recv[0] == 'some' else ev(args[0])
        if m in ('unwrap', 'expect') and isinstance(recv, tuple) and recv[0] == 'some':
            return recv[1]
        raise ValueError(m)
    try:
        v = ev(rets[0])
    except (ValueError, KeyError, IndexError, TypeError):
        return None
    return v if isinstance(v, str) else None
