"""C03: values embedded in the .ui equal the value of their source expression."""
import re
from facts import walk, short, pp
import hirutil as H
import tables as T
from core import load_oracle, load_table

LEVEL = 'other'
TECHNIQUE = ('decision tables of the literal decoders (escape sequences, radix prefixes) against an ECMAScript oracle, shared folding tables '
             '(C01 R1.2), variant-to-variant mapping tables of the constant evaluator and the XML value layer, cast inventory on the constant '
             'path, conservativeness conditions of the evaluator (unsupported => not constant, lists all-or-nothing)')
LEVEL_TEXT = ('Decides the finite tables and the conservativeness conditions behind every embedded constant: the escape table equals '
              'ECMAScript\'s SingleEscapeCharacter set plus \\0, \\u{..}, \\uXXXX and \\xXX decode base 16 and code points that are not scalar '
              'values are rejected; radix prefixes 0b/0o/0x (either case) and legacy octal select 2/8/16/8 with the right prefix length; '
              'integer literals above i64::MAX are rejected; integer folding is checked and overflow/negative shift become errors (shared '
              'with C01); evaluated kinds map one-to-one onto XML value kinds; translatable strings keep their Tr marking and only bare '
              'strings get notr; the evaluator gives up (dynamic) on anything it does not model and string/object lists are all-or-nothing. '
              'Float division and the i64->f64 cast are reported as known findings.')
LEVEL_NOTE = ('Trusted: oracles/ecma_literals.json; Rust std number parsing/formatting; rustc resolution. Not decided: end-to-end equality '
              'for computed values.')
DESIGN_REF = 'DESIGN.md section 4, C03'


def float_constants_finite(ck, L, rule):
    """Invariant: a ConstantValue::Float never holds inf or NaN (neither has a spelling as a .ui number or as a C++ literal).
    Who-may-construct: every construction site builds the constant from a value that is finite on every path reaching it:
    guarded by `is_finite()`, or the payload of another Float constant under a sign change, or an integer converted."""
    n = 0
    for fn in L.fn_list:
        if fn.get('x') in ('Clone', 'Debug', 'PartialEq') or not fn['path'].startswith(('tir::', '<tir::')):
            continue
        bs = H.binding_sites(fn)
        for c in walk(fn['body']):
            if not (c.get('k') == 'Call' and (c.get('def') or '').endswith('ConstantValue::Float') and len(c['args']) == 1):
                continue
            n += 1
            ck.analysed(fn['path'])
            arg = H.strip_refs(c['args'][0])
            ok, why = False, ''
            # (a) on a path where `<value>.is_finite()` was found true (then-branch) or its negation left the function
            hid = arg.get('hid') if arg.get('k') == 'Path' else None
            for a in H.ancestors(fn, c):
                if a.get('k') == 'If' and any(x is c for x in walk(a['then'])):
                    t = H.strip_refs(a['c'])
                    if t.get('k') == 'MCall' and t.get('m') == 'is_finite' and (H.root_local(t['recv']) or {}).get('hid') == hid and hid is not None:
                        ok, why = True, 'under `if %s.is_finite()`' % arg.get('name')
            if not ok and hid is not None:
                for iff in (x for x in walk(fn['body']) if x.get('k') == 'If'):
                    t = H.strip_refs(iff['c'])
                    if t.get('k') == 'Unary' and t.get('op') == 'Not':
                        t2 = H.strip_refs(t['e'])
                        if t2.get('k') == 'MCall' and t2.get('m') == 'is_finite' and (H.root_local(t2['recv']) or {}).get('hid') == hid and \
                                H.diverges_always(iff['then']) and H.lexically_precedes_dominating(fn, iff['c'], c):
                            ok, why = True, 'after `if !%s.is_finite() { return Err }`' % arg.get('name')
            # (b) a sign change / identity of the payload of another Float constant (finite by this very invariant)
            if not ok and hid is not None:
                vals = []
                b = bs.get(hid)
                if b and b['kind'] == 'let' and b['node'].get('init') is not None:
                    vals = [H.strip_refs(v) for v in H.value_exprs(b['node']['init'])]
                elif b and b['kind'] == 'arm':
                    vals = [arg]

                def payload(v):
                    while v.get('k') == 'Unary' and v.get('op') in ('Neg',):
                        v = H.strip_refs(v['e'])
                    if v.get('k') == 'Path' and v.get('res') == 'local':
                        b2 = bs.get(v.get('hid'))
                        return b2 is not None and b2['kind'] == 'arm' and 'ConstantValue::Float' in pp(b2['pat'], maxlen=80)
                    return False
                if vals and all(payload(v) for v in vals):
                    ok, why = True, 'the payload of a Float constant, at most negated'
            # (c) an integer converted
            if not ok and arg.get('k') == 'Cast' and (L.ty(arg['e']) or '') in ('i64', 'i32', 'u32', 'u64'):
                ok, why = True, 'an integer converted to f64'
            ck.ob(rule, 'float-constant-is-finite|%s' % short(fn['path']), ok, L.loc(c),
                  'ConstantValue::Float(%s): %s' % (pp(arg, maxlen=30), why) if ok else
                  'ConstantValue::Float(%s) is built from a value that may be inf or NaN (a folded 1.0/0.0, 0.0 %% 0.0, 1e308 * 10, a literal 1e999): it is embedded as <number>inf</number> / printed as `inf`' % pp(arg, maxlen=30), fn=fn['path'])
    ck.floor(rule, n, 3, 'constructions of ConstantValue::Float')


def run(ck):
    if getattr(ck, 'depth', 0) >= 2:
        return      # a shared run of a shared run: nothing of it is selected, and mutual sharing must end somewhere
    F = ck.facts
    L = F.lib
    oracle = load_oracle('ecma_literals.json')
    casts_tab = {r['key']: r for r in load_table('casts.json')['casts']}
    ck.explanation = (
        'R3.1 unescape_char single-character table == oracle; the three hex forms pass radix 16; char_from_str_radix ends in '
        '.ok().and_then(char::from_u32) (no replacement character); unknown escapes yield None. R3.2 strip_radix_prefix literal -> (radix, '
        'slice start) table == oracle; legacy octal guarded by all digits in 0..=7; parse_number_str falls back to radix 10 and treats '
        '. / e as float. R3.3 = C01 R1.2 obligations (checked i64 folding, Err on None, checked shift count); float Div/Rem unchecked is '
        'a finding. R3.4 every `as` cast in uigen::{expr,property,layout}, tir::interpret and qmlast::astutil is a reviewed row. R3.5 '
        'visit_integer converts u64 -> i64 with try_into()?. R3.6 Tr => StringKind::Tr only in the qsTr arm; notr pushed iff kind == NoTr. '
        'R3.7 evaluate_code: catch-all rvalue arm returns None, BrCond returns None, lists collect::<Option<Vec<_>>>()?. R3.8 mapping '
        'tables ConstantValue -> EvaluatedValue -> SimpleValue keep the payload.')
    for rid, text in (('R3.1', 'string escapes decode as ECMAScript defines; invalid escapes are rejected'),
                      ('R3.2', 'numeric literal prefixes select the ECMAScript radix'),
                      ('R3.3', 'constant folding is checked; undefined values are rejected'),
                      ('R3.4', 'no lossy cast on the constant path outside reviewed rows'),
                      ('R3.5', 'integer literals outside i64 are rejected'),
                      ('R3.6', 'translatable marking follows qsTr; notr marks exactly the bare strings'),
                      ('R3.7', 'the constant evaluator is conservative: anything it does not model is not a constant'),
                      ('R3.9', 'string values are written through escaping XML constructors, as exactly Start, Text, End (an omitted Text lets the indenting writer put white space into the value)'),
                      ('R3.8', 'evaluated values map onto XML value kinds without changing the payload')):
        ck.rule(rid, text)

    # ---- R3.1 escapes -------------------------------------------------------------------------
    ue = L.fn('qmlast::astutil::unescape_char')
    cf = L.fn('qmlast::astutil::char_from_str_radix')
    if ue is None or cf is None:
        ck.floor('R3.1', 0, 1, 'fns unescape_char / char_from_str_radix')
    else:
        ck.analysed(ue['path'])
        m = next((n for n in walk(ue['body']) if n.get('k') == 'Match' and any(T.peel_pat(a['pat']).get('k') == 'PLit' for a in n['arms'])), None)
        tab = {}
        rest = None
        if m is not None:
            for arm in m['arms']:
                vals = list(H.value_exprs(arm['body']))
                v = vals[0] if len(vals) == 1 else {}
                for alt in T.alternatives(arm['pat']):
                    a = T.peel_pat(alt)
                    if a.get('k') == 'PLit':
                        inner = v['args'][0] if v.get('k') == 'Call' and (v.get('def') or '').endswith('Option::Some') else {}
                        tab[a.get('v')] = H.strip_refs(inner).get('cp') if inner else None
                    elif a.get('k') in ('Wild', 'Bind'):
                        rest = pp(v)
        exp = {k: v for k, v in oracle['single_escapes'].items()}
        ck.floor('R3.1', len(tab), len(exp), 'single-character escapes')
        for ch in sorted(set(tab) | set(exp)):
            ck.ob('R3.1', 'escape|\\%s' % ch, tab.get(ch) == exp.get(ch), L.loc(m) if m else '',
                  '\\%s -> U+%04X' % (ch, tab[ch]) if tab.get(ch) == exp.get(ch) and tab.get(ch) is not None else
                  '\\%s decodes to %s; ECMAScript defines %s' % (ch, tab.get(ch), ('U+%04X' % exp[ch]) if ch in exp else 'no such escape (must be rejected)'))
        ck.ob('R3.1', 'unknown-escape-rejected', rest == 'None', L.loc(m) if m else '', 'other single characters => None')
        radix_calls = [c for c in H.calls_in(ue['body']) if H.is_call_to(c, 'char_from_str_radix')]
        ok = len(radix_calls) == 2 and all(H.lit_value(c['args'][1]) == 16 for c in radix_calls)
        ck.ob('R3.1', 'hex-forms-radix-16', ok, L.loc(ue['body']), '%d char_from_str_radix(.., 16) calls (\\u{..}, \\uXXXX/\\xXX)' % len(radix_calls))
        # lengths of the fixed forms
        lens = sorted(H.lit_value(n['r']) for n in walk(ue['body']) if n.get('k') == 'Binary' and n.get('op') == 'Eq' and any(x.get('m') == 'len' for x in H.calls_in(n['l'])) and isinstance(H.lit_value(n['r']), int))
        ck.ob('R3.1', 'fixed-form-lengths', lens == [1, 3, 5], L.loc(ue['body']), 'tail lengths tested: %s (single char, xXX, uXXXX)' % lens)
        ck.analysed(cf['path'])
        vals = list(H.return_exprs(cf['body']))
        names = []
        x = vals[0] if vals else {'k': 'x'}
        while x.get('k') == 'MCall':
            names.append(x['m'])
            last = x
            x = x['recv']
        names.reverse()
        head = short(H.callee_decl(x) or '') if x.get('k') == 'Call' else '?'
        at = [pp(a) for c in H.calls_in(cf['body']) if c.get('m') == 'and_then' for a in c['args']]
        ok = names == ['ok', 'and_then'] and head.endswith('from_str_radix') and at == ['from_u32']
        ck.ob('R3.1', 'non-scalar-code-points-rejected', ok, L.loc(cf['body']),
              'u32::from_str_radix(..).ok().and_then(char::from_u32)' if ok else 'code point conversion chain is %s(..).%s with %s: surrogates / > U+10FFFF must yield None, not a substitute' % (head, '.'.join(names), at))
        ps = L.fn('qmlast::astutil::parse_string')
        if ps is not None:
            m2 = next((n for n in walk(ps['body']) if n.get('k') == 'Match' and any(T.peel_pat(a['pat']).get('k') == 'PLit' for a in n['arms'])), None)
            t2, r2 = T.simple_table(m2, value=lambda e: [c.get('m') or short(H.callee_decl(c) or '') for c in H.calls_in(e)]) if m2 else ({}, None)
            ok = 'push_str' in (t2.get('string_fragment') or []) and r2 == ['!diverges']
            ck.ob('R3.1', 'fragments-copied-verbatim', ok, L.loc(m2) if m2 else '', 'string_fragment => decoded.push_str(s); escape_sequence => unescape_char(s)?; other => Err')
            esc = [c for c in H.calls_in(ps['body']) if H.is_call_to(c, 'unescape_char')]
            ok = len(esc) == 1 and any(c.get('m') in ('ok_or_else', 'ok_or') for c in H.calls_in(ps['body']))
            ck.ob('R3.1', 'bad-escape-is-parse-error', ok, L.loc(esc[0]) if esc else '', 'unescape_char(s).ok_or_else(ParseError)?')
            # there is no way round the decoder: every Ok(..) of parse_string hands out the buffer the per-child loop fills, and the loop
            # runs over all named children (a fast path that copies the text of a lone child would copy a lone escape sequence raw)
            oks = [H.strip_refs(v) for v in H.return_exprs(ps['body']) if H.strip_refs(v).get('k') == 'Call' and (H.strip_refs(v).get('def') or '').endswith('Result::Ok')]
            lp = next((n for n in walk(ps['body']) if n.get('k') == 'For' and m2 is not None and any(x is m2 for x in walk(n))), None)
            pushes = [c for c in H.calls_in(ps['body']) if c.get('m') in ('push_str', 'push')]
            bufs = {(H.root_local(c['recv']) or {}).get('hid') for c in pushes}
            ok = bool(oks) and lp is not None and len(bufs) == 1 and all(H.strip_refs(o['args'][0]).get('k') == 'Path' and H.strip_refs(o['args'][0]).get('hid') in bufs for o in oks)
            why = 'every Ok(..) returns the buffer filled by the loop over the children'
            if ok:
                it = pp(lp['iter'], maxlen=80)
                ok = 'named_children' in it and not re.search(r'\b(skip|take|filter|step_by|rev|skip_while|take_while)\b', it) and \
                    all(any(x is c for x in walk(lp)) for c in pushes)
                why = 'every Ok(..) returns the buffer filled by the loop over %s' % it
            else:
                why = 'parse_string has a result that does not come out of the decoding loop (%s): escape sequences on that path are handed on undecoded' % \
                    [pp(o, maxlen=50) for o in oks if not (H.strip_refs(o['args'][0]).get('k') == 'Path' and H.strip_refs(o['args'][0]).get('hid') in bufs)][:2]
            ck.ob('R3.1', 'no-way-round-the-decoder', ok, L.loc(ps['body']), why)

    # ---- R3.2 radix ----------------------------------------------------------------------------
    sr = L.fn('qmlast::astutil::strip_radix_prefix')
    pn = L.fn('qmlast::astutil::parse_number_str')
    if sr is None or pn is None:
        ck.floor('R3.2', 0, 1, 'fns strip_radix_prefix / parse_number_str')
    else:
        ck.analysed(sr['path'])
        got = {}
        cur = next((n for n in walk(sr['body']) if n.get('k') == 'If'), None)
        legacy = None
        while cur is not None and cur.get('k') == 'If':
            lits = [H.lit_value(a) for c in H.calls_in(cur['c']) if c.get('m') == 'starts_with' for a in c['args']]
            vals = list(H.value_exprs(cur['then']))
            v = vals[0] if len(vals) == 1 else {}
            radix = start = None
            if v.get('k') == 'Call' and v['args'] and H.strip_refs(v['args'][0]).get('k') == 'Tup':
                tup = H.strip_refs(v['args'][0])
                radix = H.lit_value(tup['es'][0])
                idx = next((n for n in walk(tup['es'][1]) if n.get('k') == 'Index'), None)
                if idx is not None:
                    st = [f for f in H.strip_refs(idx['i']).get('fields', []) if f['f'] == 'start']
                    start = H.lit_value(st[0]['e']) if st else None
            if cur['c'].get('k') == 'LetCond' and not lits:
                # `if let Some(t) = s.strip_prefix("0x").or_else(|| s.strip_prefix("0X")) { Some((16, t)) }`: what is left starts
                # right behind the prefix
                pat = cur['c']['pat']
                bound = {b['hid'] for b in H.pat_bindings(pat)}
                sp = [c for c in H.calls_in(cur['c']['e']) if c.get('m') == 'strip_prefix']
                others = [c for c in H.calls_in(cur['c']['e']) if c.get('m') not in ('strip_prefix', 'or_else', 'or')]
                if sp and not others and (pat.get('def') or '').endswith('Option::Some') and v.get('k') == 'Call' and v['args'] and H.strip_refs(v['args'][0]).get('k') == 'Tup':
                    tup = H.strip_refs(v['args'][0])
                    rest = H.strip_refs(tup['es'][1])
                    if rest.get('k') == 'Path' and rest.get('hid') in bound:
                        for c in sp:
                            lit = H.lit_value(c['args'][0]) if c['args'] else None
                            if isinstance(lit, str) and len(lit) == 2:
                                got[lit] = [radix, len(lit)]
            for lit in lits:
                if isinstance(lit, str) and len(lit) == 2:
                    got[lit] = [radix, start]
                elif lit == '0':
                    legacy = (radix, start, cur['c'])
            nxt = cur.get('els')
            while nxt is not None and nxt.get('k') == 'Block' and not nxt.get('stmts') and 'e' in nxt and nxt['e'].get('k') == 'If':
                nxt = nxt['e']
            cur = nxt if nxt is not None and nxt.get('k') == 'If' else None
        exp = oracle['radix_prefixes']
        ck.floor('R3.2', len(got), len(exp), 'radix prefix literals')
        for pfx in sorted(set(got) | set(exp)):
            ck.ob('R3.2', 'prefix|%s' % pfx, got.get(pfx) == exp.get(pfx), L.loc(sr['body']),
                  '%s -> radix %s, digits from byte %s' % (pfx, *(got.get(pfx) or ['?', '?'])) if got.get(pfx) == exp.get(pfx) else
                  'prefix %s selects (radix, start) %s; ECMAScript: %s' % (pfx, got.get(pfx), exp.get(pfx)))
        ok = False
        if legacy is not None:
            c = legacy[2]
            octal = any(x.get('k') == 'Struct' and 'RangeInclusive' in (x.get('def') or '') for x in walk(c)) or ("'0'" in pp(c) and "'7'" in pp(c)) or ('"0"' in pp(c) and '"7"' in pp(c))
            rng = [H.lit_value(a) for x in walk(c) if x.get('k') == 'Call' and 'RangeInclusive' in (x.get('def') or '') for a in x['args']]
            ok = legacy[0] == 8 and legacy[1] == 1 and rng == ['0', '7'] and any(x.get('m') == 'all' for x in H.calls_in(c)) and any(n.get('op') == 'Gt' and H.lit_value(n['r']) == 1 for n in walk(c) if n.get('k') == 'Binary')
        ck.ob('R3.2', 'legacy-octal', ok, L.loc(sr['body']), 'leading 0, length > 1, all digits in 0..=7 => radix 8 from byte 1')
        ck.analysed(pn['path'])
        tens = [c for c in H.calls_in(pn['body']) if H.is_call_to(c, 'parse_integer_str_radix') and H.lit_value(c['args'][1]) == 10]
        fl = [c for c in H.calls_in(pn['body']) if c.get('m') == 'contains']
        chars = sorted(x.get('v') for c in fl for x in walk(c['args'][0]) if x.get('k') == 'Lit')
        ck.ob('R3.2', 'decimal-fallback', len(tens) == 1, L.loc(pn['body']), 'no prefix and no . / e => parse_integer_str_radix(s, 10)')
        ck.ob('R3.2', 'float-detection', chars == ['.', 'e'], L.loc(pn['body']), 'float iff the text contains %s' % chars)
        pi = L.fn('qmlast::astutil::parse_integer_str_radix')
        if pi is not None:
            flt = [pp(c['args'][0]) for c in H.calls_in(pi['body']) if c.get('m') == 'filter']
            ok = any("'_'" in f or '"_"' in f for f in flt) and sum(1 for c in H.calls_in(pi['body']) if 'from_str_radix' in (H.callee_decl(c) or '')) == 2
            ck.ob('R3.2', 'digit-separators', ok, L.loc(pi['body']), 'retry after removing `_` only')

    # ---- R3.3 folding (shared with C01 R1.2) -------------------------------------------------------
    import core as _core
    import rules.c01 as c01
    sub = _core.Check('C01', ck.tier, ck.facts)
    sub.depth = getattr(ck, 'depth', 0) + 1
    c01.run(sub)
    n3 = 0
    for o in sub.obligations:
        if o['rule'] in ('R1.1', 'R1.2', 'R1.8'):
            n3 += 1
            ck.ob('R3.3', '%s|%s' % (o['rule'], o['key']), o['ok'], o['loc'], o['detail'], nontrivial=False)
    ck.floor('R3.3', n3, 90, 'operator and folding obligations shared with C01')
    float_constants_finite(ck, L, 'R3.3')

    # ---- R3.4 casts ----------------------------------------------------------------------------------
    n_c = 0
    for fn in L.fn_list:
        if not re.match(r'^<?(uigen::(expr|property|layout|gadget|xmlutil)|tir::(interpret|ceval|builder)|qmlast::astutil)::', fn['path']):
            continue
        if fn.get('x') in ('Clone', 'Debug', 'PartialEq'):
            continue
        ordn = {}
        for n in walk(fn['body']):
            if n.get('k') == 'Cast':
                src = L.ty(n['e']) or '?'
                dst = L.ty(n) or '?'
                if src == dst:
                    continue
                n_c += 1
                base = '%s|%s->%s' % (short(fn['path']), src, dst)
                i = ordn.get(base, 0)
                ordn[base] = i + 1
                key = base + ('#%d' % (i + 1) if i else '')
                row = casts_tab.get(key)
                if row is None:
                    ck.ob('R3.4', key, False, L.loc(n), 'unreviewed cast `%s` (%s as %s) on the constant path' % (pp(n, maxlen=40), src, dst), fn=fn['path'])
                elif row['status'] == 'finding':
                    ck.ob('R3.4', key, False, L.loc(n), row['reason'], fn=fn['path'])
                else:
                    ck.ob('R3.4', key, True, L.loc(n), row['reason'], fn=fn['path'])
    ck.floor('R3.4', n_c, 8, 'casts on the constant path')

    # ---- R3.5 integer literal range -------------------------------------------------------------------
    vi = next((f for f in L.fn_list if f['name'] == 'visit_integer' and 'CodeBuilder' in f['path']), None)
    if vi is not None:
        ck.analysed(vi['path'])
        tr = [c for c in H.calls_in(vi['body']) if c.get('m') == 'try_into']
        ok = len(tr) == 1 and H.parents(vi).get(id(tr[0]), {}).get('k') == 'Try' and not [n for n in walk(vi['body']) if n.get('k') == 'Cast']
        ck.ob('R3.5', 'u64-to-i64-checked', ok, L.loc(vi['body']), 'ConstantValue::Integer(value.try_into()?)')
    else:
        ck.floor('R3.5', 0, 1, 'fn visit_integer')

    # ---- R3.6 string kind ----------------------------------------------------------------------------------
    ev = L.fn('tir::interpret::evaluate_code')
    if ev is None:
        ck.floor('R3.6', 0, 1, 'fn evaluate_code')
    else:
        ck.analysed(ev['path'])
        kinds = {}
        for c in H.calls_in(ev['body']):
            if H.is_call_to(c, 'to_evaluated_value'):
                arm = next((a for a in H.ancestors(ev, c) if a.get('k') == 'Arm' and 'Rvalue::' in pp(a['pat'])), None)
                where = T.variant_names(arm['pat'])[0] if arm is not None else 'other'
                if arm is not None and 'BuiltinFunctionKind::Tr' in pp(arm['pat']):
                    where = 'Tr'
                kinds.setdefault(where, []).append(pp(c['args'][2]))
        ok = kinds.get('Tr') == ['StringKind::Tr'] and all(v == ['StringKind::NoTr'] * len(v) for k, v in kinds.items() if k != 'Tr') and len(kinds) >= 3
        ck.ob('R3.6', 'tr-kind-only-for-qsTr', ok, L.loc(ev['body']), 'StringKind passed to to_evaluated_value by context: %s' % kinds)
    for path in ('uigen::expr::SimpleValue::serialize_to_xml_as', 'uigen::expr::serialize_string_list_to_xml'):
        fn = L.fn(path)
        if fn is None:
            ck.ob('R3.6', 'notr|%s' % short(path), False, '', 'fn not found')
            continue
        pushes = [c for c in H.calls_in(fn['body']) if c.get('m') == 'push_attribute' and any(H.lit_value(x) == 'notr' for x in walk(c['args'][0]))]
        ok = False
        if len(pushes) == 1:
            iff = next((a for a in H.ancestors(fn, pushes[0]) if a.get('k') == 'If'), None)
            c = iff['c'] if iff else {}
            ok = c.get('k') == 'Binary' and c.get('op') == 'Eq' and 'StringKind::NoTr' in pp(c) and [H.lit_value(x) for x in walk(pushes[0]['args'][0]) if x.get('k') == 'Lit'] == ['notr', 'true']
        ck.ob('R3.6', 'notr|%s' % short(path), ok, L.loc(pushes[0]) if pushes else '', 'notr="true" pushed iff kind == StringKind::NoTr', fn=path)
    es = L.fn('uigen::expr::extract_static_string')
    if es is not None:
        ok = 'StringKind::NoTr' in pp(es['body']) and any(c.get('m') == 'unwrap_string' for c in H.calls_in(es['body']))
        ck.ob('R3.6', 'static-strings-are-bare', ok, L.loc(es['body']), 'pixmap/colour strings must be NoTr (a translated one is an error)')
        # .. and handed on as written: the Some(..) result is the unwrapped string itself, through owning/borrowing views only
        VIEWS_ = {'to_owned', 'clone', 'to_string', 'into', 'as_str', 'as_ref', 'borrow', 'deref'}
        bad = []
        n_some = 0
        for r in H.return_exprs(es['body']):
            rr = H.strip_refs(r)
            if not (rr.get('k') == 'Call' and (rr.get('def') or '').endswith('Option::Some') and len(rr['args']) == 1):
                continue
            n_some += 1
            v = H.strip_refs(rr['args'][0])
            steps = []
            while v.get('k') == 'MCall':
                steps.append(v['m'])
                v = H.strip_refs(v['recv'])
            odd = [m_ for m_ in steps if m_ not in VIEWS_]
            b = H.binding_sites(es).get(v.get('hid')) if v.get('k') == 'Path' and v.get('res') == 'local' else None
            src = b['node'].get('e') if b is not None and b['kind'] == 'letcond' else (b['node'].get('init') if b is not None and b['kind'] == 'let' else None)
            if b is not None and b['kind'] == 'arm':
                mt = H.parents(es).get(id(b['node']))
                src = mt.get('e') if mt is not None and mt.get('k') == 'Match' else None
            from_unwrap = src is not None and any(c.get('m') == 'unwrap_string' for c in H.calls_in(src))
            if odd or not from_unwrap:
                bad.append('%s%s' % (pp(rr['args'][0], maxlen=50), '' if from_unwrap else ' (not the unwrapped string)'))
        ck.ob('R3.6', 'static-string-returned-as-is', n_some >= 1 and not bad, L.loc(es['body']),
              'Some(s) with s the string from unwrap_string(), unchanged' if n_some >= 1 and not bad else
              'the string handed on is not the string as written (%s): a pixmap path or colour string is altered before it is used, so text that must be refused can be accepted' % (bad or 'no Some(..) result found'), fn=es['path'])

    # ---- R3.7 conservative evaluator ---------------------------------------------------------------------------
    if ev is not None:
        rm = next((n for n in walk(ev['body']) if n.get('k') == 'Match' and any('Rvalue::Copy' in pp(a['pat']) for a in n['arms'])), None)
        if rm is None:
            ck.ob('R3.7', 'rvalue-table', False, '', 'match on the assigned rvalue not found')
        else:
            tabr, rest = T.simple_table(rm)
            ck.ob('R3.7', 'unmodelled-rvalue-aborts', rest == ['!diverges'], L.loc(rm),
                  'modelled rvalues: %s; anything else => return None' % sorted(k for k in tabr if isinstance(k, str)) if rest == ['!diverges'] else
                  'an rvalue the evaluator does not model no longer aborts evaluation (catch-all = %s): a dynamic expression can be folded to a constant' % rest)
            allowed = {'Copy', 'BinaryOp', 'CallBuiltinFunction', 'CallMethod', 'MakeList'}
            ck.ob('R3.7', 'modelled-rvalue-set', set(k for k in tabr if isinstance(k, str)) == allowed, L.loc(rm), 'modelled: %s' % sorted(k for k in tabr if isinstance(k, str)))
            # the returned None must leave the function (Ret), not just the local
            catch = next((a for a in rm['arms'] if T.variant_names(a['pat']) == [T.ANY]), None)
            ok = catch is not None and catch['body'].get('k') == 'Ret' and (catch['body'].get('e', {}).get('def') or '').endswith('Option::None')
            ck.ob('R3.7', 'abort-leaves-the-function', ok, L.loc(catch) if catch else '', '_ => return None')
        tm = next((n for n in walk(ev['body']) if n.get('k') == 'Match' and any('Terminator::' in pp(a['pat']) for a in n['arms'])), None)
        if tm is not None:
            tt = {}
            for arm in tm['arms']:
                for v in T.variant_names(arm['pat']):
                    tt[v] = 'ret-none' if (arm['body'].get('k') == 'Ret' and (arm['body'].get('e', {}).get('def') or '').endswith('Option::None')) else ('ret' if arm['body'].get('k') == 'Ret' else 'other')
            ck.ob('R3.7', 'branches-are-not-constant', tt.get('BrCond') == 'ret-none', L.loc(tm), 'terminators: %s' % tt)
        else:
            ck.ob('R3.7', 'terminator-table', False, '', 'match on the terminator not found')
    tl = L.fn('tir::interpret::to_evaluated_list')
    if tl is not None:
        ck.analysed(tl['path'])
        cols = [c for c in H.calls_in(tl['body']) if c.get('m') == 'collect']
        ok = len(cols) == 2 and all((L.ty(c) or '').startswith('std::option::Option<std::vec::Vec<') and H.parents(tl).get(id(c), {}).get('k') == 'Try' for c in cols) and \
            not any(c.get('m') in ('filter_map', 'flatten', 'flat_map', 'filter') for c in H.calls_in(tl['body']))
        ck.ob('R3.7', 'lists-all-or-nothing', ok, L.loc(tl['body']), 'both list kinds collect::<Option<Vec<_>>>()?: one non-constant element makes the whole list dynamic')
    te = L.fn('tir::interpret::to_evaluated_value')
    if te is not None:
        ck.analysed(te['path'])
        loc_arm = next((a for n in walk(te['body']) if n.get('k') == 'Match' for a in n['arms'] if 'Operand::Local' in pp(a['pat'])), None)
        ok = loc_arm is not None and any(n.get('k') == 'Index' for n in walk(loc_arm['body'])) and not any(c.get('m') in ('unwrap_or', 'unwrap_or_default', 'or') for c in H.calls_in(loc_arm['body']))
        ck.ob('R3.7', 'unknown-local-is-unknown', ok, L.loc(loc_arm) if loc_arm else '', 'Operand::Local => locals[i].clone() (None stays None)')

    # ---- R3.8 mapping tables ------------------------------------------------------------------------------------
    if te is not None:
        cm = next((n for n in walk(te['body']) if n.get('k') == 'Match' and any('ConstantValue::' in pp(a['pat']) for a in n['arms'])), None)
        got = {}
        if cm is not None:
            for arm in cm['arms']:
                var = T.variant_names(arm['pat'])[0]
                chain = T.ctor_chain(list(H.value_exprs(arm['body']))[0])
                binds = {b['hid'] for b in H.pat_bindings(arm['pat'])}
                payload = any(x.get('k') == 'Path' and x.get('hid') in binds for x in walk(arm['body'])) or not binds
                got[var] = (chain[1] if len(chain) > 1 else chain[0], payload)
        exp = {'Bool': ('Bool', True), 'Integer': ('Integer', True), 'Float': ('Float', True), 'CString': ('String', True), 'QString': ('String', True),
               'NullPointer': ('None', True), 'EmptyList': ('EmptyList', True)}
        ck.ob('R3.8', 'constant-to-evaluated', got == exp, L.loc(cm) if cm else '', 'ConstantValue -> EvaluatedValue: %s' % got)
    us = next((f for f in L.fn_list if f['name'] == 'unwrap_into_simple_value'), None)
    if us is not None:
        m = next((n for n in walk(us['body']) if n.get('k') == 'Match'), None)
        got = {}
        if m is not None:
            for arm in m['arms']:
                var = T.variant_names(arm['pat'])[0]
                if var == T.ANY:
                    continue
                chain = T.ctor_chain(list(H.value_exprs(arm['body']))[0])
                got[var] = chain[0] if chain else '?'
        exp = {'Bool': 'Bool', 'Integer': 'Number', 'Float': 'Number', 'String': 'String'}
        ck.ob('R3.8', 'evaluated-to-simple', got == exp, L.loc(m) if m else '', 'EvaluatedValue -> SimpleValue: %s' % got)
    sd = next((f for f in L.fn_list if f['name'] == 'fmt' and 'SimpleValue' in (f.get('impl_self') or '') and f.get('impl_trait') == 'std::fmt::Display'), None)
    if sd is not None:
        m = next((n for n in walk(sd['body']) if n.get('k') == 'Match'), None)
        ok = False
        if m is not None:
            barm = next((a for a in m['arms'] if 'SimpleValue::Bool' in pp(a['pat'])), None)
            lits = [H.lit_value(x) for x in walk(barm['body']) if x.get('k') == 'Lit' and x.get('lk') == 'str'] if barm else []
            iff = next((n for n in walk(barm['body']) if n.get('k') == 'If'), None) if barm else None
            ok = iff is not None and [H.lit_value(v) for v in H.value_exprs(iff['then'])] == ['true'] and [H.lit_value(v) for v in H.value_exprs(iff['els'])] == ['false']
        ck.ob('R3.8', 'bool-spelling', ok, L.loc(m) if m else '', 'Bool(b) prints "true" / "false"')
        # every other payload is printed as it is: one unguarded arm per variant group, `{}` of the bound payload, no width /
        # precision / alternate spec, no conversion in between
        if m is not None:
            sites = H.format_sites_in_fn(sd)
            for arm in m['arms']:
                names = sorted({b['name'] for b in H.pat_bindings(arm['pat'])})
                hids = {b['hid'] for b in H.pat_bindings(arm['pat'])}
                mine = [s_ for s_ in sites if any(x is s_['node'] for x in walk(arm['body']))]
                vs = sorted(set(re.findall(r'SimpleValue::(\w+)', pp(arm['pat']))))
                okp = arm.get('guard') is None and len(mine) == 1
                why = 'guarded arm' if arm.get('guard') is not None else '%d format sites' % len(mine)
                if okp:
                    st = mine[0]
                    okp = len(st['pieces']) == 1 and st['pieces'][0][0] == 'arg' and st['pieces'][0][2] is None and st['pieces'][0][3] is None and len(st['args'] or []) == 1 and st['args'][0][0] == 'new_display'
                    why = 'template %r' % (st['pieces'],)
                    if okp and vs != ['Bool']:
                        a0 = H.strip_refs(st['args'][0][1])
                        while a0.get('k') == 'Unary' and a0.get('op') == 'Deref':
                            a0 = H.strip_refs(a0['e'])
                        okp = a0.get('k') == 'Path' and a0.get('hid') in hids
                        why = 'prints `%s`' % pp(st['args'][0][1], maxlen=50)
                ck.ob('R3.8', 'payload-printed-as-is|%s' % '+'.join(vs), okp, L.loc(arm['pat']),
                      ('%s: `{}` of the payload %s' % ('/'.join(vs), names)) if okp else '%s does not print its payload as it is (%s): the text in the .ui is no longer the evaluated constant' % ('/'.join(vs), why), fn=sd['path'])
    pa = L.fn('uigen::expr::parse_as_value_type')
    if pa is not None:
        joins = [H.lit_value(c['args'][0]) for c in H.calls_in(pa['body']) if c.get('m') == 'join']
        ck.ob('R3.8', 'flags-joined-with-bar', joins == ['|', '|', '|'], L.loc(pa['body']), 'enum sets are joined with %s' % joins)
        # Set vs Enum by is_flag()
        ifs = [n for n in walk(pa['body']) if n.get('k') == 'If' and any(c.get('m') == 'is_flag' for c in H.calls_in(n['c']))]
        ok = len(ifs) == 2 and all('SimpleValue::Set' in pp(n['then']) and 'SimpleValue::Enum' in pp(n['els']) for n in ifs)
        ck.ob('R3.8', 'flag-enums-are-sets', ok, L.loc(pa['body']), 'is_flag() ? Set : Enum (%d sites)' % len(ifs))

    # enum values written without their scope: only what stands in front of the FIRST `::` is cut off (the text can be a `|`-joined set,
    # in which later `::` belong to later members)
    sep = L.fn('uigen::expr::strip_enum_prefix')
    if sep is None:
        ck.floor('R3.8', 0, 1, 'fn strip_enum_prefix')
    else:
        ck.analysed(sep['path'])
        cs = [c for c in H.calls_in(sep['body']) if c.get('k') == 'MCall' and c.get('m') in ('split_once', 'rsplit_once', 'find', 'rfind', 'split', 'rsplit', 'splitn', 'rsplitn', 'split_terminator', 'strip_prefix', 'trim_start_matches', 'rsplit_terminator')]
        p0 = {b['hid'] for b in H.pat_bindings(sep['params'][0])} if sep.get('params') else set()
        ok = False
        why = 'splitting calls: %s' % [c['m'] for c in cs]
        if len(cs) == 1 and cs[0]['m'] == 'split_once' and H.lit_value(cs[0]['args'][0]) == '::' and (H.root_local(cs[0]['recv']) or {}).get('hid') in p0:
            # .map(|(_, t)| t).unwrap_or(s)
            vals = [H.strip_refs(v) for v in H.return_exprs(sep['body'])]
            v = vals[0] if len(vals) == 1 else {}
            dflt = v.get('k') == 'MCall' and v.get('m') == 'unwrap_or' and (H.root_local(v['args'][0]) or {}).get('hid') in p0 and H.strip_refs(v['args'][0]).get('k') == 'Path'
            mp = H.strip_refs(v['recv']) if dflt else {}
            second = False
            if mp.get('k') == 'MCall' and mp.get('m') == 'map' and mp['args'] and mp['args'][0].get('k') == 'Closure' and H.strip_refs(mp['recv']) is cs[0]:
                cl = mp['args'][0]
                pt = cl['params'][0]
                while pt.get('k') in ('PRef', 'PDeref'):
                    pt = pt['p']
                rv = [H.strip_refs(x) for x in H.return_exprs(cl['body'])]
                if pt.get('k') == 'PTup' and len(pt['subs']) == 2 and len(rv) == 1 and rv[0].get('k') == 'Path':
                    second = rv[0].get('hid') in {b['hid'] for b in H.pat_bindings(pt['subs'][1])}
            ok = dflt and second
            why = 's.split_once("::") -> the part behind it, else s' if ok else 'split_once("::") is not followed by .map(|(_, rest)| rest).unwrap_or(s)'
        ck.ob('R3.8', 'enum-scope-cut-at-first-separator', ok, L.loc(sep['body']),
              why if ok else 'strip_enum_prefix does not cut exactly at the first `::` (%s): of an enum set `A::x|A::y` everything but the last member is dropped (or nothing is cut)' % why, fn=sep['path'])

    # ---- R3.9 the text that reaches the .ui is escaped, not pasted (shared with C09 R9.1) ------------------------------------
    import rules.c09 as c09
    sh = _core.Shared(ck, 'R3.9', lambda r, k: (r == 'R9.1' and any(k.startswith(p) for p in ('write_tagged_str|', 'SimpleValue::serialize_to_xml_as|', 'serialize_string_list_to_xml|'))) or r == 'R9.2t', 'C09:',
                      ' [a string value written through a raw constructor is decoded differently by an XML parser]')
    c09.run(sh)
    ck.floor('R3.9', sh.count, 30, 'shared C09 R9.1 obligations on the three string writers')

    # ---- R3.10 the .ui on disk is the one this run built (shared with C15) -----------------------------------------------------------------------
    import rules.c15 as c15
    ck.rule('R3.10', 'an edited constant reaches the .ui file: an existing file is kept only if its bytes equal the new output (shared with C15)')
    s15 = _core.Shared(ck, 'R3.10', lambda r, k: (r == 'R15.4' and k.endswith('|skipped-only-if-same-bytes')) or (r == 'R15.5' and (k == 'ui-path-gets-form-xml' or k.startswith('buffer-starts-empty|'))), 'C15:',
                       ' [the value a reader finds in the .ui is the value of the source as it is now, not as it was on an earlier run]')
    c15.run(s15)
    ck.floor('R3.10', s15.count, 3, 'shared C15 R15.4 / R15.5 obligations')
