"""C10: object names are unique and every reference resolves, across both outputs."""
import re
from facts import walk, short, pp
import hirutil as H

LEVEL = 'other'
TECHNIQUE = 'field write discipline and value provenance of names over typed HIR, guard dominance for reference lists, closed-origin check of object references, structural check of the name generator state'
LEVEL_TEXT = ('Decides where names can come from and which guards stand between a name and its use: the name field of an object is written '
              'only from its id or from the generator fed with the id map; all four element builders take the name from '
              'ObjectNode::name() of the node they build; object references in expressions originate only from an identifier that '
              'get_by_id() resolved, or from the current object\'s own name; duplicate ids are diagnosed; the generator advances its '
              'counter past the accepted candidate; reference lists are type-verified before use; objects whose element kind cannot hold '
              'children are diagnosed rather than dropped. Two genuine gaps are reported as known findings (generator state is per-prefix; '
              'the writer-reserved name "separator" is not reserved).')
LEVEL_NOTE = ('Trusted: rustc resolution; HashMap semantics. Not decided: uniqueness of strings in general; class compatibility of every '
              'reference beyond the type check that guards it.')
DESIGN_REF = 'DESIGN.md section 4, C10'

DERIVES = {'Clone', 'Debug', 'PartialEq', 'Eq', 'Hash', 'Default'}


def run(ck):
    if getattr(ck, 'depth', 0) >= 2:
        return      # a shared run of a shared run: nothing of it is selected, and mutual sharing must end somewhere
    _run(ck)
    _shares(ck)


def _run(ck):
    F = ck.facts
    L = F.lib
    ck.explanation = (
        'R10.1a every write of ObjectNodeData.name (struct literals and assignments) is in populate_node_rec (from object_id()) or '
        'ensure_object_names (from generate_with_reserved_map(.., &self.id_map)). R10.1b the four builders (Widget/Layout/Action/SpacerItem) '
        'receive obj_node.name() of the node whose code map they use and store it in their name field. R10.1c origins of the name '
        'argument of every visit_object_ref call and of every RefKind::Object*/this_object construction. R10.2 Entry::Occupied in '
        'update_id_map pushes Diagnostic::error. R10.3 generator: (a) returned names are recorded in, and candidates tested against, a '
        'set of issued names; (b) the prefix counter is set to accepted index + 1. R10.4 names the .ui writer treats specially as '
        'references (ACTION_SEPARATOR_NAME) are consulted where ids are admitted/generated. R10.5 into_object_ref_list()/unwrap_object_ref() '
        'are dominated by verify_code_return_type(..)?; element kinds without children call confine_children on every path.')
    ck.rule('R10.1', 'names come only from the id or the generator; builders and references use ObjectNode::name() / resolved ids')
    ck.rule('R10.2', 'duplicate ids are diagnosed')
    ck.rule('R10.3', 'the generator never returns a name twice')
    ck.rule('R10.4', 'writer-reserved reference names are reserved where names are admitted')
    ck.rule('R10.5', 'references are type-verified; objects that cannot be emitted are diagnosed')

    # ---- R10.1a who writes the name field -------------------------------------------------
    ADT = 'objtree::ObjectNodeData'
    n_w = 0
    for fn in L.fn_list:
        if fn.get('x') in DERIVES:
            continue
        for n in walk(fn['body']):
            if n.get('k') == 'Struct' and n.get('def') == ADT:
                for f in n['fields']:
                    if f['f'] == 'name':
                        n_w += 1
                        org = H.origin_callees(fn, f['e'], through=('map', 'to_owned', 'to_string', 'into'))
                        ok = fn['name'] == 'populate_node_rec' and any(x.endswith('object_id') for x in org)
                        ck.ob('R10.1', 'name-write|struct|%s' % short(fn['path']), ok, L.loc(n), 'name <- %s' % sorted(org), fn=fn['path'])
            if n.get('k') == 'Assign' and n['l'].get('k') == 'Field' and n['l'].get('adt') == ADT and n['l'].get('f') == 'name':
                n_w += 1
                calls = [c for c in H.calls_in(n['r']) if c.get('m') in ('generate_with_reserved_map', 'generate')]
                ok = fn['name'] == 'ensure_object_names' and len(calls) == 1 and calls[0]['m'] == 'generate_with_reserved_map' and \
                    any(x.get('f') == 'id_map' for x in walk(calls[0]['args'][1]))
                ck.ob('R10.1', 'name-write|assign|%s' % short(fn['path']), ok, L.loc(n), 'name <- %s' % pp(n['r'], maxlen=80), fn=fn['path'])
    ck.floor('R10.1', n_w, 2, 'writes of ObjectNodeData.name')
    en = L.fn('objtree::ObjectTree::ensure_object_names')
    if en is not None:
        # only nameless nodes are renamed; prefix from the class
        flt = [c for c in H.calls_in(en['body']) if c.get('m') == 'filter']
        ok = len(flt) == 1 and any(x.get('m') == 'is_none' and any(y.get('f') == 'name' for y in walk(x['recv'])) for x in H.calls_in(flt[0]['args'][0]))
        if not ok:
            # the same selection spelled inside the loop: `if d.name.is_some() { continue; }` on top, or `if d.name.is_none() { d.name = .. }`
            asg = [n for n in walk(en['body']) if n.get('k') == 'Assign' and n['l'].get('k') == 'Field' and n['l'].get('f') == 'name']
            for c in H.calls_in(en['body']):
                if c.get('m') == 'is_some' and any(y.get('f') == 'name' for y in walk(c['recv'])) and H.selects_by_negated(en, c) == 'continue':
                    ok = bool(asg)
                if c.get('m') == 'is_none' and any(y.get('f') == 'name' for y in walk(c['recv'])):
                    iff = H.parents(en).get(id(c))
                    if iff is not None and iff.get('k') == 'If' and iff.get('c') is c and asg and all(any(z is a for z in walk(iff['then'])) for a in asg):
                        ok = True
        ck.ob('R10.1', 'ids-kept-verbatim', ok, L.loc(en['body']), 'generated names only for nodes with name.is_none()')
        bd = L.fn('objtree::ObjectTree::build')
        if bd is not None:
            u = next((c for c in H.calls_in(bd['body']) if c.get('m') == 'update_id_map'), None)
            e = next((c for c in H.calls_in(bd['body']) if c.get('m') == 'ensure_object_names'), None)
            ck.ob('R10.1', 'id-map-before-generation', u is not None and e is not None and H.lexically_precedes_dominating(bd, u, e), L.loc(bd['body']),
                  'update_id_map() precedes ensure_object_names(): generated names see every id')

    # ---- R10.1b builders --------------------------------------------------------------------
    ctors = {'uigen::object::Widget::new': 2, 'uigen::layout::Layout::new': 2, 'uigen::object::Action::new': 1, 'uigen::layout::SpacerItem::new': 1}
    n_b = 0
    for fn in L.fn_list:
        for c in H.calls_in(fn['body']):
            d = H.callee(c) or ''
            if d in ctors and c.get('k') == 'Call':
                n_b += 1
                a = c['args'][ctors[d]]
                ok = a.get('k') == 'MCall' and (a.get('def') or '').endswith('ObjectNode::name')
                same = False
                if ok:
                    rl = H.root_local(a['recv'])
                    # the same node is used for the code map / object context in this call
                    others = [H.root_local(x['args'][0]) for x in H.calls_in(c) if x.get('m') in ('code_map_for_object', 'make_object_context') and x['args']]
                    is_param = rl is not None and H.binding_sites(fn).get(rl['hid'], {}).get('kind') == 'param' and 'ObjectNode' in (L.tys[H.binding_sites(fn)[rl['hid']]['bind']['t']])
                    same = is_param and all(o is not None and o.get('hid') == rl.get('hid') for o in others)
                ck.ob('R10.1', 'builder-name|%s<-%s' % (short(d), short(fn['path'])), ok and same, L.loc(c),
                      'name argument is %s of the node being built' % pp(a, maxlen=30), fn=fn['path'])
    ck.floor('R10.1', n_b, 4, 'builder constructor calls')
    for d, idx in ctors.items():
        fn = L.fn(d)
        if fn is None:
            ck.ob('R10.1', 'builder-ctor|%s' % short(d), False, '', 'fn not found')
            continue
        bs = H.binding_sites(fn)
        st = next((n for n in walk(fn['body']) if n.get('k') == 'Struct' and short(n.get('def') or '') == short(d).split('::')[0]), None)
        ok = False
        if st is not None:
            f = next((x for x in st['fields'] if x['f'] == 'name'), None)
            if f is not None:
                rl = H.root_local(f['e'])
                ok = rl is not None and bs.get(rl['hid'], {}).get('kind') == 'param' and bs[rl['hid']]['index'] == idx and \
                    all(x.get('m') in ('into', 'to_owned', 'to_string', 'as_ref') for x in H.calls_in(f['e']))
        ck.ob('R10.1', 'builder-ctor-stores-name|%s' % short(d), ok, L.loc(fn['body']), 'name field <- the name parameter unchanged', fn=d)

    # ---- R10.1c reference origins ---------------------------------------------------------------
    n_ref = 0
    for fn in L.fn_list:
        if not fn['path'].startswith('typedexpr::'):
            continue
        for c in H.calls_in(fn['body']):
            if c.get('m') != 'visit_object_ref':
                continue
            n_ref += 1
            a = c['args'][1]
            kinds = set()
            bs = H.binding_sites(fn)
            for node, slot in H.resolve_slots(fn, a):
                if node.get('k') == 'MCall' and node.get('m') == 'this_object' and slot == 1:
                    kinds.add('this_object().name')
                elif node.get('k') == 'MCall' and node.get('m') == 'to_str':
                    # identifier text: must be the argument of the get_ref() whose Object arm we are in
                    arm = next((x for x in H.ancestors(fn, c) if x.get('k') == 'Arm' and 'RefKind::Object' in pp(x['pat'])), None)
                    gr = [x for x in H.calls_in(fn['body']) if x.get('m') == 'get_ref']
                    same = bool(gr) and arm is not None and any((H.root_local(g['args'][0]) or {}).get('hid') == (H.root_local(a) or {}).get('hid') for g in gr)
                    kinds.add('resolved-identifier' if same else 'unresolved-identifier')
                elif node.get('k') == 'Bind' and bs.get(node.get('hid'), {}).get('kind') == 'arm':
                    arm = bs[node['hid']]['node']
                    pt = pp(arm['pat'])
                    kinds.add('RefKind payload' if re.search(r'RefKind::Object(Property|Method)\(', pt) else 'arm:' + pt[:30])
                else:
                    kinds.add('other:' + pp(node, maxlen=30))
            ok = bool(kinds) and kinds <= {'this_object().name', 'resolved-identifier', 'RefKind payload'}
            ck.ob('R10.1', 'object-ref-origin|%s|%d' % (short(fn['path']), n_ref), ok, L.loc(c), 'visit_object_ref name <- %s' % sorted(kinds), fn=fn['path'])
    ck.floor('R10.1', n_ref, 4, 'visit_object_ref call sites')
    gr = next((f for f in L.fn_list if f['name'] == 'get_ref' and 'ObjectContext' in f['path']), None)
    to = next((f for f in L.fn_list if f['name'] == 'this_object' and 'ObjectContext' in f['path']), None)
    if gr is None or to is None:
        ck.floor('R10.1', 0, 1, 'ObjectContext::get_ref / this_object')
    else:
        ck.analysed(gr['path'])
        for n in walk(gr['body']):
            if n.get('k') == 'Call' and 'RefKind::Object' in (n.get('def') or ''):
                var = n['def'].split('::')[-1]
                if var == 'Object':
                    guard = next((x for x in H.ancestors(gr, n) if x.get('k') == 'If' and any(y is n for y in walk(x['then']))), None)
                    ok = guard is not None and guard['c'].get('k') == 'LetCond' and any(x.get('m') == 'get_by_id' for x in H.calls_in(guard['c']['e']))
                    if ok:
                        pb = {b['hid'] for b in H.pat_bindings(guard['c']['pat'])}
                        ok = (H.root_local(n['args'][0]) or {}).get('hid') in pb
                    ck.ob('R10.1', 'RefKind::Object-only-for-known-ids', ok, L.loc(n), 'constructed under `if let Some(obj) = object_tree.get_by_id(name)` with obj.class()')
                else:
                    nm = n['args'][1]
                    ok = any(x.get('k') == 'MCall' and (x.get('def') or '').endswith('ObjectNode::name') for x in walk(nm))
                    ck.ob('R10.1', 'RefKind::%s-names-this-object' % var, ok, L.loc(n), 'payload name = %s' % pp(nm, maxlen=40))
        vals = list(H.return_exprs(to['body']))
        ok = len(vals) == 1 and any(x.get('k') == 'MCall' and (x.get('def') or '').endswith('ObjectNode::name') for x in walk(vals[0]))
        ck.ob('R10.1', 'this_object-names-this-object', ok, L.loc(to['body']), 'this_object() = (me.class(), me.name())')
    # NamedObjectRef constructions
    n_nor = 0
    for fn in L.fn_list:
        if fn.get('x') in DERIVES or fn['path'].startswith('tir::dump'):
            continue
        for n in walk(fn['body']):
            if n.get('k') == 'Call' and (n.get('def') or '').endswith('tir::core::NamedObjectRef'):
                n_nor += 1
                a = n['args'][0]
                bs = H.binding_sites(fn)
                okk = False
                why = pp(a, maxlen=40)
                if any(x.get('k') == 'MCall' and (x.get('def') or '').endswith('ObjectNode::name') for x in walk(a)):
                    okk = True
                    why = 'ObjectNode::name()'
                else:
                    rl = H.root_local(a)
                    if rl is not None and bs.get(rl['hid'], {}).get('kind') == 'param' and fn['name'] == 'new':
                        okk = True
                        why = 'forwarded constructor parameter'
                ck.ob('R10.1', 'NamedObjectRef|%s|%d' % (short(fn['path']), n_nor), okk, L.loc(n), 'NamedObjectRef(%s)' % why, fn=fn['path'])
    ck.floor('R10.1', n_nor, 4, 'NamedObjectRef constructions')
    # who calls the forwarding constructors
    for ctor, nm_idx in (('tir::core::NamedObject::new', 0), ('uigen::binding::CxxCodeBodyTranslator::new', 0)):
        for fn in L.fn_list:
            for c in H.calls_in(fn['body']):
                if H.callee(c) == ctor and c.get('k') == 'Call':
                    a = c['args'][nm_idx]
                    bs = H.binding_sites(fn)
                    rl = H.root_local(a)
                    ok = any(x.get('k') == 'MCall' and (x.get('def') or '').endswith('ObjectNode::name') for x in walk(a)) or \
                        (rl is not None and bs.get(rl['hid'], {}).get('kind') == 'param' and fn['name'] == 'visit_object_ref')
                    ck.ob('R10.1', 'name-forwarded|%s<-%s' % (short(ctor), short(fn['path'])), ok, L.loc(c), 'argument %s' % pp(a, maxlen=50), fn=fn['path'])

    # ---- R10.2 duplicate ids ---------------------------------------------------------------------
    um = L.fn('objtree::ObjectTree::update_id_map')
    if um is None:
        ck.floor('R10.2', 0, 1, 'fn update_id_map')
    else:
        ck.analysed(um['path'])
        occ = vac = None
        for n in walk(um['body']):
            if n.get('k') == 'Arm':
                pt = pp(n['pat'])
                if 'Entry::Occupied' in pt:
                    occ = n
                if 'Entry::Vacant' in pt:
                    vac = n
        ok = occ is not None and any(H.is_call_to(x, 'Diagnostic::error') for x in H.calls_in(occ['body'])) and any(x.get('m') == 'push' for x in H.calls_in(occ['body']))
        ck.ob('R10.2', 'occupied-is-diagnosed', ok, L.loc(occ) if occ else '', 'Entry::Occupied => diagnostics.push(Diagnostic::error(..))')
        ok = vac is not None and any(x.get('m') == 'insert' for x in H.calls_in(vac['body']))
        ck.ob('R10.2', 'vacant-is-recorded', ok, L.loc(vac) if vac else '', 'Entry::Vacant => insert(index)')
        ent = next((c for c in H.calls_in(um['body']) if c.get('m') == 'entry'), None)
        ok = ent is not None and any(x.get('m') == 'object_id' for x in H.calls_in(um['body'])) and any(x.get('m') == 'to_str' for x in H.calls_in(ent['args'][0]))
        ck.ob('R10.2', 'keyed-by-id-text', ok, L.loc(ent) if ent else '', 'id_map.entry(<id text>)')

    # ---- R10.3 generator -----------------------------------------------------------------------------
    adt = L.adts.get('qtname::UniqueNameGenerator')
    gens = [f for f in L.fn_list if f['path'].startswith('qtname::UniqueNameGenerator::generate')]
    ck.floor('R10.3', len(gens), 2, 'UniqueNameGenerator::generate* functions')
    if adt is not None:
        fields = adt['variants'][0]['fields']
        set_fields = [f['name'] for f in fields if re.search(r'HashSet<std::string::String|BTreeSet<std::string::String', f['ty'])]
        for g in gens:
            ck.analysed(g['path'])
            rets = list(H.return_exprs(g['body']))
            ret_hids = {(H.root_local(r) or {}).get('hid') for r in rets}
            recorded = False
            tested = False
            for c in H.calls_in(g['body']):
                rf = [x.get('f') for x in walk(c.get('recv', {'k': 'x'})) if x.get('k') == 'Field']
                if c.get('m') == 'insert' and rf and rf[0] in set_fields:
                    recorded = True
                if c.get('m') == 'contains' and rf and rf[0] in set_fields:
                    tested = True
                if c.get('m') == 'insert' and rf and rf[0] in set_fields:
                    # `if set.insert(name)`: the boolean result is the membership test
                    conds = [a for a in H.ancestors(g, c) if a.get('k') == 'If' and any(x is c for x in walk(a['c']))]
                    if conds and not any(x.get('k') == 'Unary' and x.get('op') == 'Not' and any(y is c for y in walk(x)) for x in walk(conds[0]['c'])):
                        rr = [r for r in walk(conds[0]['then']) if r.get('k') == 'Ret']
                        same = bool(rr) and all((H.root_local(r.get('e', {})) or {}).get('hid') == (H.root_local(c['args'][0]) or {}).get('hid') for r in rr)
                        if same:
                            tested = True
            ok = recorded and tested
            ck.ob('R10.3', 'issued-names-consulted|%s' % g['name'], ok, L.loc(g['body']),
                  'returned names are inserted into and tested against %s' % set_fields if ok else
                  ('generator state is per-prefix counters only (fields: %s): a name produced for one prefix (label+1) can equal one produced for another (label1+0)' % [f['name'] for f in fields]) if not set_fields else
                  ('the name returned by %s is not %s the set of issued names (%s): it can be handed out again' % (g['name'], 'recorded in' if not recorded else 'tested against (with the result deciding acceptance)', set_fields)), fn=g['path'])
    gw = L.fn('qtname::UniqueNameGenerator::generate_with_reserved_map')
    if gw is not None:
        bs = H.binding_sites(gw)
        asg = [n for n in walk(gw['body']) if n.get('k') in ('Assign', 'AssignOp') and H.strip_refs(n['l']).get('k') in ('Unary', 'Path')]
        ok = False
        why = 'no counter update found'
        for n in asg:
            if n['k'] == 'Assign':
                r = H.strip_refs(n['r'])
                if r.get('k') == 'Binary' and r.get('op') == 'Add' and H.lit_value(r['r']) == 1:
                    rl = H.root_local(r['l'])
                    site = bs.get(rl['hid'], {}) if rl is not None else {}
                    slot = H._slot_of_pat(site['pat'], rl['hid']) if site.get('kind') == 'let' else None
                    from_find = site.get('kind') == 'let' and any(x.get('m') == 'find_map' for x in H.calls_in(site['node'].get('init', {'k': 'x'})))
                    ok = slot == 0 and from_find
                    why = 'counter = <accepted candidate index> + 1' if ok else 'counter assigned from %s' % pp(n['r'], maxlen=40)
            else:
                # loop form: `loop { let id = f(prefix, *count); *count += 1; if <free> { return id } }`: every iteration,
                # accepted or not, consumes its own counter value
                lp = next((a for a in H.ancestors(gw, n) if a.get('k') == 'Loop'), None)
                body = lp.get('body') if lp is not None else None
                stmts = [x.get('e', x) for x in (body or {}).get('stmts', [])]
                cand = next((x for x in (body or {}).get('stmts', []) if x.get('k') == 'Let' and any(H.is_call_to(c, 'concat_number_suffix') for c in H.calls_in(x.get('init', {'k': 'x'})))), None)
                direct = any(x is n for x in stmts)
                inc1 = n.get('op') in ('Add', 'AddAssign') and H.lit_value(n['r']) == 1
                if lp is not None and direct and inc1 and cand is not None and H.source_before(cand, n):
                    ok = True
                    why = 'each loop iteration takes the candidate for the current counter and then advances the counter unconditionally'
                elif not ok:
                    why = 'counter is only incremented (%s): after skipping a reserved id the same candidate is produced again' % pp(n, maxlen=40)
        ck.ob('R10.3', 'counter-skips-accepted-candidate', ok, L.loc(gw['body']), why, fn=gw['path'])
        rc = [c for c in H.calls_in(gw['body']) if c.get('m') == 'contains_key']
        ok = len(rc) == 1 and bs.get((H.root_local(rc[0]['recv']) or {}).get('hid'), {}).get('kind') == 'param'
        ck.ob('R10.3', 'reserved-map-consulted', ok, L.loc(gw['body']), 'candidates are tested against the reserved map parameter')

    # ---- R10.4 writer-reserved names -------------------------------------------------------------------
    consts = [f for f in L.fn_list if f['dk'] == 'Const' and f['name'] == 'ACTION_SEPARATOR_NAME']
    ck.floor('R10.4', len(consts), 1, 'writer-reserved name constants')
    for cst in consts:
        val = H.lit_value(cst['body'])
        users = set()
        for fn in L.fn_list:
            for n in walk(fn['body']):
                if n.get('k') == 'Path' and (n.get('def') or '').endswith('::' + cst['name']):
                    users.add(fn['path'])
                if n.get('k') == 'Lit' and n.get('lk') == 'str' and n.get('v') == val and fn['path'].startswith('objtree::'):
                    users.add(fn['path'])
        admits = [u for u in users if u.startswith('objtree::')]
        ck.ob('R10.4', 'reserved-name-consulted|%s' % cst['name'], bool(admits), L.loc(cst['body']),
              'consulted in %s' % admits if admits else
              'the writer gives "%s" a special meaning as a reference (used in %s) but objtree admits it as an id and may generate it' % (val, sorted(short(u) for u in users)))

    # ---- R10.5 references verified; unemittable objects diagnosed ------------------------------------------
    for path, meth in (('uigen::expr::build_object_ref_list', 'into_object_ref_list'),):
        fn = L.fn(path)
        if fn is None:
            ck.floor('R10.5', 0, 1, 'fn ' + path)
            continue
        ck.analysed(path)
        pm = H.parents(fn)
        uses = [c for c in H.calls_in(fn['body']) if c.get('m') == meth]
        guards = [c for c in H.calls_in(fn['body']) if H.is_call_to(c, 'verify_code_return_type') and pm.get(id(c), {}).get('k') == 'Try']
        ck.floor('R10.5', len(uses), 1, 'uses of %s' % meth)
        for u in uses:
            ok = any(H.lexically_precedes_dominating(fn, g, u) for g in guards)
            # verified against the property's own type
            ck.ob('R10.5', 'ref-list-type-verified', ok, L.loc(u), 'into_object_ref_list() is dominated by verify_code_return_type(node, code, ty, ..)?' if ok else
                  'object reference list is used without verifying its type against the property (non-action objects could be referenced)', fn=path)
    n_k = 0
    for path in ('uigen::object::UiObject::build', 'uigen::layout::LayoutItemContent::build'):
        fn = L.fn(path)
        if fn is None:
            ck.floor('R10.5', 0, 1, 'fn ' + path)
            continue
        ck.analysed(path)
        conf = [c for c in H.calls_in(fn['body']) if H.is_call_to(c, 'confine_children')]
        for n in walk(fn['body']):
            d = n.get('def') or ''
            if n.get('k') in ('Call', 'Path') and re.search(r'(UiObject::(Action|ActionSeparator)|LayoutItemContent::SpacerItem)$', d):
                if n.get('k') == 'Path' and H.parents(fn).get(id(n), {}).get('k') == 'Call' and H.parents(fn)[id(n)].get('f') is n:
                    continue
                n_k += 1
                ok = any(H.lexically_precedes_dominating(fn, c, n) for c in conf)
                ck.ob('R10.5', 'childless-kind-confined|%s' % d.split('::')[-1], ok, L.loc(n),
                      'confine_children(..) dominates the construction' if ok else
                      '%s is built on a path that does not call confine_children(): nested objects are dropped silently but stay referable' % short(d), fn=path)
    ck.floor('R10.5', n_k, 3, 'constructions of childless element kinds')


def _shares(ck):
    """obligations of other checks that the clauses of C10 rest on (same facts)."""
    import core as _core
    import rules.c04 as c04
    s4 = _core.Shared(ck, 'R10.2', lambda r, k: r == 'R4.6' or (r == 'R4.4' and k in ('only-error-free-builds-continue', 'guard-tests-the-build-diagnostics')), 'C04:',
                      ' [a duplicate id is rejected by an error diagnostic: the document is refused only if has_error() sees it]')
    c04.run(s4)
    ck.floor('R10.2', s4.count, 3, 'shared C04 R4.4 / R4.6 obligations')
    import rules.c05 as c05
    s5 = _core.Shared(ck, 'R10.5', lambda r, k: r == 'R5.7' or (r == 'R5.6' and k.startswith(('return-type-verified', 'verify_code_return_type-shape'))) or
                      (r == 'R5.1' and k.startswith('is_assignable|') and ('*' in k)), 'C05:',
                      ' [an object reference in generated code has a class compatible with its use only if every return of the binding is checked against the property type]')
    c05.run(s5)
    ck.floor('R10.5', s5.count, 20, 'shared C05 obligations on object-typed results')
    # the other observation point: function names in uisupport_*.h come from one generator instance (C16 R16.4)
    import rules.c16 as c16
    ck.rule('R10.7', 'function names of the support header are handed out by one generator instance (shared with C16)')
    ck.explanation += (' R10.7 re-files C16 R16.4: one UniqueNameGenerator::new() in uigen::binding, every generate(..) on that instance or on the &mut handed down from it, '
                       'no copy of the generator, prefixes prefix-free.')
    s16 = _core.Shared(ck, 'R10.7', lambda r, k: r == 'R16.4' and not k.startswith('C10:'), 'C16:', ' [two member functions of one name: the header does not compile, or a connection reaches the wrong handler]')
    c16.run(s16)
    ck.floor('R10.7', s16.count, 10, 'shared C16 R16.4 obligations')
