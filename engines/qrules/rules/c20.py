"""C20: preview-mode error recovery is local to the faulty object."""
import re
from facts import walk, short, pp
import hirutil as H
import nonediag

LEVEL = 'other'
TECHNIQUE = 'failure-propagation shape over typed HIR: where `?`/return None may occur relative to sibling and child processing, first-wins and no-overwrite conditions on diagnosed conflicts, guard-free serialization in the preview path'
LEVEL_TEXT = ('Decides that a fault cannot spread sideways or upwards: the tree builder turns a failed child into an absent child '
              '(filter_map) and makes its own failure decisions before it touches its children, so no orphan nodes exist; duplicated ids '
              'keep the first definition and rejected conflicting layout values never overwrite the accepted one, so the faulty object '
              'does not change what other objects see; per-object code maps recover with defaults and the binding scan has no early exit; '
              'uigen::build yields Some(form) on every path after the tree exists; the preview command serializes the form regardless of '
              'diagnostics; constant-pass failures drop one binding, not the map.')
LEVEL_NOTE = ('Trusted: rustc resolution. Not decided: the relation between two runs ("identical outside the faulty object") as such; '
              'renumbering of generated names after a subtree is dropped.')
DESIGN_REF = 'DESIGN.md section 4, C20'


def run(ck):
    if getattr(ck, 'depth', 0) >= 2:
        return      # a shared run of a shared run: nothing of it is selected, and mutual sharing must end somewhere
    F = ck.facts
    L = F.lib
    B = F.bin
    ck.explanation = (
        'R20.1 populate_node_rec: the recursive call occurs only inside a filter_map closure; every failure exit (return None / ?) of the '
        'fn lexically precedes the recursion, so a node that fails leaves no descendants in the flat vector. R20.2 ObjectCodeMap::build: '
        'consume_err(..).unwrap_or_default() twice, attached types via filter_map; build_properties_callbacks: no return/break/? inside '
        'its loop. R20.3 uigen::build: no ?/return None after ObjectTree::build(..)?; result Some((form, ..)). R20.4 preview_file: '
        'write_ui_data under `if let Some((form, None)) = maybe_form` only, not under any diagnostics test; syntax errors do not return. '
        'R20.5 make_serializable_map/make_value_map use filter_map. R20.6 update_id_map: the Occupied arm neither inserts nor replaces '
        '(first definition wins). R20.7 maybe_insert_into_opt_i32_array: the arm that pushes the mismatch error does not write the array.')
    ck.rule('R20.1', 'a failed object loses exactly its own subtree; failures are decided before children are visited')
    ck.rule('R20.2', 'per-object code maps recover with defaults; one bad binding does not stop the scan')
    ck.rule('R20.3', 'a form is produced whenever the object tree exists')
    ck.rule('R20.4', 'preview serializes the form regardless of diagnostics')
    ck.rule('R20.5', 'a failed constant binding drops only itself')
    ck.rule('R20.6', 'a duplicated id does not change what the id refers to')
    ck.rule('R20.7', 'a rejected conflicting layout value does not overwrite the accepted one')

    # ---- R20.1 ---------------------------------------------------------------------------
    pr = L.fn('objtree::ObjectTree::populate_node_rec')
    if pr is None:
        ck.floor('R20.1', 0, 1, 'fn populate_node_rec')
    else:
        ck.analysed(pr['path'])
        recs = [c for c in H.calls_in(pr['body']) if c.get('m') == 'populate_node_rec']
        ck.floor('R20.1', len(recs), 1, 'recursive calls in populate_node_rec')
        for i, r in enumerate(recs):
            cl = next((a for a in H.ancestors(pr, r) if a.get('k') == 'Closure'), None)
            ad = H.parents(pr).get(id(cl)) if cl is not None else None
            ok = ad is not None and ad.get('k') == 'MCall' and ad.get('m') == 'filter_map' and list(H.value_exprs(cl['body']))[0] is r
            if not ok and cl is None:
                lf = H.absorbing_child_loop(pr, r)
                ok = lf is not None and lf['conditional']
            ck.ob('R20.1', 'child-failure-absorbed|%d' % (i + 1), ok, L.loc(r),
                  'recursion is the value of a filter_map closure: a failed child is simply absent' if ok else
                  'the result of the recursive call can propagate to the parent (`?`/collect::<Option<_>>): one bad child removes its parent')
            exits = [n for n in walk(pr['body'], enter_closures=False) if n.get('k') in ('Ret', 'Try')]
            late = [n for n in exits if not H.source_before(n, r) and not any(x is r for x in walk(n))]
            ck.ob('R20.1', 'failures-decided-before-children|%d' % (i + 1), not late, L.loc(late[0]) if late else L.loc(r),
                  'all %d failure exits precede the recursion into the children' % len(exits) if not late else
                  'a failure exit (%s) can be taken after the children were already added to the flat vector: orphan nodes stay visible to id lookups and flat iteration' % late[0]['k'])
        # the node itself is pushed after its children, exactly once
        pushes = [c for c in H.calls_in(pr['body']) if c.get('m') == 'push' and any(x.get('f') == 'nodes' for x in walk(c['recv']))]
        ok = len(pushes) == 1 and all(H.source_before(r, pushes[0]) for r in recs) and not any(a.get('k') in ('If', 'Match', 'Closure', 'For', 'Loop') for a in H.ancestors(pr, pushes[0]))
        ck.ob('R20.1', 'node-pushed-once-after-children', ok, L.loc(pushes[0]) if pushes else '', 'self.nodes.push(..) once, after the children')

    # ---- R20.2 ----------------------------------------------------------------------------
    ob = L.fn('uigen::objcode::ObjectCodeMap::build')
    if ob is None:
        ck.floor('R20.2', 0, 1, 'fn ObjectCodeMap::build')
    else:
        ck.analysed(ob['path'])
        ce = [c for c in H.calls_in(ob['body']) if c.get('m') == 'consume_err']
        n_ok = 0
        for c in ce:
            par = H.parents(ob).get(id(c))
            if par is not None and par.get('k') == 'MCall' and par.get('m') in ('unwrap_or_default', 'unwrap_or', 'unwrap_or_else'):
                n_ok += 1
        ck.ob('R20.2', 'binding-map-errors-recovered', len(ce) == 2 and n_ok == 2, L.loc(ob['body']), '%d of %d consume_err(..) results recovered with a default' % (n_ok, len(ce)))
        exits = [n for n in walk(ob['body'], enter_closures=False) if n.get('k') in ('Try', 'Ret')]
        ck.ob('R20.2', 'no-failure-exit', not exits and not (ob.get('output') or '').startswith('std::option::Option'), L.loc(ob['body']), 'ObjectCodeMap::build cannot fail (returns Self, no `?`)')
        fm = [c for c in H.calls_in(ob['body']) if c.get('m') == 'filter_map' and any(H.is_call_to(x, 'resolve_attached_class') for a in c['args'] for x in H.calls_in(a))]
        okp = len(fm) == 1
        whyp = 'attached types are resolved inside filter_map: one bad type drops only its own bindings'
        if not fm:
            # loop form: resolved per iteration of a loop over the attached types; a failure skips that iteration only
            rc = [c for c in H.calls_in(ob['body']) if H.is_call_to(c, 'resolve_attached_class')]
            lp_ = next((a for c in rc for a in H.ancestors(ob, c) if a.get('k') == 'For'), None) if len(rc) == 1 else None
            if lp_ is not None:
                hard = [x.get('k') for x in walk(lp_['body'], enter_closures=False) if x.get('k') in ('Ret', 'Break', 'Try')]
                okp = not hard and (H.some_guard_dominates(ob, rc[0], next((c for c in H.calls_in(lp_['body']) if c.get('m') == 'insert'), rc[0])))
                whyp = 'attached types are resolved one per loop iteration; a bad type skips its own iteration' if okp else 'the loop over the attached types can be left early (%s)' % hard
        ck.ob('R20.2', 'attached-type-failure-is-per-type', okp, L.loc(fm[0]) if fm else L.loc(ob['body']), whyp)
    bp = L.fn('uigen::objcode::build_properties_callbacks')
    if bp is None:
        ck.floor('R20.2', 0, 1, 'fn build_properties_callbacks')
    else:
        ck.analysed(bp['path'])
        loop = next((n for n in walk(bp['body']) if n.get('k') == 'For'), None)
        exits = [n for n in walk(loop['body'], enter_closures=False) if n.get('k') in ('Try', 'Ret', 'Break', 'Continue')] if loop else ['?']
        ck.ob('R20.2', 'binding-scan-has-no-early-exit', loop is not None and not exits, L.loc(loop) if loop else '',
              'every binding is visited' if loop is not None and not exits else 'the loop over bindings can stop early (%s): bindings after a faulty one are lost' % [getattr(n, 'get', lambda k: n)('k') for n in exits])
        # every failing arm pushes an error (shared with C04 R4.1 through PropertyCode::build/CallbackCode::build being in S)
    for path in ('uigen::build_object_code_maps',):
        fn = L.fn(path)
        if fn is not None:
            names = []
            v = list(H.return_exprs(fn['body']))
            x = v[0] if v else {'k': 'x'}
            while x.get('k') == 'MCall':
                names.append(x['m'])
                x = x['recv']
            names.reverse()
            ck.ob('R20.2', 'one-code-map-per-object', names == ['flat_iter', 'map', 'collect'], L.loc(fn['body']), 'chain: %s' % names)

    # ---- R20.3 ------------------------------------------------------------------------------
    b = L.fn('uigen::build')
    if b is None:
        ck.floor('R20.3', 0, 1, 'fn uigen::build')
    else:
        ck.analysed(b['path'])
        tb = next((c for c in H.calls_in(b['body']) if H.is_call_to(c, 'ObjectTree::build')), None)
        exits = [n for n in walk(b['body'], enter_closures=False) if n.get('k') in ('Try', 'Ret')]
        late = [n for n in exits if tb is not None and H.lexically_precedes_dominating(b, tb, n) and not any(x is tb for x in walk(n))]
        ck.ob('R20.3', 'no-failure-after-the-tree-exists', tb is not None and not late, L.loc(late[0]) if late else (L.loc(tb) if tb else ''),
              '%d failure exits, none after ObjectTree::build(..)?' % len(exits) if not late else 'uigen::build can still return None after the object tree was built: a semantic error yields no form')
        vals = list(H.return_exprs(b['body']))
        ok = len(vals) == 1 and vals[0].get('k') == 'Call' and (vals[0].get('def') or '').endswith('Option::Some')
        ck.ob('R20.3', 'result-is-some-form', ok, L.loc(vals[0]) if vals else '', 'tail value Some((form, ui_support))')
        ub = next((c for c in H.calls_in(b['body']) if H.is_call_to(c, 'UiForm::build')), None)
        ufn = L.fn('uigen::form::UiForm::build')
        # a function whose result type is neither Option nor Result has no failure exit: an early `return` still returns a form
        def total(f):
            return f is not None and not (f.get('output') or '').startswith(('std::option::Option', 'std::result::Result')) and \
                not [n for n in walk(f['body'], enter_closures=False) if n.get('k') == 'Try']
        ok = total(ufn)
        ck.ob('R20.3', 'form-builder-cannot-fail', ok, L.loc(ufn['body']) if ufn else '', 'UiForm::build returns Self without failure exits')
        for path in ('uigen::object::Widget::build', 'uigen::layout::Layout::build', 'uigen::object::UiObject::build', 'uigen::layout::LayoutItemContent::build'):
            fn = L.fn(path)
            ok = total(fn)
            ck.ob('R20.3', 'element-builder-cannot-fail|%s' % short(path), ok, L.loc(fn['body']) if fn else '', 'returns Self; the object keeps its place, class and name', fn=path)

    # ---- R20.4 preview ----------------------------------------------------------------------------
    pf = B.fn('preview_file')
    if pf is None:
        ck.floor('R20.4', 0, 1, 'bin fn preview_file')
    else:
        ck.analysed('bin::preview_file')
        w = next((c for c in H.calls_in(pf['body']) if c.get('m') == 'write_ui_data'), None)
        ok = False
        why = 'write_ui_data not found'
        if w is not None:
            conds = [a for a in H.ancestors(pf, w) if a.get('k') in ('If', 'Match', 'Arm')]
            ok = len(conds) == 1 and conds[0].get('k') == 'If' and conds[0]['c'].get('k') == 'LetCond' and pp(conds[0]['c']['pat']).startswith('Some(')
            why = 'governing conditions: %s' % [pp(c.get('c') or c.get('pat'), maxlen=50) for c in conds]
            if ok:
                ok = not any(x.get('m') in ('has_error', 'is_empty', 'len') for x in H.calls_in(conds[0]['c']))
        ck.ob('R20.4', 'serialized-regardless-of-diagnostics', ok, B.loc(w) if w else '', why)
        syn = next((n for n in walk(pf['body']) if n.get('k') == 'If' and any(x.get('m') == 'has_syntax_error' for x in H.calls_in(n['c']))), None)
        ok = syn is not None and not any(x.get('k') == 'Ret' for x in walk(syn['then']))
        ck.ob('R20.4', 'syntax-errors-do-not-return', ok, B.loc(syn) if syn else '', 'syntax errors are printed, the build is still attempted')
        pd = next((c for c in H.calls_in(pf['body']) if H.is_call_to(c, 'print_diagnostics')), None)
        bd = next((c for c in H.calls_in(pf['body']) if H.is_call_to(c, 'uigen::build')), None)
        ck.ob('R20.4', 'every-error-still-reported', pd is not None and bd is not None and H.lexically_precedes_dominating(pf, bd, pd), B.loc(pd) if pd else '', 'print_diagnostics(doc, &diagnostics) follows the build unconditionally')
        pv = B.fn('preview')
        modes = [pp(n) for n in walk(pv['body']) if n.get('k') == 'Path' and 'DynamicBindingHandling::' in (n.get('def') or '')] if pv else []
        ck.ob('R20.4', 'preview-uses-omit', modes == ['DynamicBindingHandling::Omit'], B.loc(pv['body']) if pv else '', 'mode(s) in preview: %s' % modes)

    # ---- R20.5 -------------------------------------------------------------------------------------
    for path in ('uigen::property::make_serializable_map', 'uigen::property::make_value_map'):
        fn = L.fn(path)
        if fn is None:
            ck.ob('R20.5', 'per-binding|%s' % short(path), False, '', 'fn not found')
            continue
        names = []
        v = list(H.return_exprs(fn['body']))
        x = v[0] if v else {'k': 'x'}
        while x.get('k') == 'MCall':
            names.append(x['m'])
            x = x['recv']
        names.reverse()
        ok = 'filter_map' in names and names[-1] == 'collect' and 'HashMap<' in (L.ty(v[0]) or '')
        why = 'chain %s into a map: one failed binding is one missing entry' % names
        if not ok and len(v) == 1 and H.strip_refs(v[0]).get('k') == 'Path' and 'HashMap<' in (L.ty(v[0]) or ''):
            # loop form: the returned map is filled by insert() inside a loop over the bindings that a failure leaves with `continue` only
            mh = H.strip_refs(v[0]).get('hid')
            ins = [c for c in H.calls_in(fn['body']) if c.get('m') == 'insert' and (H.root_local(c['recv']) or {}).get('hid') == mh]
            lps = {id(a): a for c in ins for a in H.ancestors(fn, c) if a.get('k') == 'For'}
            if len(lps) == 1 and ins:
                lp_ = list(lps.values())[0]
                hard = [x.get('k') for x in walk(lp_['body'], enter_closures=False) if x.get('k') in ('Ret', 'Break', 'Try') and
                        next((a for a in H.ancestors(fn, x) if a.get('k') in ('For', 'Loop', 'Closure')), None) is lp_]
                ok = not hard and not any(x.get('k') in ('Ret', 'Try') for x in walk(fn['body'], enter_closures=False) if not any(y is x for y in walk(lp_)))
                why = 'loop over the bindings with insert(); a failed binding leaves its iteration with `continue`' if ok else 'the loop over the bindings can be left early (%s): one failed binding drops the bindings after it' % hard
        ck.ob('R20.5', 'per-binding|%s' % short(path), ok, L.loc(fn['body']), why, fn=path)

    # ---- R20.6 first definition wins ------------------------------------------------------------------
    um = L.fn('objtree::ObjectTree::update_id_map')
    if um is None:
        ck.floor('R20.6', 0, 1, 'fn update_id_map')
    else:
        ck.analysed(um['path'])
        occ = next((n for n in walk(um['body']) if n.get('k') == 'Arm' and 'Entry::Occupied' in pp(n['pat'])), None)
        if occ is None:
            direct = [c for c in H.calls_in(um['body']) if c.get('m') == 'insert' and any(x.get('f') == 'id_map' for x in walk(c['recv']))]
            ck.ob('R20.6', 'occupied-entry-kept', False, L.loc(direct[0]) if direct else L.loc(um['body']),
                  'id_map is filled with insert() without an Entry::Occupied arm: on a duplicated id the last definition wins, changing what other objects refer to')
        else:
            writes = [c for c in H.calls_in(occ['body']) if c.get('m') in ('insert', 'insert_entry', 'replace_entry', 'replace_key', 'get_mut', 'into_mut', 'remove', 'remove_entry')]
            ck.ob('R20.6', 'occupied-entry-kept', not writes, L.loc(occ), 'the Occupied arm only reports; the first definition stays' if not writes else 'the Occupied arm modifies the entry (%s)' % [c['m'] for c in writes])
        # iteration order = document (flat) order, so "first" is well defined
        loop = next((n for n in walk(um['body']) if n.get('k') == 'For'), None)
        src = pp(loop['iter']) if loop else ''
        ck.ob('R20.6', 'scan-in-flat-order', loop is not None and 'nodes.iter().enumerate()' in src and not re.search(r'\b(rev|sorted|skip)\b', src), L.loc(loop) if loop else '', 'for (index, data) in %s' % src)

    # ---- R20.7 rejected layout value does not overwrite --------------------------------------------------
    mi = L.fn('uigen::layout::maybe_insert_into_opt_i32_array')
    if mi is None:
        ck.floor('R20.7', 0, 1, 'fn maybe_insert_into_opt_i32_array')
    else:
        ck.analysed(mi['path'])
        m = next((n for n in walk(mi['body']) if n.get('k') == 'Match'), None)
        if m is None:
            ck.ob('R20.7', 'conflict-keeps-first-value', False, L.loc(mi['body']), 'the conflict test (match on the stored value) is gone: a later value silently or loudly replaces the earlier one')
        else:
            ok = True
            detail = []
            n_err = 0
            for arm in m['arms']:
                pushes = nonediag.pushes_in(L, arm['body'])
                writes = [n for n in walk(arm['body']) if n.get('k') == 'Assign' and n['l'].get('k') == 'Index'] + \
                         [c for c in H.calls_in(arm['body']) if c.get('m') in ('replace', 'insert', 'get_or_insert', 'take') and c['recv'].get('k') == 'Index']
                if pushes:
                    n_err += 1
                    if writes:
                        ok = False
                        detail.append('arm %s reports the conflict and still writes the array' % pp(arm['pat']))
            if any(c.get('m') in ('replace',) and H.strip_refs(c['recv']).get('k') == 'Index' for c in H.calls_in(m['e'])):
                ok = False
                detail.append('the stored value is replaced before it is compared')
            ck.ob('R20.7', 'conflict-keeps-first-value', ok and n_err >= 1, L.loc(m), 'conflict arm(s): %d, none writes the array' % n_err if ok and n_err else '; '.join(detail) or 'no arm diagnoses a conflict')

    # ---- R20.8 what KIND of element an object becomes does not depend on how many of its bindings exist ------------------------------
    ck.rule('R20.8', 'the element kind of an object is decided from its class and fixed bindings, not from the number of its bindings')
    n_k = 0
    for name in ('uigen::object::is_action_separator', 'uigen::object::UiObject::build', 'uigen::layout::LayoutItemContent::build'):
        fn = L.fn(name)
        if fn is None:
            continue
        n_k += 1
        ck.analysed(fn['path'])
        sized = []
        raw = []
        for c in H.calls_in(fn['body']):
            if c.get('m') not in ('len', 'is_empty', 'count'):
                continue
            t = (L.ty(c['recv'], adjusted=True) or '') + ' ' + (L.ty(c['recv']) or '')
            if 'HashMap<&str, uigen::objcode::PropertyCode' in t:
                sized.append(c)
            elif re.search(r'qmlast::\w+::UiBindingMap|UiBindingValue|qmlast::\w+::UiObjectDefinition|HashMap<&\S* ?\[?qmlast', t) or any(x.get('m') in ('bindings', 'build_binding_map', 'attached_type_map', 'build_attached_type_map') for x in H.calls_in(c['recv'])):
                raw.append(c)
        ck.ob('R20.8', 'kind-independent-of-binding-count|%s' % short(fn['path']), not sized, L.loc(sized[0]) if sized else L.loc(fn['body']),
              'the decision reads the class and named bindings only' if not sized else
              'the decision reads the size of the binding map (%s): a binding that is later found faulty still counts, so the faulty document and the same document without that binding get different element kinds '
              '(a separator becomes a real action and the parent\'s <addaction> entry changes)' % pp(sized[0], maxlen=50), fn=fn['path'])
        # the bindings as written in the source are a worse thing to count: also those that were dropped with a diagnostic (unknown property,
        # unknown signal, an expression that does not build) are still there
        ck.ob('R20.8', 'kind-independent-of-source-binding-count|%s' % short(fn['path']), not raw, L.loc(raw[0]) if raw else L.loc(fn['body']),
              'the decision does not count the bindings written in the source' if not raw else
              'the decision counts the bindings as written in the source (%s): a binding that was refused with a diagnostic still counts, so any single fault on the object changes its element kind' % pp(raw[0], maxlen=60), fn=fn['path'])
    ck.floor('R20.8', n_k, 3, 'kind-deciding functions')

    # ---- R20.9 "every error is still reported": a binding that is taken out of the generic map is read on every path (C04 R4.3) --------------
    import core as _core
    import rules.c04 as c04
    ck.rule('R20.9', 'bindings taken out of generic handling are still evaluated on every path (shared with C04)')
    s4 = _core.Shared(ck, 'R20.9', lambda r, k: r == 'R4.3', 'C04:', ' [preview mode has no later pass: what is not evaluated while the form is built is never type-checked and never reported]')
    c04.run(s4)
    ck.floor('R20.9', s4.count, 20, 'shared C04 R4.3 obligations')

    # ---- R20.10 an object definition is recognised as one whatever letters its type name is written with --------------------------------------
    ck.rule('R20.10', '`Name { .. }` is an object exactly when Name starts with an upper-case letter, in any script')
    ck.explanation += (' R20.10 the character predicate of Identifier::maybe_type_name (a path to a char method, a closure over char methods, or chars().next().map_or(false, ..)) is '
                       'evaluated on upper- and lower-case letters of four scripts: upper case must start a type name (else an unknown type in that script is read as a grouped '
                       'binding and damages its parent), lower case must not. R20.11 re-files the C12 R12.3 bounds and the C12 R12.8 count-at-least-one obligations: a grid '
                       'index out of range is reported and a zero count cannot abort the preview.')
    type_name_predicate(ck, L, 'R20.10')

    # ---- R20.11 a fault in a grid position or count is reported and never stops the run (shared with C12) ---------------------------------------
    import rules.c12 as c12
    ck.rule('R20.11', 'grid indices are range-checked on their own axis and no flow count can be zero (shared with C12)')
    s12 = _core.Shared(ck, 'R20.11', lambda r, k: r == 'R12.8' or (r == 'R12.3' and k.startswith(('bounds|', 'bound-paired-with-axis', 'index-range-check'))), 'C12:',
                       ' [an index that is out of range must be reported and the item keeps the cell it has without the binding; a zero count would abort the preview]')
    c12.run(s12)
    ck.floor('R20.11', s12.count, 8, 'shared C12 R12.3 / R12.8 obligations')


CHAR_PREDS = {
    'is_uppercase': lambda c: c.isupper(), 'is_lowercase': lambda c: c.islower(), 'is_ascii_uppercase': lambda c: 'A' <= c <= 'Z',
    'is_ascii_lowercase': lambda c: 'a' <= c <= 'z', 'is_alphabetic': lambda c: c.isalpha(), 'is_ascii_alphabetic': lambda c: c.isascii() and c.isalpha(),
    'is_alphanumeric': lambda c: c.isalnum(), 'is_ascii_alphanumeric': lambda c: c.isascii() and c.isalnum(), 'is_ascii': lambda c: c.isascii(),
    'is_numeric': lambda c: c.isnumeric(), 'is_ascii_digit': lambda c: '0' <= c <= '9',
}
UPPER_SAMPLES = ['A', 'Q', 'Z', 'É', 'Ω', 'Ж', 'İ']
LOWER_SAMPLES = ['a', 'q', 'z', 'é', 'ω', 'ж']


def char_pred(e, param=None):
    """a Python predicate for a Rust char predicate expression (a path to a char method, or a closure over such methods), or None"""
    e = H.strip_refs(e)
    k = e.get('k')
    if k == 'Path' and e.get('res') == 'def':
        return CHAR_PREDS.get((e.get('def') or '').split('::')[-1]) if 'char' in (e.get('def') or '') else None
    if k == 'Closure':
        bs = H.pat_bindings(e['params'][0]) if e.get('params') else []
        return char_pred_body(e['body'], {b['hid'] for b in bs}) if len(bs) == 1 else None
    return None


def char_pred_body(e, hids):
    e = H.strip_refs(e)
    while e.get('k') == 'Block' and not e.get('stmts') and 'e' in e:
        e = H.strip_refs(e['e'])
    k = e.get('k')
    if k == 'Unary' and e.get('op') == 'Not':
        f = char_pred_body(e['e'], hids)
        return (lambda c: not f(c)) if f else None
    if k == 'Binary' and e.get('op') in ('And', 'Or'):
        f, g = char_pred_body(e['l'], hids), char_pred_body(e['r'], hids)
        if not f or not g:
            return None
        return (lambda c: f(c) and g(c)) if e['op'] == 'And' else (lambda c: f(c) or g(c))
    if k in ('MCall', 'Call'):
        args = H.call_args(e)
        nm = e.get('m') if k == 'MCall' else (e.get('def') or '').split('::')[-1]
        a0 = H.strip_refs(args[0]) if args else {}
        if len(args) == 1 and a0.get('k') == 'Path' and a0.get('hid') in hids and nm in CHAR_PREDS and 'char' in (e.get('def') or ''):
            return CHAR_PREDS[nm]
    return None


def type_name_predicate(ck, L, rule):
    fn = L.fn('qmlast::term::Identifier::maybe_type_name')
    if fn is None:
        ck.floor(rule, 0, 1, 'fn Identifier::maybe_type_name')
        return
    ck.analysed(fn['path'])
    rets = list(H.return_exprs(fn['body']))
    pred = None
    why = 'the decision is not one test of the first character'
    if len(rets) == 1:
        r = H.strip_refs(rets[0])
        # s.starts_with(pred)  |  s.chars().next().map_or(false, pred) / .is_some_and(pred)
        if r.get('k') == 'MCall' and r.get('m') == 'starts_with' and len(r['args']) == 1 and (L.ty(r['args'][0]) or '') not in ('&str', 'char'):
            pred = char_pred(r['args'][0])
        elif r.get('k') == 'MCall' and r.get('m') in ('map_or', 'is_some_and') and H.strip_refs(r['recv']).get('m') == 'next' and \
                H.strip_refs(H.strip_refs(r['recv'])['recv']).get('m') == 'chars':
            if r['m'] == 'is_some_and' or H.lit_value(r['args'][0]) is False:
                pred = char_pred(r['args'][-1])
        if pred is None:
            why = 'the character test `%s` is not understood' % pp(r, maxlen=70)
    if pred is None:
        ck.ob(rule, 'first-letter-decides', False, L.loc(fn['body']), why, fn=fn['path'])
        return
    up = [c for c in UPPER_SAMPLES if not pred(c)]
    lo = [c for c in LOWER_SAMPLES if pred(c)]
    ck.ob(rule, 'upper-case-first-letter-is-a-type-name', not up, L.loc(fn['body']),
          'all of %s start a type name' % ' '.join(UPPER_SAMPLES) if not up else
          'names starting with %s are not taken as type names: `%sx { .. }` in an object body is read as a grouped binding, so an unknown type written in that script damages its parent '
          'instead of being dropped with its own subtree' % (' '.join(up), up[0]), fn=fn['path'])
    ck.ob(rule, 'lower-case-first-letter-is-a-property-name', not lo, L.loc(fn['body']),
          'none of %s starts a type name' % ' '.join(LOWER_SAMPLES) if not lo else 'names starting with %s are taken as type names: grouped bindings become child objects' % ' '.join(lo), fn=fn['path'])
    users = [f['path'] for f in L.fn_list if f.get('body') is not None and any(H.is_call_to(c, 'Identifier::maybe_type_name') for c in H.calls_in(f['body']))]
    ck.floor(rule, len(users), 2, 'callers of Identifier::maybe_type_name')
