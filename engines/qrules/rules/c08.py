"""C08 determinism: no unordered (hash) iteration order reaches an order-sensitive sink;
no ambient nondeterminism (time, env, threads, randomness) in the generate path; no
mutable cross-document state."""
import re
import injective
from facts import walk, children, short, pp
import hirutil as H
from core import load_table

LEVEL = 'proof'
TECHNIQUE = ('type-driven interprocedural taint analysis of hash-iteration order over typed HIR + who-may-call scan of MIR callees + backward '
             'derivation of map keys (key injectivity through views, projections and callees) for every keyed write fed from a hash-ordered source')
LEVEL_TEXT = ('Proof of the clause "no HashMap/HashSet iteration order, ambient input or mutable global reaches an output": every '
              'consumption point of a hash-ordered value in the three crates is enumerated from the type-checked program and must be '
              'a total-key sort, an order-insensitive sink or a reviewed row (obligations == discharged). This is the clause on which '
              'byte-identical output depends; tests cannot see it because a misordering needs >=2-3 colliding keys at an unsorted site.')
LEVEL_NOTE = ('Trusted: rustc typeck, the consumer classification lists printed in the rule module, tables/order_exceptions.json. '
              'Assumes diagnostics are compared as a set, map inserts from distinct keys are order-insensitive, read_dir order is an input, '
              'dependencies are deterministic.')
DESIGN_REF = 'DESIGN.md section 4, C08'

HASH_ITER = re.compile(r'std::collections::hash_(map|set)::(Iter|IterMut|Keys|Values|ValuesMut|IntoIter|IntoKeys|'
                       r'IntoValues|Drain|ExtractIf|Union|Intersection|Difference|SymmetricDifference)\b')
HASH_COLL = re.compile(r'^&?(mut )?std::collections::Hash(Map|Set)<')
UNORDERED_TARGET = re.compile(r'^(std::collections::(HashMap|HashSet|BTreeMap|BTreeSet)<|'
                              r'std::option::Option<std::collections::(HashMap|HashSet|BTreeMap|BTreeSet)<)')
INSENSITIVE_MUT_TARGET = re.compile(r'^&mut (std::collections::(HashMap|HashSet|BTreeMap|BTreeSet)<|diagnostic::Diagnostics\b)')

SANITISERS_TOTAL = {'sorted', 'sorted_unstable'}
SANITISERS_KEYED = {'sorted_by_key', 'sorted_by_cached_key', 'sorted_unstable_by_key', 'sorted_by', 'sorted_unstable_by'}
INSENSITIVE = {'all', 'any', 'count', 'len', 'is_empty', 'size_hint', 'max', 'min', 'contains', 'contains_key', 'sum'}
COLLECTORS = {'collect', 'from_iter', 'extend', 'unzip', 'partition', 'collect_vec', 'try_collect'}
SENSITIVE = {'find', 'find_map', 'position', 'next', 'last', 'nth', 'fold', 'try_fold', 'join', 'zip', 'reduce',
             'for_each', 'try_for_each', 'max_by_key', 'min_by_key', 'max_by', 'min_by', 'next_back', 'rposition',
             'collect_vec', 'format', 'format_with', 'exactly_one', 'at_most_one', 'first', 'nth_back',
             'partition_map', 'unique', 'dedup', 'group_by', 'chunk_by', 'tuple_windows', 'concat'}
PROPAGATE = {'iter', 'iter_mut', 'into_iter', 'map', 'filter', 'filter_map', 'flat_map', 'flatten', 'chain', 'cloned',
             'copied', 'enumerate', 'peekable', 'skip', 'take', 'rev', 'by_ref', 'inspect', 'step_by', 'take_while',
             'skip_while', 'map_while', 'scan', 'fuse', 'as_slice', 'as_ref', 'as_mut', 'clone', 'to_vec', 'to_owned',
             'borrow', 'borrow_mut', 'deref', 'deref_mut', 'unwrap', 'expect', 'unwrap_or_default', 'values', 'keys',
             'values_mut', 'into_values', 'into_keys', 'drain', 'into_vec', 'new', 'box_new', 'last_mut', 'first_mut',
             'as_deref', 'as_deref_mut', 'ok', 'map_or', 'and_then', 'then', 'then_some', 'chunks', 'windows',
             'into_boxed_slice', 'into', 'from', 'as_mut_slice', 'push', 'pop'}

AMBIENT = re.compile(r'^(std::time::|std::thread::|std::env::(var|vars|var_os|vars_os|temp_dir|home_dir|current_dir|current_exe|set_var|remove_var)\b|'
                     r'std::process::id\b|rand::|std::hash::RandomState::new|std::collections::hash_map::RandomState::new|'
                     r'std::time::SystemTime|std::time::Instant|getrandom::|fastrand::)')


def _type_tainted(t, tainted_adts):
    if not t:
        return False
    if HASH_ITER.search(t):
        return True
    for a in tainted_adts:
        if a in t:
            # make sure it is a path match on boundaries
            if re.search(r'(^|[^A-Za-z0-9_:])' + re.escape(a) + r'\b', t):
                return True
    return False


def tainted_adts_of(crate):
    tainted = set()
    changed = True
    while changed:
        changed = False
        for path, a in crate.adts.items():
            if path in tainted:
                continue
            for v in a['variants']:
                for f in v['fields']:
                    if _type_tainted(f['ty'], tainted):
                        tainted.add(path)
                        changed = True
                        break
                if path in tainted:
                    break
    return tainted


WHOLE = True


def join(a, b):
    """Join of two taint values: None | True (whole value) | frozenset(tuple slots)."""
    if a is None:
        return b
    if b is None:
        return a
    if a is True or b is True:
        return True
    return frozenset(a | b)


def nondet_debug_adts(crate):
    """Local ADTs whose Debug output is not reproducible: manual Debug impls printing pointers, and (transitively)
    ADTs with a field of such a type or of a hash-ordered container."""
    bad = set()
    for fn in crate.fn_list:
        if fn.get('impl_trait') == 'std::fmt::Debug' and fn.get('x') is None:
            if any(tr == 'new_pointer' for s_ in H.format_sites_in_fn(fn) for tr, _ in (s_['args'] or [])):
                t = re.sub(r'<.*', '', fn.get('impl_self') or '')
                bad.add(t)
    changed = True
    while changed:
        changed = False
        for path, a in crate.adts.items():
            if path in bad:
                continue
            for v in a['variants']:
                for f in v['fields']:
                    if debug_nondeterministic(f['ty'], bad):
                        bad.add(path)
                        changed = True
                        break
                if path in bad:
                    break
    return bad


def debug_nondeterministic(t, bad_adts):
    if re.search(r'std::collections::(hash_map::|hash_set::)?Hash(Map|Set)\b|\*const |\*mut |std::ptr::NonNull|std::rc::Rc<|std::sync::Arc<', t):
        return True
    for a in bad_adts:
        if re.search(r'(^|[^A-Za-z0-9_:])' + re.escape(a) + r'\b', t):
            return True
    return False


class State:
    """Interprocedural facts discovered by the fixpoint."""

    def __init__(self, adts, seed_fields):
        self.adts = adts
        self.fn_ret = {}          # fn path -> taint value of the returned value (type-erased cases only matter)
        self.params = set()       # (fn path, param index) receiving a hash-ordered value that its type does not show
        self.fields = set(seed_fields)  # (adt, field) holding a hash-ordered sequence
        self.locals = {}          # fn path -> set(hid) of locals filled in hash order (Vec pushed inside a tainted loop)
        self.changed = False

    def add_ret(self, fn, v):
        if v is None:
            return
        old = self.fn_ret.get(fn)
        new = join(old, v)
        if new != old:
            self.fn_ret[fn] = new
            self.changed = True

    def add_param(self, fn, i):
        if (fn, i) not in self.params:
            self.params.add((fn, i))
            self.changed = True

    def add_field(self, adt, f):
        if (adt, f) not in self.fields:
            self.fields.add((adt, f))
            self.changed = True

    def add_local(self, fn, hid):
        s = self.locals.setdefault(fn, set())
        if hid not in s:
            s.add(hid)
            self.changed = True


class Taint:
    def __init__(self, crate, fn, st):
        self.crate = crate
        self.fn = fn
        self.st = st
        self.adts = st.adts
        self.memo = {}
        self.bind = H.binding_sites(fn)

    def by_type(self, e):
        c = self.crate
        return _type_tainted(c.ty(e), self.adts) or _type_tainted(c.ty(e, adjusted=True), self.adts)

    def coll_type(self, e):
        t = self.crate.ty(e) or ''
        return bool(HASH_COLL.search(t))

    def closure_returns_tainted(self, cl):
        return any(self.t(x) for x in H.return_exprs(cl['body']))

    def t(self, e):
        key = id(e)
        if key in self.memo:
            return self.memo[key]
        self.memo[key] = None  # cycle guard
        r = self._t(e)
        self.memo[key] = r
        return r

    def _slot_of(self, pat, hid):
        """If pat is a tuple pattern, the slot index in which `hid` is bound (else None)."""
        p = pat
        while p.get('k') in ('PRef', 'PDeref'):
            p = p['p']
        if p.get('k') != 'PTup':
            return None
        for i, s in enumerate(p['subs']):
            for b in H.pat_bindings(s):
                if b['hid'] == hid:
                    return i
        return None

    def _t(self, e):
        k = e.get('k')
        if k in ('Lit', 'Closure'):
            return None
        if self.by_type(e):
            return WHOLE
        if k in ('Call', 'MCall'):
            c = H.callee(e)
            d = H.callee_decl(e)
            for p in (c, d):
                if p in self.st.fn_ret:
                    return self.st.fn_ret[p]
            name = e.get('m') or (short(d or '').split('::')[-1])
            if name in PROPAGATE:
                for a in H.call_args(e):
                    if a.get('k') == 'Closure':
                        if self.closure_returns_tainted(a):
                            return WHOLE
                    elif self.t(a):
                        return WHOLE
            return None
        if k == 'Path' and e.get('res') == 'local':
            hid = e.get('hid')
            if hid in self.st.locals.get(self.fn['path'], ()):
                return WHOLE
            b = self.bind.get(hid)
            if not b:
                return None
            if b['kind'] == 'param':
                if (self.fn['path'], b['index']) in self.st.params:
                    return WHOLE
                return None
            if b['kind'] in ('let', 'letcond'):
                init = b['node'].get('init') if b['kind'] == 'let' else b['node'].get('e')
                if init is None:
                    return None
                v = self.t(init)
                if v is None:
                    return None
                if b['pat'].get('k') == 'Bind':
                    return v
                slot = self._slot_of(b['pat'], hid)
                if v is True:
                    # whole value tainted and destructured: only type-tainted bindings count
                    return None
                if slot is not None and slot in v:
                    return WHOLE
                return None
            return None
        if k in ('AddrOf', 'Cast', 'Try'):
            return self.t(e['e'])
        if k == 'Unary' and e.get('op') == 'Deref':
            return self.t(e['e'])
        if k == 'Field':
            if (e.get('adt'), e.get('f')) in self.st.fields:
                return WHOLE
            return None
        if k == 'Tup':
            slots = frozenset(i for i, x in enumerate(e['es']) if self.t(x))
            return slots or None
        if k in ('Block', 'If', 'Match'):
            v = None
            for x in H.value_exprs(e):
                if x is not e:
                    v = join(v, self.t(x))
            return v
        return None


def sort_key_total(call):
    """Does the key closure of sorted_by_key/sorted_by project the map key (.0 of a (k, v) item)?"""
    args = call.get('args', [])
    if not args or args[-1].get('k') != 'Closure':
        return False, 'key is not a closure literal'
    cl = args[-1]
    m = call.get('m')

    def peel(p):
        while p.get('k') in ('PRef', 'PDeref'):
            p = p['p']
        return p

    def first_of(expr, params):
        """expr is (a view of) slot 0 of one of params; returns param index or None"""
        x = expr
        while True:
            k = x.get('k')
            if k in ('AddrOf', 'Cast'):
                x = x['e']
            elif k == 'Unary' and x.get('op') == 'Deref':
                x = x['e']
            elif k == 'MCall' and x.get('m') in ('clone', 'as_str', 'as_ref', 'to_owned', 'borrow', 'deref', 'to_string') and not x['args']:
                x = x['recv']
            else:
                break
        if x.get('k') == 'Path' and x.get('res') == 'local':
            for i, p in enumerate(params):
                pp_ = peel(p)
                if pp_.get('k') == 'PTup' and pp_['subs']:
                    s0 = peel(pp_['subs'][0])
                    if s0.get('k') == 'Bind' and s0.get('hid') == x.get('hid'):
                        return i
            return None
        if x.get('k') == 'Field' and x.get('f') == '0':
            y = x['e']
            while y.get('k') in ('AddrOf',) or (y.get('k') == 'Unary' and y.get('op') == 'Deref'):
                y = y['e']
            if y.get('k') == 'Path' and y.get('res') == 'local':
                for i, p in enumerate(params):
                    pp_ = peel(p)
                    if pp_.get('k') == 'Bind' and pp_.get('hid') == y.get('hid'):
                        return i
        return None

    vals = [v for v in H.value_exprs(cl['body'])]
    if m in ('sorted_by_key', 'sorted_by_cached_key', 'sorted_unstable_by_key'):
        if len(cl['params']) == 1 and vals and all(first_of(v, cl['params']) == 0 for v in vals):
            return True, 'key closure returns slot 0 (the map key) of the item'
        return False, 'key closure does not project the map key: ' + pp(cl, maxlen=120)
    if m in ('sorted_by', 'sorted_unstable_by'):
        if len(cl['params']) == 2 and vals:
            ok = True
            for v in vals:
                if not (v.get('k') == 'MCall' and v.get('m') in ('cmp', 'partial_cmp') and len(v['args']) == 1):
                    ok = False
                    break
                a = first_of(v['recv'], cl['params'])
                b = first_of(v['args'][0], cl['params'])
                if a is None or b is None or {a, b} != {0, 1}:
                    ok = False
                    break
            if ok:
                return True, 'comparator compares slot 0 (the map key) of both items'
        return False, 'comparator does not compare the map keys: ' + pp(cl, maxlen=120)
    return False, 'unknown keyed sort'


BLIND_INSERTS = {'insert', 'entry', 'extend'}
READ_ONLY_MAP = {'get', 'contains_key', 'contains', 'len', 'is_empty', 'iter', 'keys', 'values'}
ORDERED_GROW = {'push', 'push_back', 'push_front', 'extend', 'insert', 'push_str', 'append', 'extend_from_slice'}


def loop_body_effects(crate, fn, loop, T):
    """Order-sensitive effects of a `for` body iterating in hash order: list of (kind, what, node, hid)."""
    inner = set()
    for b in H.pat_bindings(loop['pat']):
        inner.add(b['hid'])
    for n in walk(loop['body']):
        k = n.get('k')
        if k in ('Let', 'Arm', 'LetCond', 'For'):
            for b in H.pat_bindings(n['pat']):
                inner.add(b['hid'])
        elif k == 'Closure':
            for p in n['params']:
                for b in H.pat_bindings(p):
                    inner.add(b['hid'])
    out = []
    outer_map_uses = []
    pm = H.parents(fn)
    bind = H.binding_sites(fn)

    def nearest_loop(n):
        cur = pm.get(id(n))
        while cur is not None:
            if cur.get('k') in ('For', 'Loop', 'Closure'):
                return cur
            cur = pm.get(id(cur))
        return None

    for n in walk(loop['body']):
        k = n.get('k')
        if k == 'Ret':
            out.append(('early-exit', 'return', n, None))
        elif k == 'Try':
            encl = None
            cur = pm.get(id(n))
            while cur is not None and cur is not loop:
                if cur.get('k') == 'Closure':
                    encl = cur
                    break
                cur = pm.get(id(cur))
            if encl is None:
                out.append(('early-exit', '?', n, None))
        elif k == 'Break':
            nl = nearest_loop(n)
            if nl is loop or 'label' in n:
                out.append(('early-exit', 'break', n, None))
        elif k in ('Assign', 'AssignOp'):
            rl = H.root_local(n['l'])
            if rl is None or rl.get('hid') not in inner:
                out.append(('assign-outer', pp(n['l'], maxlen=60), n, None))
        elif k in ('Call', 'MCall'):
            for a in H.call_args(n):
                ta = crate.ty(a, adjusted=True) or ''
                if not ta.startswith('&mut '):
                    continue
                rl = H.root_local(a)
                if rl is not None and rl.get('hid') in inner:
                    continue
                if a.get('k') == 'AddrOf' and rl is None:
                    continue  # &mut of a temporary
                name = n.get('m') or short(H.callee_decl(n) or '?')
                if INSENSITIVE_MUT_TARGET.search(ta):
                    if 'Diagnostics' not in ta:
                        blind = n.get('k') == 'MCall' and a is n['recv'] and name in BLIND_INSERTS
                        outer_map_uses.append((pp(H.strip_refs(a), maxlen=40), name, blind, n))
                    continue
                # growth of a plain local collection: the local becomes hash-ordered (tracked), not a violation
                hid = None
                if rl is not None and name in ORDERED_GROW and n.get('k') == 'MCall' and H.strip_refs(n['recv']) is rl:
                    b = bind.get(rl.get('hid'))
                    if b and b['kind'] == 'let':
                        hid = rl.get('hid')
                out.append(('mutates-outer', '%s(%s: %s)' % (name, pp(a, maxlen=40), ta[:60]), n, hid))
    # a local closure defined outside the loop and called inside it runs its body once per iteration: its effects on the
    # state it captured are effects of the loop body
    if not loop.get('_closure_body'):
        seen_clo = set()
        for n in walk(loop['body']):
            if n.get('k') == 'Call' and (n.get('f') or {}).get('k') == 'Path' and (n.get('f') or {}).get('res') == 'local':
                b = bind.get(n['f'].get('hid'))
                init = H.strip_refs(b['node'].get('init') or {}) if b is not None and b['kind'] == 'let' else {}
                if init.get('k') == 'Closure' and id(init) not in seen_clo and not any(x is init for x in walk(loop['body'])):
                    seen_clo.add(id(init))
                    fake = {'pat': {'k': 'PTup', 'subs': init['params']}, 'body': init['body'], '_closure_body': True}
                    for kind, what, node, hid in loop_body_effects(crate, fn, fake, T):
                        if kind == 'early-exit':
                            continue   # a return inside the closure only leaves the closure
                        out.append((kind, '%s (in closure `%s` called from the loop)' % (what, n['f'].get('name')), n, hid))
    # an outer map that is written by blind inserts only is order-insensitive; mixing inserts with reads or in-place
    # mutation of the same map inside the loop makes later iterations see earlier ones (read-modify-write): order-sensitive
    by_target = {}
    for tgt, name, blind, node in outer_map_uses:
        by_target.setdefault(tgt, []).append((name, blind, node))
    for tgt, uses in by_target.items():
        if any(b for _, b, _ in uses) and any(not b for _, b, _ in uses):
            nb = next(u for u in uses if not u[1])
            out.append(('mixed-map-access', '%s: %s' % (tgt, '+'.join(sorted(set(u[0] for u in uses)))), nb[2], None))
        elif all(not b for _, b, _ in uses) and len(uses) and any(u[0] not in READ_ONLY_MAP for u in uses):
            # in-place mutation of existing entries only (no insert): each iteration touches the loop item or all entries alike
            pass
    return out



MAP_TARGET = re.compile(r'(std::collections::(HashMap|BTreeMap)|indexmap::IndexMap)<')
ITEM_KEEPING = {'iter', 'iter_mut', 'into_iter', 'filter', 'cloned', 'copied', 'by_ref', 'skip', 'take', 'rev', 'peekable', 'chain', 'drain', 'skip_while', 'take_while', 'inspect'}
ITEM_CHANGING = {'map', 'filter_map', 'flat_map', 'map_while'}


def item_key_bindings(pat):
    """hids that hold the key of a source item bound by pat: slot 0 of a pair pattern, else the whole item."""
    p = pat
    while p.get('k') in ('PRef', 'PDeref'):
        p = p['p']
    if p.get('k') == 'PTup' and len(p['subs']) == 2:
        return {b['hid'] for b in H.pat_bindings(p['subs'][0])}
    return {b['hid'] for b in H.pat_bindings(pat)}


def collected_key(KI, fn, chain):
    """(ok, why) for the keys of the pairs a (hash-ordered) iterator chain hands to a map."""
    e = chain
    while True:
        e = H.strip_refs(e) if e.get('k') == 'AddrOf' else e
        if e.get('k') != 'MCall':
            return True, 'the items of the source as they are (keys of a map are distinct)'
        m = e.get('m')
        if m in ITEM_KEEPING:
            e = e['recv']
            continue
        if m in ITEM_CHANGING:
            cl = next((a for a in e['args'] if a.get('k') == 'Closure'), None)
            if cl is None or len(cl['params']) != 1:
                return False, 'item-producing adaptor %s() without a one-parameter closure' % m
            # the closure must be the only item-changing step between the source and the map
            r = e['recv']
            while r.get('k') == 'MCall' and r.get('m') in ITEM_KEEPING:
                r = r['recv']
            if r.get('k') == 'MCall' and r.get('m') in ITEM_CHANGING:
                return False, 'two item-changing adaptors in a row (%s after %s): form not understood' % (m, r.get('m'))
            keys = item_key_bindings(cl['params'][0])
            rets = [x for x in H.return_exprs(cl['body']) if not injective._diverges(injective._peel(x)) and not injective._none_like(x)]
            if len(rets) != 1:
                return False, 'the closure has %d alternative results' % len(rets)
            return KI.inj(fn, rets[0], keys, cl, slot=0)
        return True, 'the items of `%s` as they are' % pp(e, maxlen=40)


PASS_THROUGH = {'Let', 'LetCond', 'Semi', 'Expr', 'Arm', 'Closure', 'Ret', 'Loop', 'Break'}
PATTERN_KINDS = {'Bind', 'Wild', 'PTS', 'PTup', 'PStruct', 'PRef', 'POr', 'PLit', 'PPath', 'PDeref', 'PRange', 'PSlice'}


def analyse_fn(crate, fn, st, exc, used_exc, emit):
    """One pass over a fn. Updates the interprocedural state; when `emit` is a Check, records obligations.
    Returns (number of consumption points, number of sort sanitisers)."""
    T = Taint(crate, fn, st)
    KI = getattr(crate, '_ki', None)
    if KI is None:
        KI = crate._ki = injective.KeyInj(crate, load_table('injective_fns.json'))
    fpath = fn['path']
    fshort = short(fpath)
    in_wrapper_impl = bool(fn.get('impl_self') and _type_tainted(fn['impl_self'], st.adts))
    ordinal = {}
    n_sources = 0
    n_sorts = 0

    def mkkey(base):
        i = ordinal.get(base, 0)
        ordinal[base] = i + 1
        return base + ('#%d' % (i + 1) if i else '')

    def ob(rule, key, ok, loc, detail):
        if emit is not None:
            emit.ob(rule, key, ok, loc, detail, fn=fpath)

    # returned value
    rv = None
    for x in H.return_exprs(fn['body']):
        rv = join(rv, T.t(x))
    if rv is not None and not _type_tainted(fn.get('output', ''), st.adts):
        st.add_ret(fpath, rv)

    for p in walk(fn['body']):
        pk = p.get('k')
        if pk == 'For':
            it = p['iter']
            if T.coll_type(it) or T.t(it):
                n_sources += 1
                effs = loop_body_effects(crate, fn, p, T)
                # keyed writes into a map that outlives the iteration: the key must be an injective function of the item's key
                inside = {b.get('hid') for b in walk(p['body']) if b.get('k') == 'Bind'}
                lkeys = item_key_bindings(p['pat'])
                for c in H.calls_in(p['body']):
                    if c.get('k') != 'MCall' or c.get('m') not in ('insert', 'entry') or not c['args']:
                        continue
                    rt = (crate.ty(c['recv'], adjusted=True) or crate.ty(c['recv']) or '')
                    if not MAP_TARGET.search(rt):
                        continue
                    rl = H.root_local(c['recv'])
                    if rl is not None and rl.get('hid') in inside:
                        continue
                    ok8, why8 = KI.inj(fn, c['args'][0], lkeys, p)
                    ob('R8.8', mkkey('key-injective|%s|for|%s' % (fshort, c['m'])), ok8, crate.loc(c), ('map key: ' + why8) if ok8 else
                       'two items of the hash-ordered loop can be stored under one key, and which one survives depends on hash order: ' + why8)
                # pairs pushed onto a list that is keyed later on: same requirement for their first component
                for c in H.calls_in(p['body']):
                    if c.get('k') == 'MCall' and c.get('m') == 'push' and c['args'] and H.strip_refs(c['args'][0]).get('k') == 'Tup' and len(H.strip_refs(c['args'][0])['es']) == 2:
                        rl = H.root_local(c['recv'])
                        if rl is not None and rl.get('hid') in inside:
                            continue
                        ok8, why8 = KI.inj(fn, H.strip_refs(c['args'][0]), lkeys, p, slot=0)
                        ob('R8.8', mkkey('pair-key-injective|%s|for|push' % fshort), ok8, crate.loc(c), ('first component: ' + why8) if ok8 else
                           'pairs collected in hash order whose first component is not an injective function of the item key: ' + why8)
                if not effs:
                    ob('R8.1', mkkey('%s|for|%s' % (fshort, pp(it, maxlen=50))), True, crate.loc(p),
                       'for-body has no early exit and mutates only maps/sets/diagnostics/loop-local state')
                for kind, what, node, hid in effs:
                    what_key = what.split('(')[0]
                    ek = (fshort, 'for-' + kind, what_key)
                    key = mkkey('%s|for-%s|%s' % (fshort, kind, what_key))
                    if hid is not None:
                        st.add_local(fpath, hid)
                        ob('R8.1', key, True, crate.loc(node),
                           'transfer: local collection `%s` is filled in hash order; it is now a tracked hash-ordered source and every use of it is checked' % pp(H.call_args(node)[0], maxlen=30))
                    elif ek in exc:
                        used_exc.add(ek)
                        ob('R8.1', key, True, crate.loc(node), 'reviewed exception: ' + exc[ek]['reason'])
                    else:
                        ob('R8.1', key, False, crate.loc(node),
                           'order-sensitive effect `%s` inside a loop that runs in hash-map order (%s)' % (what, pp(it, maxlen=60)))
            continue
        if pk in PASS_THROUGH or pk in PATTERN_KINDS:
            continue
        if T.t(p):
            continue
        kids = [c for c in children(p) if c.get('k') not in PATTERN_KINDS]
        tk = [c for c in kids if c.get('k') != 'Closure' and T.t(c)]
        if pk in ('Call', 'MCall'):
            for a in H.call_args(p):
                if a.get('k') == 'Closure' and T.closure_returns_tainted(a):
                    tk.append(a)
        if not tk:
            continue
        if pk in ('Block', 'If', 'Match'):
            if (pk == 'Match' and any(c is p['e'] for c in tk)) or (pk == 'If' and any(c is p['c'] for c in tk)):
                pass
            else:
                continue
        n_sources += 1
        loc = crate.loc(p)
        name = None
        if pk in ('Call', 'MCall'):
            name = p.get('m') or short(H.callee_decl(p) or '?').split('::')[-1]
        key = mkkey('%s|%s|%s' % (fshort, 'consumer', name or pk))
        ek = (fshort, 'consumer', name or pk)
        if in_wrapper_impl:
            par = H.parents(fn).get(id(p))
            if pk == 'Assign' and T.by_type(p['l']):
                ob('R8.1', key, False, loc, 'inside wrapper iterator %s: a hash-ordered iterator that is in progress is overwritten (`%s`): the elements it had not yielded yet — '
                   'which ones depends on hash order — are never visited' % (short(fn['impl_self']), pp(p, maxlen=50)))
            elif name == 'next' and par is not None and par.get('k') == 'Try':
                ob('R8.1', key, False, loc, 'inside wrapper iterator %s: `?` on the next() of one inner hash-ordered iterator ends the whole iteration when that '
                   'inner map is exhausted, so which elements are yielded depends on hash order' % short(fn['impl_self']))
            else:
                ob('R8.1', key, True, loc, 'inside the impl of wrapper source %s (every use of that type is itself checked as a hash-ordered source)' % short(fn['impl_self']))
            continue
        if pk == 'Struct':
            done = False
            for f in p['fields']:
                if T.t(f['e']):
                    st.add_field(p.get('def'), f['f'])
                    ob('R8.1', key, True, loc, 'transfer: field %s.%s now holds a hash-ordered sequence; every read of it is checked' % (short(p.get('def')), f['f']))
                    done = True
            if done:
                continue
        if pk == 'Assign' and p['l'].get('k') == 'Field' and p['l'].get('adt') and T.t(p['r']):
            st.add_field(p['l']['adt'], p['l']['f'])
            ob('R8.1', key, True, loc, 'transfer: field %s.%s now holds a hash-ordered sequence; every read of it is checked' % (short(p['l']['adt']), p['l']['f']))
            continue
        if name in SANITISERS_TOTAL:
            n_sorts += 1
            ob('R8.1', key, True, loc, 'sanitiser: %s() sorts whole items (total order)' % name)
        elif name in SANITISERS_KEYED:
            n_sorts += 1
            ok, why = sort_key_total(p)
            ob('R8.1', key, True, loc, 'sanitiser: %s' % name)
            kk = (fshort, 'sort-key', name)
            if ok:
                ob('R8.1k', key, True, loc, why)
            elif kk in exc:
                used_exc.add(kk)
                ob('R8.1k', key, True, loc, 'reviewed exception: ' + exc[kk]['reason'])
            else:
                ob('R8.1k', key, False, loc, why)
        elif name in INSENSITIVE:
            ob('R8.1', key, True, loc, 'order-insensitive consumer %s()' % name)
        elif name in COLLECTORS:
            target = crate.ty(p) or ''
            if name in ('extend', 'append') and pk == 'MCall':
                target = (crate.ty(p['recv'], adjusted=True) or '').replace('&mut ', '')
            m = re.match(r'^std::(?:result::Result|option::Option)<(.*)', target)
            inner = m.group(1) if m else target
            if UNORDERED_TARGET.search(inner):
                ob('R8.1', key, True, loc, 'collected into an unordered/sorted container: %s' % target[:80])
                if MAP_TARGET.search(inner):
                    chain = p['recv'] if (pk == 'MCall' and name not in ('extend', 'append')) else (p['args'][0] if p.get('args') else None)
                    if chain is None:
                        ob('R8.8', 'key-injective|' + key, False, loc, 'map filled from a hash-ordered source: form not understood')
                    else:
                        ok8, why8 = collected_key(KI, fn, chain)
                        ob('R8.8', 'key-injective|' + key, ok8, loc, ('map key: ' + why8) if ok8 else
                           'two items of the hash-ordered source can land on one key of the map, and which one survives depends on hash order: ' + why8)
            elif ek in exc:
                used_exc.add(ek)
                ob('R8.1', key, True, loc, 'reviewed exception: ' + exc[ek]['reason'])
            else:
                ob('R8.1', key, False, loc, 'hash-ordered items collected into an ordered container `%s`' % target[:100])
        elif ek in exc:
            used_exc.add(ek)
            ob('R8.1', key, True, loc, 'reviewed exception: ' + exc[ek]['reason'])
        elif name in SENSITIVE:
            ob('R8.1', key, False, loc, 'order-sensitive consumer `%s` of a hash-ordered iteration: %s' % (name, pp(p, maxlen=140)))
        elif pk in ('Call', 'MCall') and (H.callee(p) in crate.fns or H.callee_decl(p) in crate.fns):
            cal = H.callee(p) if H.callee(p) in crate.fns else H.callee_decl(p)
            for i, a in enumerate(H.call_args(p)):
                if a.get('k') != 'Closure' and T.t(a):
                    st.add_param(cal, i)
            ob('R8.1', key, True, loc, 'interprocedural: hash-ordered value passed to local fn %s, which is analysed with that parameter tainted' % short(cal))
        else:
            ob('R8.1', key, False, loc, 'unclassified consumer `%s` of a hash-ordered value (fail-closed; classify it in rules/c08.py or add a reviewed row): %s'
               % (name or pk, pp(p, maxlen=140)))
    return n_sources, n_sorts


def run(ck):
    if getattr(ck, 'depth', 0) >= 2:
        return      # a shared run of a shared run: nothing of it is selected, and mutual sharing must end somewhere
    F = ck.facts
    ck.explanation = (
        'Static taint analysis (no execution). Sources: every expression whose type embeds a std HashMap/HashSet iterator '
        '(type-driven, so adaptor chains and wrapper structs are followed automatically) and every `for` over a HashMap/HashSet. '
        'Type-erased flows are followed by an interprocedural fixpoint: functions returning hash-ordered values (incl. tuple slots), '
        'local Vecs filled inside a hash-ordered loop, struct fields such Vecs are stored in, and parameters they are passed to. '
        'Each point where the order leaves the tracked world (a consumer) must be a sanitiser (sort on a total key), an '
        'order-insensitive sink (collect into a map/set, all/any/count, diagnostics) or a reviewed exception; `for` bodies over hash '
        'order must have no early exit and mutate only maps/sets/diagnostics. Also: no ambient nondeterminism callee '
        '(time/env/thread/random) anywhere in lib, CLI lib or bin outside reviewed rows; statics are immutable lazies. R8.8: wherever items of a '
        'hash-ordered source are stored in a map (collect / extend / insert / entry), the key expression is read backwards and must be an '
        'injective function of the item key (views, projections, concatenation with an invariant, functions of this crate with one '
        'non-None result, reviewed rows): otherwise two items can share a key and hash order decides which survives.')
    ck.assumptions = [
        'diagnostics are compared as a set (the property says so), hence Diagnostics::push is order-insensitive',
        'inserting into a HashMap/BTreeMap from a hash-ordered source is insensitive because the keys are distinct: R8.8 derives that (the key is an injective function of the source key) up to the reviewed rows of tables/injective_fns.json; sets need no such argument',
        'read_dir order and duplicate type names inside one directory are inputs, not nondeterminism',
        'dependencies (tree-sitter, quick-xml, serde_json, itertools) are deterministic',
    ]
    ck.trusted_base = ['rustc typeck (expression types, method resolution)', 'classification lists in rules/c08.py',
                       'tables/order_exceptions.json (reviewed rows)']
    table = load_table('order_exceptions.json')
    exc = {(r['fn'], r['kind'], r['what']): r for r in table['exceptions']}
    used_exc = set()
    seed_fields = set((r['adt'], r['field']) for r in table['tainted_fields'])

    ck.rule('R8.1', 'every hash-ordered iteration ends in a sanitiser or an order-insensitive sink')
    ck.rule('R8.1k', 'a keyed sort sanitises only if its key is total on the items (projects the map key) or is a reviewed row')
    ck.rule('R8.4', 'no ambient nondeterminism source (time, env vars, threads, randomness) is called outside reviewed rows')
    ck.rule('R8.5', 'no mutable global state: statics are immutable lazies only')
    ck.rule('R8.8', 'items of a hash-ordered source are stored in a map under keys that are an injective function of their own key')

    n_sources = 0
    n_sorts = 0
    for crate in (F.lib, F.cli, F.bin):
        st = State(tainted_adts_of(crate), seed_fields)
        fns = [fn for fn in crate.fn_list
               if not (fn.get('x') and fn['x'] not in ('impl_attached_i32_property', 'impl_attached_enum_property'))]
        for _round in range(12):
            st.changed = False
            for fn in fns:
                analyse_fn(crate, fn, st, exc, set(), None)
            if not st.changed:
                break
        else:
            ck.ob('R8.1', 'fixpoint', False, '', 'interprocedural fixpoint did not converge in 12 rounds')
        for fn in fns:
            a, b = analyse_fn(crate, fn, st, exc, used_exc, ck)
            n_sources += a
            n_sorts += b
        ck.extra.setdefault('wrapper_sources', []).extend(sorted('%s -> %s' % (short(k), 'whole' if v is True else 'tuple slots %s' % sorted(v)) for k, v in st.fn_ret.items()))
        ck.extra.setdefault('tainted_adts', []).extend(sorted(short(x) for x in st.adts))
        ck.extra.setdefault('tainted_fields', []).extend(sorted('%s.%s' % (short(a), f) for a, f in st.fields))
        ck.extra.setdefault('tainted_params', []).extend(sorted('%s#%d' % (short(a), i) for a, i in st.params))
        ck.extra.setdefault('tainted_locals', []).extend(sorted('%s:%s' % (short(a), len(h)) for a, h in st.locals.items()))

    ck.extra['stale_table_rows'] = [list(k) for k in exc if k not in used_exc]
    ck.floor('R8.1', n_sources, 30, 'hash-ordered consumption points')
    ck.floor('R8.1k', n_sorts, 10, 'sort sanitisers')
    n88 = sum(1 for o in ck.obligations if o['rule'] == 'R8.8')
    ck.floor('R8.8', n88, 12, 'keyed writes into maps from hash-ordered sources')
    ki = getattr(F.lib, '_ki', None)
    ck.extra['stale_injective_rows'] = sorted(set(ki.rows) - ki.used) if ki is not None else []

    # R8.4 ambient nondeterminism (MIR callees, all three crates)
    allowed_ambient = {(r['fn'], r['callee']): r for r in table['ambient_allowed']}
    n_calls = 0
    for crate in (F.lib, F.cli, F.bin):
        for m in crate.mir_list:
            for b in m['blocks']:
                t = b['term']
                if t.get('k') != 'Call':
                    continue
                n_calls += 1
                c = t.get('inst') or t.get('def') or ''
                d = t.get('def') or ''
                hit = AMBIENT.search(c) or AMBIENT.search(d)
                if not hit:
                    continue
                fshort = short(m['path'])
                k = (fshort, d)
                loc = '%s:%d' % (crate.files[t['sp'][0]], t['sp'][1])
                if k in allowed_ambient:
                    ck.ob('R8.4', '%s|%s' % k, True, loc, 'reviewed: ' + allowed_ambient[k]['reason'])
                else:
                    ck.ob('R8.4', '%s|%s' % k, False, loc, 'ambient nondeterminism source `%s` called in %s' % (d, m['path']))
    ck.extra['mir_calls_scanned'] = n_calls
    ck.floor('R8.4', n_calls, 9000, 'MIR call sites scanned')

    # R8.6 Debug formatting of address- or hash-order-dependent types into output/diagnostic text
    ck.rule('R8.6', 'no {:?}/{:p} formatting of a type whose Debug output depends on addresses or hash order, outside logging, panics and Debug impls')
    n_dbg = 0
    for crate in (F.lib, F.cli, F.bin):
        nondet = nondet_debug_adts(crate)
        ck.extra.setdefault('nondeterministic_debug_types', []).extend(sorted(short(x) for x in nondet))
        for fn in crate.fn_list:
            if fn.get('x') in ('Debug', 'Clone', 'Deserialize', 'Serialize', 'Error', 'Parser', 'Args', 'Subcommand'):
                continue
            if fn.get('impl_trait') == 'std::fmt::Debug' or fn['path'].startswith('tir::dump::'):
                continue
            ordn = {}
            for site in H.format_sites_in_fn(fn):
                n = site['node']
                mac = (n.get('x') or '')
                if mac.startswith('log::') or mac in ('panic', 'unreachable', 'assert', 'assert_eq', 'assert_ne', 'debug_assert', 'todo', 'unimplemented', 'trace', 'debug'):
                    continue
                for tr, e in site['args'] or []:
                    if tr not in ('new_debug', 'new_pointer') or e is None:
                        continue
                    n_dbg += 1
                    t = crate.ty(e) or '?'
                    bad = tr == 'new_pointer' or debug_nondeterministic(t, nondet)
                    base = '%s|debug-format|%s' % (short(fn['path']), re.sub(r"^(&(mut )?('[a-z_]+ )?)+", '', t)[:60])
                    i = ordn.get(base, 0)
                    ordn[base] = i + 1
                    ck.ob('R8.6', base + ('#%d' % (i + 1) if i else ''), not bad, crate.loc(n),
                          'Debug output of `%s` is address- and hash-order-free' % t[:80] if not bad else
                          '`{:?}` of `%s` prints heap addresses or hash-ordered containers: text differs between runs' % t[:100], fn=fn['path'])
    ck.floor('R8.6', n_dbg, 3, 'Debug-format sites outside logging/panics/Debug impls')

    # R8.5 statics
    n_static = 0
    for crate in (F.lib, F.cli, F.bin):
        for fn in crate.fn_list:
            if fn['dk'] != 'Static':
                continue
            n_static += 1
            t = crate.ty(fn['body']) or ''
            ok = bool(re.match(r'^once_cell::sync::Lazy<', t)) and not re.search(r'(Mutex|RwLock|RefCell|Cell<|Atomic)', t)
            ck.ob('R8.5', 'static|%s' % short(fn['path']), ok, crate.loc(fn['body']),
                  'static of type %s (immutable lazy: ok)' % t[:100] if ok else 'static with possibly mutable type %s' % t[:120])
    ck.floor('R8.5', n_static, 1, 'statics inspected')

    # R8.7 nothing is carried from one document to the next: the per-source loops of the CLI share no mutable state
    ck.rule('R8.7', 'translating a document does not depend on the documents translated before it in the same process')
    B = F.bin
    n_loops7 = 0

    class _NoTaint:
        def coll_type(self, e):
            return None

        def t(self, e):
            return False
    for fname in ('generate_ui', 'preview'):
        fn = B.fn(fname)
        if fn is None:
            continue
        for lp in (n for n in walk(fn['body']) if n.get('k') == 'For'):
            if not any(H.is_call_to(c, 'generate_ui_file', 'preview_file') for c in H.calls_in(lp['body'])):
                continue
            n_loops7 += 1
            ck.analysed('bin::' + fname)
            effs = loop_body_effects(B, fn, lp, _NoTaint())
            bad = []
            for kind, what, node, hid in effs:
                if kind == 'early-exit':
                    continue   # C18 R18.5 judges early exits
                if kind == 'assign-outer' and node.get('k') == 'Assign' and isinstance(H.lit_value(node['r']), bool):
                    continue   # a sticky flag set to a constant: no data flows from the document
                bad.append('%s %s' % (kind, what))
            ck.ob('R8.7', 'per-source-loop-shares-no-mutable-state|%s' % fname, not bad, B.loc(lp),
                  'the loop body only reads shared context (&ctx, &docs_cache) and sets constant flags' if not bad else
                  'state declared outside the loop is mutated by the loop body (%s): what is written for one source can depend on the sources processed before it' % '; '.join(bad[:3]), fn='bin::' + fname)
    ck.floor('R8.7', n_loops7, 1, 'per-source loops in the CLI')
