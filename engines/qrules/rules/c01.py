"""C01: generated binding code computes the value of its source expression (vocabulary and wiring clauses)."""
import re
from facts import walk, short, pp
import hirutil as H
import tables as T
from core import load_oracle

LEVEL = 'other'
TECHNIQUE = ('composition of decision tables extracted from the typed HIR (token -> AST operator -> IR operator -> printed C++ spelling; '
             'operator -> folding operation; builtin name -> kind -> C++ facility) against an external operator oracle; format-template '
             'argument order; mirror and same-label cross-checks of the short-circuit wiring; nesting check of the completion-value walk')
LEVEL_TEXT = ('Decides the vocabulary agreement without which no program can be right, exhaustively over the finite tables: all 25 binary '
              'and 7 unary JS operator tokens are traced through the parser table, the IR conversion and the Display impls to the C++ '
              'operator they print as and compared with the oracle (identity except ===/!== ; exactly >>> ** ?? instanceof in typeof void '
              'delete rejected); every arm of the constant folder is summarized and must apply the operation its token denotes (i64 '
              'checked_* with the operands in order, plain operators for f64/bool/strings); builtin names map to the right Qt/std '
              'facility; rvalues print their operands in source order with the pointer/value member operator of the same receiver; the '
              '&&/|| lowering is a mirror pair joining at one label; completion values are patched only through empty blocks. The '
              'goto-structured function as a whole is not executed or proved.')
LEVEL_NOTE = ('Trusted: oracles/op_tokens.json; C++ semantics of the printed operators on the documented types; rustc resolution. Not '
              'decided: label arithmetic (ref.next()) for every nesting, run-time evaluation, 32-bit semantics of the C++ side.')
DESIGN_REF = 'DESIGN.md section 4, C01'

BINOP_NAMES = {'Add': 'Add', 'Sub': 'Sub', 'Mul': 'Mul', 'Div': 'Div', 'Rem': 'Rem', 'BitAnd': 'BitAnd', 'BitXor': 'BitXor', 'BitOr': 'BitOr',
               'Eq': 'Eq', 'Ne': 'Ne', 'Lt': 'Lt', 'Le': 'Le', 'Gt': 'Gt', 'Ge': 'Ge'}


def display_tables(crate):
    """{enum short name: {variant: printed string}} from `impl Display for X` in opcode.rs."""
    out = {}
    for fn in crate.fn_list:
        if fn.get('impl_trait') == 'std::fmt::Display' and fn['name'] == 'fmt' and 'opcode::' in (fn.get('impl_self') or ''):
            en = (fn.get('impl_self') or '').split('::')[-1]
            m = next((n for n in walk(fn['body']) if n.get('k') == 'Match'), None)
            if m is None:
                continue
            tab = {}
            delegating = False
            for arm in m['arms']:
                vals = list(H.value_exprs(arm['body']))
                v = vals[0] if len(vals) == 1 else None
                if v is not None and v.get('k') == 'Lit':
                    for name in T.variant_names(arm['pat']):
                        tab[name] = v['v']
                elif v is not None and v.get('k') == 'MCall' and v.get('m') == 'fmt':
                    delegating = True
            out[en] = ('delegate' if delegating and not tab else tab)
    return out


def fold_summary(crate, body, lhid, rhid, fn=None):
    """Summarize the folding operation of an arm body: ('call', name, order_ok) / ('bin', op, order_ok) / ('un', op) / ('id',)."""
    vals = list(H.value_exprs(body))
    if len(vals) != 1:
        return ('?', 'multi')
    v = H.strip_refs(vals[0])
    if v.get('k') == 'Call' and (v.get('def') or '').endswith('Result::Err'):
        return ('err',)
    # peel Ok(ConstantValue::X(..)) wrappers
    while v.get('k') == 'Call' and v.get('dk') == 'Ctor' and len(v['args']) == 1:
        v = H.strip_refs(v['args'][0])

    tried = []

    def hid(e):
        rl = H.root_local(e)
        # an operand converted first and bound to a local (`let count: u32 = r.try_into()?;`) is still that operand
        for _ in range(4):
            if rl is None or fn is None:
                break
            b = H.binding_sites(fn).get(rl.get('hid'))
            if not b or b['kind'] != 'let' or b['pat'].get('k') != 'Bind' or b['node'].get('init') is None:
                break
            if any(n.get('k') in ('Assign', 'AssignOp') and n['l'].get('k') == 'Path' and n['l'].get('hid') == rl.get('hid') for n in walk(fn['body'])):
                break
            init = b['node']['init']
            if any(x.get('k') == 'Try' for x in walk(init)):
                tried.append(True)
            rl = H.root_local(init)
        return rl.get('hid') if rl is not None else None
    if v.get('k') == 'Call' and v['f'].get('k') == 'Path':
        name = T.last(v.get('def'))
        order = [hid(a) for a in v['args']]
        return ('call', name, order == [lhid, rhid] or (rhid is None and order == [lhid]))
    if v.get('k') == 'MCall':
        name = v['m']
        inner_try = [x for a in v['args'] for x in walk(a) if x.get('k') == 'Try']
        order = [hid(v['recv'])] + [hid(a) for a in v['args']]
        return ('call', name, order == [lhid, rhid] or (rhid is None and order == [lhid]), bool(inner_try) or bool(tried))
    if v.get('k') == 'Binary':
        return ('bin', v['op'], [hid(v['l']), hid(v['r'])] == [lhid, rhid])
    if v.get('k') == 'Unary':
        return ('un', v['op'], hid(v['e']) == lhid)
    if v.get('k') == 'Path' and v.get('res') == 'local':
        return ('id', v.get('hid') == lhid)
    return ('?', pp(v, maxlen=40))


def run(ck):
    if getattr(ck, 'depth', 0) >= 2:
        return      # a shared run of a shared run: nothing of it is selected, and mutual sharing must end somewhere
    F = ck.facts
    L = F.lib
    oracle = load_oracle('op_tokens.json')
    ck.explanation = (
        'R1.1 token chain: BinaryOperator/UnaryOperator::from_node (token literal -> AST operator) o TryFrom (AST operator -> IR operator or '
        'Err) o Display (IR operator -> printed string) == oracle cxx spelling; rejected set == oracle nulls. R1.2 ceval: per (function, '
        'constant kind) the inner `match op` maps each operator to the folding operation the oracle lists for its token, operands in '
        '(left, right) order; shift counts go through try_into()?; every checked_* result is turned into Err(IntegerOverflow) on None. '
        'R1.3 builtin chain: lookup_global_name/process_namespace_name literals -> BuiltinFunctionKind -> C++ head in format_rvalue == '
        'oracle. R1.4 member_access_op is ("->" if pointer else ".") and is applied to the operand that is printed as the receiver. '
        'R1.5 format templates of Rvalue arms take their operands in source order. R1.6 visit_binary_logical_expression: And/Or arms '
        'are mirror images, the short-circuit edge and the right block both go to right_ref.next(). R1.7 finalize_completion_values '
        'walks to predecessors only from blocks without completion value and without statements. R1.8 visit_* dispatch to ceval only '
        'when all operands are constants and with the operator class matching the evaluator.')
    for rid, text in (('R1.1', 'operator tokens print as the C++ operator with the documented meaning; unsupported tokens are rejected'),
                      ('R1.2', 'constant folding applies the operation the token denotes, checked, operands in order'),
                      ('R1.3', 'builtin functions map to the documented C++ facility'),
                      ('R1.4', 'member access uses -> for pointers and . for values, on the printed receiver'),
                      ('R1.5', 'rvalue templates take their operands in source order'),
                      ('R1.6', 'short-circuit && / || lowering is a mirror pair joining at one label'),
                      ('R1.7', 'completion values are patched only through empty blocks'),
                      ('R1.8', 'folding is attempted only on all-constant operands with the matching evaluator'),
                      ('R1.9', 'branches, joins and sinks of the lowering follow the reviewed protocol (shared with C06)'),
                      ('R1.10', 'a declared name is in scope for the declarators and statements that follow it'),
                      ('R1.11', 'the default clause is placed where the source puts it'),
                      ('R1.12', 'AST fields are read from the grammar field of the same name'),
                      ('R1.13', 'the walker hands the parts of an AST node to the visitor in the reviewed positions'),
                      ('R1.14', 'hand-written property descriptions name the accessors of that very property'),
                      ('R1.15', 'string constants in the generated code denote the source string (shared with C16)'),
                      ('R1.16', 'the header on disk is the translator output of this run (shared with C15)')):
        ck.rule(rid, text)

    disp = display_tables(L)
    # ---- R1.1 ------------------------------------------------------------------------------
    for arity, enum_ast, enum_ir in (('binary', 'BinaryOperator', 'BinaryOp'), ('unary', 'UnaryOperator', 'UnaryOp')):
        fnode = L.fn('qmlast::expr::%s::from_node' % enum_ast)
        conv = next((f for f in L.fn_list if f['name'] == 'try_from' and ('opcode::%s' % enum_ir) in (f.get('impl_self') or '')), None)
        if fnode is None or conv is None:
            ck.floor('R1.1', 0, 1, '%s token table / conversion' % arity)
            continue
        ck.analysed(fnode['path'])
        ck.analysed(conv['path'])
        m1 = T.find_match_on(fnode, lambda e: e.get('k') == 'MCall' and e.get('m') == 'kind')
        m2 = next((n for n in walk(conv['body']) if n.get('k') == 'Match'), None)
        if m1 is None or m2 is None:
            ck.floor('R1.1', 0, 1, '%s match tables' % arity)
            continue
        tok2ast, rest1 = T.simple_table(m1)
        ast2ir, rest2 = T.simple_table(m2)
        ck.ob('R1.1', '%s|unknown-token-is-error' % arity, rest1 == ['!diverges'], L.loc(m1), 'catch-all arm returns Err(ParseError)')
        ck.ob('R1.1', '%s|conversion-has-no-catch-all' % arity, rest2 is None, L.loc(m2), 'TryFrom lists every AST operator explicitly (a new operator cannot be accepted by accident)')
        toks = oracle[arity]
        ck.floor('R1.1', len(tok2ast), len(toks), '%s operator tokens in from_node' % arity)
        for tok in sorted(set(toks) | set(tok2ast)):
            exp = toks.get(tok, {}).get('cxx') if tok in toks else '<not a JS operator>'
            astv = tok2ast.get(tok)
            if astv is None:
                ck.ob('R1.1', '%s|%s' % (arity, tok), False, L.loc(m1), 'token "%s" is not in the parser table' % tok)
                continue
            av = astv[0] if astv else '?'
            ir = ast2ir.get(av)
            if ir is None:
                ck.ob('R1.1', '%s|%s' % (arity, tok), False, L.loc(m2), 'AST operator %s (token "%s") has no conversion arm' % (av, tok))
                continue
            if ir[:1] == ['Err']:
                got = None
            elif len(ir) == 3 and ir[0] == 'Ok':
                cls_enum = {'Arith': ('BinaryArithOp' if arity == 'binary' else 'UnaryArithOp'), 'Bitwise': ('BinaryBitwiseOp' if arity == 'binary' else 'UnaryBitwiseOp'),
                            'Shift': 'ShiftOp', 'Logical': ('BinaryLogicalOp' if arity == 'binary' else 'UnaryLogicalOp'), 'Comparison': 'ComparisonOp'}.get(ir[1])
                tab = disp.get(cls_enum)
                got = tab.get(ir[2]) if isinstance(tab, dict) else '?no-display'
                clsname = {'Arith': 'arith', 'Bitwise': 'bitwise', 'Shift': 'shift', 'Logical': 'logical', 'Comparison': 'comparison'}.get(ir[1])
                if arity == 'binary' and exp is not None and toks[tok].get('cls') != clsname:
                    got = '%s (class %s, expected %s)' % (got, clsname, toks[tok].get('cls'))
            else:
                got = '?%s' % ir
            ck.ob('R1.1', '%s|%s' % (arity, tok), got == exp, L.loc(m2),
                  'JS `%s` -> %s -> %s -> C++ `%s`' % (tok, av, ir[1:] if ir else ir, got) if got == exp else
                  'JS `%s` goes through %s -> %s and prints as `%s`; the documented meaning is `%s`' % (tok, av, ir, got, exp if exp is not None else 'rejected'))
        top = disp.get(enum_ir)
        ck.ob('R1.1', '%s|outer-display-delegates' % arity, top == 'delegate', '', 'Display for %s delegates to the operator class' % enum_ir)

    # ---- R1.2 folding ---------------------------------------------------------------------------
    # token by (class enum, variant) through the Display tables
    tok_of = {}
    for en, tab in disp.items():
        if isinstance(tab, dict):
            for var, s in tab.items():
                tok_of[(en, var)] = s
    n_arms = 0
    evals = [f for f in L.fn_list if f['path'].startswith('tir::ceval::eval_')]
    ck.floor('R1.2', len(evals), 7, 'ceval::eval_* functions')
    for fn in evals:
        ck.analysed(fn['path'])
        op_ty = (fn.get('inputs') or ['?'])[0].split('::')[-1]
        arity = 'unary' if op_ty.startswith('Unary') else 'binary'
        bs = H.binding_sites(fn)
        outer = T.find_match_on(fn, lambda e: True)
        if outer is None:
            ck.ob('R1.2', 'shape|%s' % fn['name'], False, '', 'outer match on the operands not found')
            continue
        for arm in outer['arms']:
            # constant kind and operand bindings from the arm pattern
            alts = T.alternatives(arm['pat'])
            inner = [n for n in walk(arm['body']) if n.get('k') == 'Match' and H.root_local(n['e']) is not None and bs.get(H.root_local(n['e'])['hid'], {}).get('kind') == 'param'
                     and bs[H.root_local(n['e'])['hid']]['index'] == 0]
            if not inner:
                continue
            for alt in alts:
                p = T.peel_pat(alt)
                subs = p['subs'] if p.get('k') == 'PTup' else [p]
                kinds = [T.last(T.peel_pat(s).get('def')) for s in subs]
                binds = [(H.pat_bindings(s) or [{}])[0].get('hid') for s in subs]
                if not kinds or any(k != kinds[0] for k in kinds):
                    ck.ob('R1.2', 'mixed-kinds|%s' % fn['name'], False, L.loc(arm), 'an arm with an operator table matches operands of different kinds %s' % kinds)
                    continue
                kind = kinds[0]
                lhid = binds[0]
                rhid = binds[1] if len(binds) > 1 else None
                for im in inner[:1]:
                    tab, rest = T.simple_table(im, value=lambda e: e)
                    for var, body in tab.items():
                        n_arms += 1
                        tok = tok_of.get((op_ty, var))
                        exp = oracle[arity].get(tok, {}).get('fold', {}) if tok else {}
                        want = exp.get(kind, exp.get('*'))
                        summ = fold_summary(L, body, lhid, rhid, fn)
                        if summ[0] == 'call':
                            got, order_ok = summ[1], summ[2]
                        elif summ[0] == 'bin':
                            got, order_ok = summ[1], summ[2]
                        elif summ[0] == 'un':
                            got, order_ok = {'Neg': 'Neg', 'Not': 'Not'}.get(summ[1], summ[1]), summ[2]
                        elif summ[0] == 'id':
                            got, order_ok = 'identity', summ[1]
                        elif summ[0] == 'err':
                            got, order_ok = 'Err', True
                        else:
                            got, order_ok = '?' + str(summ[1]), False
                        key = '%s|%s|%s' % (fn['name'].replace('eval_', '').replace('_expression', ''), kind, tok or var)
                        if want is None and got == 'Err':
                            ck.ob('R1.2', key, True, L.loc(im), '`%s` on %s constants is rejected' % (tok, kind))
                        elif want is None:
                            # the folder has an arm the oracle does not define for this kind (e.g. string minus): must be an Err
                            ck.ob('R1.2', key, False, L.loc(im), 'operator `%s` on %s constants is folded with %s, but has no defined meaning' % (tok, kind, got))
                        else:
                            ck.ob('R1.2', key, got == want and order_ok, L.loc(im),
                                  '`%s` on %s folds with %s(left, right)' % (tok, kind, got) if got == want and order_ok else
                                  '`%s` on %s constants folds with %s%s; the token denotes %s' % (tok, kind, got, '' if order_ok else ' with operands out of order', want))
                        if summ[0] == 'call' and got.startswith('checked_sh'):
                            ck.ob('R1.2', key + '|count-converted-checked', len(summ) > 3 and summ[3], L.loc(im), 'the shift count goes through try_into()? (negative or huge counts are errors)')
                # checked results: None => IntegerOverflow
                if kind == 'Integer' and any(c.get('m', '').startswith('checked_') or T.last(c.get('def') or '').startswith('checked_') for c in H.calls_in(arm['body'])):
                    oks = [c for c in H.calls_in(arm['body']) if c.get('m') in ('ok_or', 'ok_or_else')]
                    ok = len(oks) == 1 and 'IntegerOverflow' in pp(oks[0]['args'][0])
                    if not oks:
                        # spelled as a match: `match a { Some(v) => Ok(..(v)), None => Err(IntegerOverflow) }`
                        for mm in (n for n in walk(arm['body']) if n.get('k') == 'Match' and len(n['arms']) == 2):
                            none_arm = next((a for a in mm['arms'] if pp(a['pat']).endswith('None') and 'guard' not in a), None)
                            some_arm = next((a for a in mm['arms'] if pp(a['pat']).startswith('Some(') and 'guard' not in a), None)
                            if none_arm is not None and some_arm is not None:
                                nv = [H.strip_refs(v) for v in H.value_exprs(none_arm['body'])]
                                sv = [H.strip_refs(v) for v in H.value_exprs(some_arm['body'])]
                                ok = len(nv) == 1 and nv[0].get('k') == 'Call' and (nv[0].get('def') or '').endswith('Result::Err') and 'IntegerOverflow' in pp(nv[0]) and \
                                    len(sv) == 1 and sv[0].get('k') == 'Call' and (sv[0].get('def') or '').endswith('Result::Ok')
                    ck.ob('R1.2', 'overflow-is-error|%s' % fn['name'], ok, L.loc(arm), 'None from checked_* becomes Err(IntegerOverflow)')
    ck.floor('R1.2', n_arms, 40, 'folding arms summarized')

    # ---- R1.3 builtins ------------------------------------------------------------------------------
    lg = L.fn('typedexpr::lookup_global_name')
    pn = L.fn('typedexpr::process_namespace_name')
    fr = L.fn('uigen::binding::CxxCodeBodyTranslator::format_rvalue')
    if lg is None or pn is None or fr is None:
        ck.floor('R1.3', 0, 1, 'builtin tables')
    else:
        for f in (lg, pn, fr):
            ck.analysed(f['path'])
        g, _ = T.simple_table(next(n for n in walk(lg['body']) if n.get('k') == 'Match'))
        names = {}  # "Math.max" -> kind chain
        for glob, chain in g.items():
            if chain[:2] == ['Some', 'BuiltinFunction']:
                names[glob] = tuple(chain[2:])
        ns_match = next((n for n in walk(pn['body']) if n.get('k') == 'Match' and any('BuiltinNamespaceKind::' in pp(a['pat']) for a in n['arms'])), None)
        ns_of_global = {glob: chain[2] for glob, chain in g.items() if chain[:2] == ['Some', 'BuiltinNamespace']}
        if ns_match is not None:
            for arm in ns_match['arms']:
                ns = T.variant_names(arm['pat'])[0]
                im = next((n for n in walk(arm['body']) if n.get('k') == 'Match'), None)
                if im is None:
                    continue
                helper = {}
                for h, s in H.binding_sites(pn).items():
                    if s['kind'] == 'let' and s['node'].get('init', {}).get('k') == 'Closure':
                        helper[h] = T.ctor_chain(list(H.value_exprs(s['node']['init']['body']))[0])
                for a2 in im['arms']:
                    for nm in T.variant_names(a2['pat']):
                        if nm == T.ANY:
                            continue
                        vals = list(H.value_exprs(a2['body']))
                        v = H.strip_refs(vals[0]) if vals else {}
                        chain = T.ctor_chain(v)
                        if chain[:1] == ['Some'] and len(chain) == 2 and isinstance(chain[1], str) and chain[1].startswith('?'):
                            inner = H.strip_refs(v['args'][0])
                            if inner.get('k') == 'Call' and inner['f'].get('res') == 'local' and inner['f'].get('hid') in helper:
                                chain = ['Some'] + helper[inner['f']['hid']][:-1] + T.ctor_chain(inner['args'][0])
                        gname = next((k for k, v2 in ns_of_global.items() if v2 == ns), ns)
                        names['%s.%s' % (gname, nm)] = tuple(x for x in chain[2:] if x != 'BuiltinFunction')
        # kind -> C++ head from format_rvalue
        heads = {}
        bm = next((n for n in walk(fr['body']) if n.get('k') == 'Match' and any('BuiltinFunctionKind::' in pp(a['pat']) for a in n['arms'])), None)
        if bm is not None:
            for arm in bm['arms']:
                for var in T.variant_names(arm['pat']):
                    im = next((n for n in walk(arm['body']) if n.get('k') == 'Match'), None)
                    if im is not None:
                        tab, _ = T.simple_table(im)
                        for lv, c in tab.items():
                            heads[(var, lv)] = c[0][1] if c and isinstance(c[0], tuple) else '?'
                    else:
                        texts = [H.fmt_text(s) for s in H.format_sites(arm['body'])]
                        heads[(var,)] = re.split(r'[({]', texts[0])[0] if texts else '?'
        for name, exp in sorted(oracle['builtins'].items()):
            chain = names.get(name)
            got = heads.get(chain) if chain else None
            ck.ob('R1.3', 'builtin|%s' % name, got == exp['cxx'], L.loc(bm) if bm else '',
                  '%s -> %s -> %s' % (name, chain, got) if got == exp['cxx'] else '%s resolves to %s and prints `%s`; documented: `%s`' % (name, chain, got, exp['cxx']))
        extra = sorted(set(names) - set(oracle['builtins']))
        ck.ob('R1.3', 'no-undocumented-builtin', not extra, '', 'extra builtin names: %s' % extra)
        ck.floor('R1.3', len(names), 8, 'builtin names')

    # ---- R1.4 / R1.5 rvalue printing ---------------------------------------------------------------------
    mo = L.fn('uigen::binding::member_access_op')
    if mo is not None:
        iff = next((n for n in walk(mo['body']) if n.get('k') == 'If'), None)
        ok = iff is not None and any(c.get('m') == 'is_pointer' for c in H.calls_in(iff['c'])) and iff['c'].get('k') != 'Unary' and \
            [H.lit_value(v) for v in H.value_exprs(iff['then'])] == ['->'] and [H.lit_value(v) for v in H.value_exprs(iff['els'])] == ['.']
        ck.ob('R1.4', 'member-access-table', ok, L.loc(mo['body']), 'pointer => "->", otherwise "."')
    if fr is not None:
        rm = next((n for n in walk(fr['body']) if n.get('k') == 'Match' and any('Rvalue::' in pp(a['pat']) for a in n['arms'])), None)
        expect_order = {'UnaryOp': [0, 1], 'BinaryOp': [1, 0, 2], 'StaticCast': [0, 1], 'VariantCast': [1, 1, 0], 'CallMethod': [0, 0, 1, 2],
                        'ReadProperty': [0, 0, 1], 'WriteProperty': [0, 0, 1, 2], 'ReadSubscript': [0, 0, 1], 'WriteSubscript': [0, 1, 2], 'MakeList': [0, 1]}
        expect_tmpl = {'UnaryOp': '{0}{1}', 'BinaryOp': '{0} {1} {2}', 'StaticCast': 'static_cast<{0}>({1})', 'VariantCast': '{0}{1}value<{2}>()',
                       'CallMethod': '{0}{1}{2}({3})', 'ReadProperty': '{0}{1}{2}()', 'WriteProperty': '{0}{1}{2}({3})', 'ReadSubscript': '{0}{1}at({2})',
                       'WriteSubscript': '{0}[{1}] = {2}', 'MakeList': '{0}{{1}}'}
        n_rv = 0
        if rm is not None:
            for arm in rm['arms']:
                var = T.variant_names(arm['pat'])[0]
                if var not in expect_order:
                    continue
                n_rv += 1
                binds = [b['hid'] for b in H.pat_bindings(arm['pat'])]
                sites = [s for s in H.format_sites_in_fn(fr) if any(x is s['node'] for x in walk(arm['body']))]
                # outermost template of the arm
                site = sites[0] if sites else None
                for s in sites:
                    if not any(any(x is s['node'] for x in walk(a[1])) for t in sites if t is not s for a in (t['args'] or []) if a[1] is not None):
                        site = s
                        break
                if site is None:
                    ck.ob('R1.5', 'template|%s' % var, False, L.loc(arm), 'no format template found')
                    continue
                tmpl = H.fmt_text(site)
                order = []
                mao_ok = True
                for i, (tr, e) in enumerate(site['args'] or []):
                    used = [binds.index(x['hid']) for x in walk(e) if x.get('k') == 'Path' and x.get('res') == 'local' and x.get('hid') in binds] if e is not None else []
                    order.append(used[0] if used else None)
                    if e is not None and any(H.is_call_to(c, 'member_access_op') for c in H.calls_in(e)):
                        # applied to the same operand that was printed just before
                        mao_ok = mao_ok and i > 0 and order[i] == order[i - 1]
                ck.ob('R1.5', 'template|%s' % var, tmpl == expect_tmpl[var] and order == expect_order[var], L.loc(arm),
                      'Rvalue::%s prints `%s` with operands %s' % (var, tmpl, order) if tmpl == expect_tmpl[var] and order == expect_order[var] else
                      'Rvalue::%s prints `%s` with operand slots %s (expected `%s` with %s)' % (var, tmpl, order, expect_tmpl[var], expect_order[var]))
                if var in ('VariantCast', 'CallMethod', 'ReadProperty', 'WriteProperty', 'ReadSubscript'):
                    has = any(H.is_call_to(c, 'member_access_op') for c in H.calls_in(arm['body']))
                    ck.ob('R1.4', 'receiver-operator|%s' % var, has and mao_ok, L.loc(arm), 'member_access_op(<the printed receiver>) follows the receiver')
        ck.floor('R1.5', n_rv, 10, 'Rvalue arms with templates')
    # property accessor names come from the property itself
    if fr is not None:
        for var, acc in (('ReadProperty', 'read_func_name'), ('WriteProperty', 'write_func_name')):
            arm = next((a for n in walk(fr['body']) if n.get('k') == 'Match' for a in n['arms'] if ('Rvalue::%s(' % var) in pp(a['pat'])), None)
            ok = arm is not None and any(c.get('m') == acc for c in H.calls_in(arm['body'])) and not any(c.get('m') in ('read_func_name', 'write_func_name') and c.get('m') != acc for c in H.calls_in(arm['body']))
            ck.ob('R1.5', 'accessor|%s' % var, ok, L.loc(arm) if arm else '', '%s uses prop.%s()' % (var, acc))

    # ---- R1.6 short-circuit wiring -------------------------------------------------------------------------
    vl = next((f for f in L.fn_list if f['name'] == 'visit_binary_logical_expression' and 'CodeBuilder' in f['path']), None)
    if vl is None:
        ck.floor('R1.6', 0, 1, 'fn visit_binary_logical_expression')
    else:
        ck.analysed(vl['path'])
        m = next((n for n in walk(vl['body']) if n.get('k') == 'Match' and any('BinaryLogicalOp::' in pp(a['pat']) for a in n['arms'])), None)
        rows = {}

        def canon(e):
            # label expressions through let-bound locals: `let end = right_ref.next()` prints as right_ref.next()
            o = H.origins(vl, e)
            return pp(o[0]) if len(o) == 1 and o[0].get('k') != 'Bind' else pp(e)
        if m is not None:
            for arm in m['arms']:
                vals = list(H.value_exprs(arm['body']))
                if len(vals) == 1 and vals[0].get('k') == 'Tup' and len(vals[0]['es']) == 3:
                    rows[T.variant_names(arm['pat'])[0]] = [canon(x) for x in vals[0]['es']]
        ok = set(rows) == {'And', 'Or'}
        if ok:
            a, o = rows['And'], rows['Or']
            mirror = a[0] == 'false' and o[0] == 'true' and a[1] == o[2] and a[2] == o[1] and a[1] != a[2]
            ck.ob('R1.6', 'and-or-mirror', mirror, L.loc(m), 'And: (init, true, false) = %s; Or: %s' % (a, o))
            end_label = a[2]
            # the right block's exit
            brs = [n for n in walk(vl['body']) if n.get('k') == 'Call' and (n.get('def') or '').endswith('Terminator::Br')]
            same = len(brs) == 1 and canon(brs[0]['args'][0]) == end_label
            ck.ob('R1.6', 'join-at-one-label', same, L.loc(brs[0]) if brs else L.loc(m),
                  'short-circuit edge and right-operand exit both go to %s' % end_label if same else
                  'the short-circuit edge goes to %s but the right operand block exits to %s' % (end_label, [canon(b['args'][0]) for b in brs]))
            # the non-short-circuit edge enters the right operand: left_ref.next()
            bs = H.binding_sites(vl)
            ck.ob('R1.6', 'continue-into-right-operand', re.match(r'^\w+\.next\(\)$', a[1]) is not None and a[1] != end_label, L.loc(m), 'And continues at %s (start of the right operand)' % a[1])
            brc = [n for n in walk(vl['body']) if n.get('k') == 'Call' and (n.get('def') or '').endswith('Terminator::BrCond')]
            okc = len(brc) == 1 and [bs.get((H.root_local(x) or {}).get('hid'), {}).get('kind') for x in brc[0]['args'][1:]] == ['let', 'let']
            ck.ob('R1.6', 'brcond-uses-the-table', okc, L.loc(brc[0]) if brc else '', 'BrCond(left, true_ref, false_ref) takes both labels from the table')
        else:
            ck.ob('R1.6', 'and-or-table', False, L.loc(vl['body']), '(init, true_ref, false_ref) table per operator not found: %s' % rows)
        # sink assigned in both blocks with the right values
        asg = [n for n in walk(vl['body']) if n.get('k') == 'Call' and (n.get('def') or '').endswith('Statement::Assign')]
        ck.ob('R1.6', 'sink-assigned-on-both-paths', len(asg) == 2, L.loc(vl['body']), '%d Assign(sink, ..) statements (init value in the left block, right operand in the right block)' % len(asg))

    # ---- R1.7 completion walk ----------------------------------------------------------------------------------
    fc = L.fn('tir::core::CodeBody::finalize_completion_values')
    if fc is None:
        ck.floor('R1.7', 0, 1, 'fn finalize_completion_values')
    else:
        ck.analysed(fc['path'])
        # the walk list is the one popped by the loop that rewrites terminators
        ploop = next((n for n in walk(fc['body']) if n.get('k') == 'Loop' and any(x.get('k') == 'Assign' and x['l'].get('k') == 'Field' and x['l'].get('f') == 'terminator' for x in walk(n))), None)
        wl = next((H.root_local(c['recv']) for c in H.calls_in(ploop) if c.get('m') in ('pop', 'pop_front')), None) if ploop is not None else None
        ext = [c for c in H.calls_in(ploop) if c.get('m') in ('extend', 'push', 'append', 'push_back') and wl is not None and (H.root_local(c['recv']) or {}).get('hid') == wl.get('hid')] if ploop is not None else []
        ok = False
        why = '%d pushes onto the walk list' % len(ext)
        if len(ext) == 1:
            anc = list(H.ancestors(fc, ext[0]))
            in_empty = any(a.get('k') == 'If' and any(c.get('m') == 'is_empty' and 'statements' in pp(c['recv']) for c in H.calls_in(a['c'])) and a['c'].get('k') != 'Unary' and any(x is ext[0] for x in walk(a['then'])) for a in anc)
            in_else = any(a.get('k') == 'If' and a['c'].get('k') == 'LetCond' and 'completion_value' in pp(a['c']['e']) and any(x is ext[0] for x in walk(a.get('els', {'k': 'x'}))) for a in anc)
            ok = in_empty and in_else
            why = 'predecessors are queued only under `statements.is_empty()` (%s) in the else of `if let Some(a) = completion_value.take()` (%s)' % (in_empty, in_else)
        ck.ob('R1.7', 'walk-only-through-empty-blocks', ok, L.loc(ext[0]) if ext else '', why)
        # the fast path returns the start block's own completion value
        fast = next((n for n in walk(fc['body']) if n.get('k') == 'If' and n['c'].get('k') == 'LetCond' and 'start_block' in pp(n['c']['e'])), None)
        ok = fast is not None and any(x.get('k') == 'Ret' for x in walk(fast['then']))
        ck.ob('R1.7', 'own-completion-value-first', ok, L.loc(fast) if fast else '', 'the open block returns its own completion value when it has one')

    # ---- R1.8 dispatch to the folder ---------------------------------------------------------------------------
    for name, n_ops in (('visit_unary_expression', 1), ('visit_binary_expression', 2)):
        fn = next((f for f in L.fn_list if f['name'] == name and 'CodeBuilder' in f['path']), None)
        if fn is None:
            ck.ob('R1.8', 'dispatch|%s' % name, False, '', 'fn not found')
            continue
        ck.analysed(fn['path'])
        outer = next((n for n in walk(fn['body']) if n.get('k') == 'Match'), None)
        first = outer['arms'][0] if outer else None
        ok = False
        detail = ''
        if first is not None:
            pt = pp(first['pat'])
            ok = pt.count('Operand::Constant(') == n_ops
            im = next((n for n in walk(first['body']) if n.get('k') == 'Match'), None)
            pairs = {}
            if im is not None:
                for arm in im['arms']:
                    cls = T.variant_names(arm['pat'])[0]
                    callee = next((short(H.callee(c) or '') for c in H.calls_in(arm['body']) if 'ceval::' in (H.callee(c) or '')), None)
                    pairs[cls] = callee
            exp = ({'Arith': 'eval_unary_arith_expression', 'Bitwise': 'eval_unary_bitwise_expression', 'Logical': 'eval_unary_logical_expression'} if n_ops == 1 else
                   {'Arith': 'eval_binary_arith_expression', 'Bitwise': 'eval_binary_bitwise_expression', 'Shift': 'eval_shift_expression', 'Logical': None, 'Comparison': 'eval_comparison_expression'})
            ok = ok and pairs == exp
            detail = 'constant arm %s dispatches %s' % (pt[:60], pairs)
            # operand order into the evaluator
            if ok and n_ops == 2:
                binds = [b['hid'] for b in H.pat_bindings(first['pat'])]
                for c in H.calls_in(first['body']):
                    if 'ceval::' in (H.callee(c) or ''):
                        got = [(H.root_local(a) or {}).get('hid') for a in c['args'][1:]]
                        if got != binds[:2]:
                            ok = False
                            detail += '; operands passed out of order to %s' % short(H.callee(c))
        ck.ob('R1.8', 'dispatch|%s' % name, ok, L.loc(outer) if outer else '', detail)

    # ---- R1.9 lowering protocol: shared with C06 ---------------------------------------------------------------------------
    import core as _core2
    import rules.c06 as c06
    sh = _core2.Shared(ck, 'R1.9', lambda r, k: r in ('R6.1', 'R6.2', 'R6.5'), 'C06:', ' [a mis-wired edge or an unassigned sink makes the body compute another value on that path]')
    c06.run(sh)
    ck.floor('R1.9', sh.count, 80, 'shared C06 R6.1/R6.2/R6.5 obligations')

    # ---- R1.10 scoping of let/const ------------------------------------------------------------------------------------------
    ws = L.fn('typedexpr::walk_stmt')
    if ws is None:
        ck.floor('R1.10', 0, 1, 'fn walk_stmt')
    else:
        arm = next((a for n in walk(ws['body']) if n.get('k') == 'Match' for a in n['arms'] if 'Statement::LexicalDeclaration' in pp(a['pat'])), None)
        lp = next((n for n in walk(arm['body']) if n.get('k') == 'For' and 'variables' in pp(n['iter'])), None) if arm else None
        bs = H.binding_sites(ws)
        scope = next((b for b in bs.values() if b['kind'] == 'param' and 'HashMap<std::string::String' in ws['inputs'][b['index']]), None)
        ins = [c for c in H.calls_in(arm['body']) if c.get('m') in ('insert', 'extend', 'entry') and scope is not None and (H.root_local(c['recv']) or {}).get('hid') == scope['bind']['hid']] if arm else []
        inside = [c for c in ins if lp is not None and any(x is c for x in walk(lp['body']))]
        ok = lp is not None and len(ins) == 1 and len(inside) == 1 and not [a for a in H.ancestors(ws, inside[0]) if a.get('k') in ('If', 'Match') and any(x is a for x in walk(lp['body']))]
        ck.ob('R1.10', 'name-enters-scope-per-declarator', ok, L.loc(ins[0]) if ins else (L.loc(arm) if arm else ''),
              'locals.insert(name, ..) inside the loop over the declarators: `let a = 1, b = a` and every later statement see `a`' if ok else
              'the declared names enter the scope %s: a later declarator of the same statement that mentions an earlier name resolves it to an outer entity of that name (or fails)' %
              ('only after the whole declarator list' if ins and not inside else 'at %d places' % len(ins)), fn=ws['path'])
        if ok:
            rv = [c for c in H.calls_in(lp['body']) if H.is_call_to(c, 'typedexpr::walk_rvalue')]
            ck.ob('R1.10', 'initializer-sees-the-outer-scope', bool(rv) and all(H.source_before(c, inside[0]) for c in rv), L.loc(inside[0]), 'the initializer is walked before its own name is inserted')

        # block-like statements walk their children in a scope of their own (a clone of the scope they are in): what they declare ends with
        # them. Block and switch are the two statements of the subset that have a body with a scope (the branches of `if` are walked as
        # statements, i.e. through Block if they are braced).
        if scope is not None:
            for tag in ('Statement::Block', 'Statement::Switch'):
                a2 = next((a for n in walk(ws['body']) if n.get('k') == 'Match' for a in n['arms'] if tag in pp(a['pat'])), None)
                if a2 is None:
                    ck.ob('R1.10', 'body-has-its-own-scope|%s' % tag.split('::')[-1], False, '', 'arm for %s not found in walk_stmt' % tag)
                    continue
                kids = [c for c in H.calls_in(a2['body']) if H.is_call_to(c, 'typedexpr::walk_stmt_nodes') or (H.is_call_to(c, 'typedexpr::walk_stmt') and c is not None)]
                bad = []
                for c in kids:
                    arg = next((x for x in c['args'] if 'HashMap<std::string::String' in (L.ty(x, adjusted=True) or L.ty(x) or '')), None)
                    rl = H.root_local(arg) if arg is not None else None
                    if rl is None or rl.get('hid') == scope['bind']['hid']:
                        bad.append(L.loc(c))
                        continue
                    b2 = bs.get(rl.get('hid'))
                    init = H.strip_refs(b2['node']['init']) if b2 and b2['kind'] == 'let' and b2['node'].get('init') is not None else {}
                    if not (init.get('k') == 'MCall' and init.get('m') == 'clone' and (H.root_local(init['recv']) or {}).get('hid') == scope['bind']['hid']):
                        bad.append(L.loc(c))
                ck.ob('R1.10', 'body-has-its-own-scope|%s' % tag.split('::')[-1], bool(kids) and not bad, L.loc(a2),
                      'the statements inside are walked with `let mut locals = locals.clone()`: their declarations end with the statement' if kids and not bad else
                      'the statements inside a %s are walked in the scope of the statement itself (%s): a `let` declared there stays visible afterwards and shadows an outer variable of '
                      'the same name — which is then read where it was never assigned' % (tag.split('::')[-1].lower(), bad or 'no child walk found'), fn=ws['path'])

    # ---- R1.11 default clause position ------------------------------------------------------------------------------------------------
    sw = next((f for f in L.fn_list if f['path'].endswith('qmlast::stmt::SwitchStatement::with_cursor')), None)
    if sw is None:
        ck.floor('R1.11', 0, 1, 'fn SwitchStatement::with_cursor')
    else:
        ck.analysed(sw['path'])
        lp = next((n for n in walk(sw['body']) if n.get('k') == 'For'), None)
        st = next((n for n in walk(sw['body']) if n.get('k') == 'Struct' and (n.get('def') or '').endswith('SwitchDefault')), None)
        pos = next((f['e'] for f in (st or {}).get('fields', []) if f['f'] == 'position'), None)
        ok = False
        why = 'position of the default clause not found'
        if lp is not None and pos is not None:
            pr = H.root_local(pos)
            pb = H.binding_sites(sw).get((pr or {}).get('hid'))
            m = next((n for n in walk(lp['body']) if n.get('k') == 'Match'), None)
            by_len = H.strip_refs(pos).get('k') == 'MCall' and H.strip_refs(pos).get('m') == 'len'
            if by_len:
                ok = True
                why = 'position = number of case clauses collected so far'
            elif pb is not None and pb['kind'] == 'for' and 'enumerate' in pp(lp['iter']) and m is not None:
                # the raw child index is the clause index only if every child is a clause: all other arms must leave the function
                others = []
                for a in m['arms']:
                    pushes = any(c.get('m') == 'push' for c in H.calls_in(a['body']))
                    sets_default = any(x is st for x in walk(a['body']))
                    leaves = any(x.get('k') == 'Ret' for x in walk(a['body'])) and not list(H.value_exprs(a['body']))
                    if not (pushes or sets_default or leaves):
                        others.append(pp(a['pat'], maxlen=30))
                # .. and nothing is dropped after the numbering: enumerate() is the last adaptor of the iterator
                it = H.strip_refs(lp['iter'])
                while it.get('k') == 'Call' and it.get('args'):      # IntoIterator::into_iter(..) of the desugared for
                    it = H.strip_refs(it['args'][0])
                after = []
                while it.get('k') == 'MCall' and it.get('m') != 'enumerate':
                    after.append(it['m'])
                    it = H.strip_refs(it['recv'])
                dropped = [m_ for m_ in after if m_ in ('filter', 'filter_map', 'skip', 'skip_while', 'step_by', 'take_while', 'flat_map')]
                if dropped:
                    others.append('(dropped by .%s() after enumerate())' % dropped[0])
                ok = not others
                why = ('position = enumerate() index; every child is a case, the default, or an error, so the index counts clauses' if ok else
                       'position = raw child index, but children matching %s are skipped without being clauses: each of them before `default:` shifts the default body one place down the fall-through chain' % others)
        ck.ob('R1.11', 'default-position-counts-clauses', ok, L.loc(pos) if pos else L.loc(sw['body']), why, fn=sw['path'])
        # the walker inserts the default body at that position among the case bodies
        if ws is not None:
            ib = next((c for c in H.calls_in(ws['body']) if c.get('m') == 'insert' and c['args'] and 'position' in pp(c['args'][0]) and 'body' in pp(c['args'][1])), None)
            ck.ob('R1.11', 'default-body-inserted-at-position', ib is not None, L.loc(ib) if ib else L.loc(ws['body']), 'body_statements.insert(d.position, &d.body)')

    # ---- R1.12 AST construction: struct field <- grammar field of the same name -------------------------------------------------------
    AF = _core2.load_table('ast_fields.json')['exceptions']
    n_f = 0
    seen_exc = set()
    for fn in L.fn_list:
        if not fn['path'].startswith('qmlast::'):
            continue
        bsf = H.binding_sites(fn)
        for stn in walk(fn['body']):
            if stn.get('k') != 'Struct':
                continue
            sname = (stn.get('def') or '').split('::')[-1]
            for f in stn.get('fields', []):
                srcs = [f['e']]
                b = bsf.get((H.root_local(f['e']) or {}).get('hid'))
                if b is not None and b['kind'] == 'let' and b['node'].get('init') is not None:
                    srcs.append(b['node']['init'])
                lits = []
                for sx in srcs:
                    for c in H.calls_in(sx):
                        if (H.callee(c) or '').endswith('get_child_by_field_name') or c.get('m') in ('child_by_field_name', 'children_by_field_name'):
                            lits += [H.lit_value(a) for a in c['args'] if isinstance(H.lit_value(a), str)]
                if not lits:
                    continue
                n_f += 1
                key = '%s.%s' % (sname, f['f'])
                exc = AF.get(key)
                if set(lits) == {f['f']}:
                    ok = True
                    why = 'reads grammar field %s' % sorted(set(lits))
                elif exc is not None:
                    seen_exc.add(key)
                    ok = sorted(set(lits)) == sorted(exc['from'])
                    why = 'reviewed exception (%s): reads %s' % (exc['why'], sorted(set(lits)))
                else:
                    ok = set(lits) == {f['f']}
                    why = 'reads grammar field %s' % sorted(set(lits))
                ordn = ''
                ck.ob('R1.12', 'ast-field|%s|%s' % (short(fn['path']), key), ok, L.loc(f['e']), why if ok else
                      'AST field %s is read from grammar field(s) %s: the node placed here is another part of the source construct' % (key, sorted(set(lits))), fn=fn['path'])
    ck.floor('R1.12', n_f, 34, 'AST struct fields read from grammar fields')

    # ---- R1.12k grammar node kind -> AST variant of the same construct ---------------------------------------------------------------------
    # `assignment_expression` builds Expression::Assignment, `if_statement` Statement::If, ..: the variant is named after the node kind
    # (suffix _expression/_statement dropped). A kind routed into the variant of ANOTHER construct (`augmented_assignment_expression`
    # read as a plain assignment: `x += 1` means `x = 1`) is accepted and silently changes meaning.
    KIND_EXC = {'true': {'Bool'}, 'false': {'Bool'}, 'number': {'Integer', 'Float'}, 'statement_block': {'Block'}, 'empty_statement': {'Block'},
                'function_expression': {'Function'}}
    n_k = 0
    for fn in L.fn_list:
        if not fn['path'].startswith('qmlast::') or fn.get('body') is None:
            continue
        for n in walk(fn['body']):
            if n.get('k') != 'Match':
                continue
            sc = H.strip_refs(n['e'])
            if not (sc.get('k') == 'MCall' and sc.get('m') == 'kind'):
                continue
            for arm in n['arms']:
                alts = arm['pat']['alts'] if arm['pat'].get('k') == 'POr' else [arm['pat']]
                lits = [a.get('v') for a in alts if a.get('k') == 'PLit' and isinstance(a.get('v'), str)]
                if not lits:
                    continue
                built = set()
                for x in walk(arm['body']):
                    d = x.get('def') or ''
                    if x.get('k') in ('Call', 'Struct', 'Path') and x.get('dk') in ('Ctor', 'Variant') and re.search(r'qmlast::\w+::(Expression|Statement)::\w+$', d):
                        built.add(d.split('::')[-1])
                if not built:
                    continue
                for lit in lits:
                    n_k += 1
                    base = re.sub(r'_(expression|statement)$', '', lit)
                    want = KIND_EXC.get(lit) or {''.join(w.capitalize() for w in base.split('_'))}
                    ck.ob('R1.12', 'ast-kind|%s|%s' % (short(fn['path']), lit), built == want, L.loc(arm['pat']),
                          'node kind `%s` builds %s' % (lit, sorted(built)) if built == want else
                          'node kind `%s` builds %s, the construct of that name is %s: the source construct is read as a different one and accepted with that meaning' % (lit, sorted(built), sorted(want)), fn=fn['path'])
    ck.floor('R1.12', n_k, 24, 'grammar node kinds that build an Expression / Statement variant')

    # ---- R1.13 walker -> visitor argument positions ----------------------------------------------------------------------------------------
    WA = _core2.load_table('walker_args.json')['calls']
    n_w = 0
    seen_calls = {}
    for fn in L.fn_list:
        if fn['path'] not in ('typedexpr::walk_expr', 'typedexpr::walk_stmt'):
            continue
        for c in H.calls_in(fn['body']):
            if c.get('k') != 'MCall' or c.get('m') not in WA:
                continue
            # the AST node of the arm: the binding of the enclosing arm pattern (conventionally `x`)
            arm = next((a for a in H.ancestors(fn, c) if a.get('k') == 'Arm' and H.pat_bindings(a['pat'])), None)
            arm_hids = set()
            for a in H.ancestors(fn, c):
                if a.get('k') == 'Arm':
                    arm_hids |= {b['hid'] for b in H.pat_bindings(a['pat'])}
            row = []
            for a in c['args']:
                parts = a['es'] if a.get('k') == 'Tup' else [a]
                fields = set()
                for p0 in parts:
                    for o in H.origins(fn, p0):
                        for x in walk(o):
                            if x.get('k') == 'Field' and (H.root_local(x['e']) or {}).get('hid') in arm_hids and H.strip_refs(x['e']).get('k') == 'Path':
                                fields.add(x['f'])
                row.append(sorted(fields))
            exp = WA[c['m']]
            # a visitor may be called from several arms (assignment to a fresh local has no AST `left`): all-empty rows are other uses
            if not any(row):
                continue
            n_w += 1
            i = seen_calls.get(c['m'], 0)
            seen_calls[c['m']] = i + 1
            ck.ob('R1.13', 'walker-args|%s%s' % (c['m'], '#%d' % (i + 1) if i else ''), row == exp, L.loc(c),
                  'arguments derive from AST fields %s' % row if row == exp else 'arguments derive from AST fields %s, reviewed contract: %s' % (row, exp), fn=fn['path'])
    ck.floor('R1.13', n_w, 11, 'visitor calls fed from AST fields')
    ck.ob('R1.13', 'all-contract-visitors-called', set(seen_calls) == set(WA), '', 'visitor calls checked: %s' % sorted(seen_calls))

    # ---- R1.14 accessor table of metatype_tweak ------------------------------------------------------------------------------------------------
    # a property read in a binding is emitted as a call of the `read` accessor of its description. The descriptions that are written by
    # hand (Qt classes whose accessors are no Q_PROPERTY) must pair each name with its own getter and setter: Qt's convention is
    # name() / isName() and setName(), compared without regard to case (strikeout / strikeOut). Rows are read from Property literals and
    # from calls of a helper that builds one from its parameters.
    def lit_str(e):
        e = H.strip_refs(e)
        while e.get('k') in ('MCall', 'Call'):
            if e.get('k') == 'MCall' and e.get('m') in ('to_owned', 'into', 'to_string') and not e['args']:
                e = H.strip_refs(e['recv'])
            elif e.get('k') == 'Call' and (e.get('def') or '').endswith('Option::Some') and len(e['args']) == 1:
                e = H.strip_refs(e['args'][0])
            elif e.get('k') == 'Call' and (e.get('def') or '').split('::')[-1] in ('from', 'into') and len(e['args']) == 1:
                e = H.strip_refs(e['args'][0])
            else:
                break
        return e

    rows = []
    unread = []
    for fn in L.fn_list:
        if not fn['path'].startswith('metatype_tweak::'):
            continue
        bs_ = H.binding_sites(fn)
        for st in walk(fn['body']):
            if st.get('k') != 'Struct' or not (st.get('def') or '').endswith('metatype::Property'):
                continue
            flds = {f['f']: lit_str(f['e']) for f in st['fields']}
            if 'read' not in flds and 'write' not in flds:
                continue
            ck.analysed(fn['path'])
            vals = {k_: flds.get(k_) for k_ in ('name', 'read', 'write')}
            if all(v is None or v.get('k') == 'Lit' for v in vals.values()):
                rows.append((short(fn['path']), {k_: (v.get('v') if v is not None else None) for k_, v in vals.items()}, L.loc(st)))
                continue
            # helper form: the fields are parameters of fn; every call of fn is a row
            idx = {}
            for k_, v in vals.items():
                if v is None:
                    continue
                b = bs_.get(v.get('hid')) if v.get('k') == 'Path' else None
                if b is None or b['kind'] != 'param':
                    idx = None
                    break
                idx[k_] = b['index']
            if not idx:
                unread.append((short(fn['path']), L.loc(st)))
                continue
            for f2 in L.fn_list:
                if not f2['path'].startswith('metatype_tweak::'):
                    continue
                for c in H.calls_in(f2['body']):
                    if (H.callee(c) or H.callee_decl(c)) != fn['path']:
                        continue
                    args = H.call_args(c)
                    got = {k_: lit_str(args[i]) if i < len(args) else None for k_, i in idx.items()}
                    if all(v is not None and v.get('k') == 'Lit' for v in got.values()):
                        rows.append((short(f2['path']), {k_: got[k_].get('v') if k_ in got else None for k_ in ('name', 'read', 'write')}, L.loc(c)))
                    else:
                        unread.append((short(f2['path']), L.loc(c)))
    for where, loc in unread:
        ck.ob('R1.14', 'accessor-row-readable|%s' % where, False, loc, 'a property description with accessors is built from values the checker cannot read: form not understood')
    for where, r, loc in rows:
        nm = (r['name'] or '')
        okr = r['read'] is None or r['read'].lower() in (nm.lower(), 'is' + nm.lower(), 'has' + nm.lower())
        okw = r['write'] is None or r['write'].lower() == 'set' + nm.lower()
        ck.ob('R1.14', 'accessors|%s|%s' % (where, nm), okr and okw, loc,
              '%s: read %s(), write %s()' % (nm, r['read'], r['write']) if okr and okw else
              'property `%s` is described with getter `%s` / setter `%s`: a binding that reads or writes it calls the accessor of another property' % (nm, r['read'], r['write']))
    ck.floor('R1.14', len(rows), 18, 'hand-written property descriptions with accessors')

    # ---- R1.15 string constants (shared with C16 R16.1) ---------------------------------------------------------------------------------------
    import rules.c16 as c16
    s16 = _core2.Shared(ck, 'R1.15', lambda r, k: r == 'R16.1' and (k.startswith('cxx-escaper-table') or k.startswith('string-constant-arm')), 'C16:',
                        ' [a string constant spelled wrongly makes the eval function return another string]')
    c16.run(s16)
    ck.floor('R1.15', s16.count, 3, 'shared C16 R16.1 obligations on string constants')

    # ---- R1.16 the header that is observed is the one just generated (shared with C15) ----------------------------------------------------------
    import rules.c15 as c15
    s15 = _core2.Shared(ck, 'R1.16', lambda r, k: (r == 'R15.4' and k.endswith('|skipped-only-if-same-bytes')) or (r == 'R15.5' and k in ('header-path-gets-header', 'both-outputs-written')), 'C15:',
                        ' [the eval functions in a header left over from an earlier run compute the old expression]')
    c15.run(s15)
    ck.floor('R1.16', s15.count, 4, 'shared C15 obligations on the output writes')
