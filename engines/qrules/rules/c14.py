"""C14: the dynamic-binding mode changes only the support code and its diagnostics."""
import re
from facts import walk, short, pp
import hirutil as H

LEVEL = 'proof'
TECHNIQUE = 'field read/write discipline + who-may-see-the-type scan (HIR and MIR), lexical dominance, ownership (ADT generics), arm-wise constructor check'
LEVEL_TEXT = ('Proof of the clause ".ui content cannot depend on the mode": the mode value is visible (as a field read, a local, a '
              'parameter or an ADT field of that type) in exactly the functions listed in the rule, the form is built by a call that '
              'lexically dominates the only branch on the mode and is bound immutably, the form type owns its data (no lifetime or '
              'type parameters anywhere below it), and support code is constructed only in the Generate arm with the same selection '
              'predicate as the Reject arm. Tests compare a handful of documents per mode; this covers every document because the '
              'mode is structurally unreachable from the form builders.')
LEVEL_NOTE = ('Trusted: rustc typeck/MIR (types of all locals), absence of unsafe code (forbid(unsafe_code) is re-checked), no interior '
              'mutability in UiForm. Not decided: that Generate reports a superset of Omit errors beyond the common prefix argument.')
DESIGN_REF = 'DESIGN.md section 4, C14'

MODE_TY = 'uigen::context::DynamicBindingHandling'
DERIVES = {'Clone', 'Debug', 'PartialEq', 'Eq', 'Hash', 'Default', 'Copy'}


def run(ck):
    if getattr(ck, 'depth', 0) >= 2:
        return      # a shared run of a shared run: nothing of it is selected, and mutual sharing must end somewhere
    F = ck.facts
    L = F.lib
    ck.explanation = (
        'R14.1 who-may-see: every MIR local (incl. parameters and temporaries) and every ADT field in the library whose type mentions '
        'DynamicBindingHandling must belong to the allowed set {BuildContext::prepare, uigen::build, derive impls, the BuildContext field}; '
        'the field BuildContext.dynamic_binding_handling is read only in uigen::build. R14.2: in uigen::build the UiForm::build call '
        'lexically dominates the match on the mode and the form binding is immutable and not borrowed mutably. R14.3: UiForm and every '
        'ADT reachable through its fields has no lifetime/type parameter and no reference/Cell/RefCell field (it owns its data). '
        'R14.4: the Reject arm and UiSupportCode::build select bindings with the same negated predicate is_evaluated_constant. '
        'R14.5: UiSupportCode::build is called only under the Generate arm; Omit and Reject arms evaluate to None; the CLI maps '
        '--no-dynamic-binding to Reject, else Generate, and preview uses Omit.')
    ck.rule('R14.1', 'the mode value is visible only in BuildContext::prepare, uigen::build and derive impls')
    ck.rule('R14.2', 'the form is built before, and independently of, the branch on the mode')
    ck.rule('R14.3', 'UiForm owns its data: no lifetime/type parameters, references or interior mutability below it')
    ck.rule('R14.4', 'Reject errors and generated bindings are selected by the same predicate')
    ck.rule('R14.5', 'support code exists only in Generate mode; CLI flag mapping')

    # ---- R14.1 ---------------------------------------------------------
    allowed_fns = {'uigen::context::BuildContext::prepare', 'uigen::build'}
    n_seen = 0
    for m in L.mir_list:
        hit = [i for i, l in enumerate(m['locals']) if MODE_TY in L.tys[l['ty']]]
        if not hit:
            continue
        n_seen += 1
        base = m['path'].split('::{closure')[0]
        fnrec = L.fns.get(base) or (L.find_fns(base) or [None])[0]
        derive = False
        # derive-generated impls: `<... as Trait>::method` on the mode type or on BuildContext
        if m['path'].startswith('<'):
            hfn = [f for f in L.fn_list if f['path'] == m['path']]
            derive = any(f.get('x') in DERIVES for f in hfn)
        ok = base in allowed_fns or derive
        ck.ob('R14.1', 'sees-mode|%s' % short(m['path']), ok, '',
              ('allowed: ' + ('derive impl' if derive else 'designated function')) if ok else
              'a value of type DynamicBindingHandling is visible in %s (local #%d): the mode must not reach form-building code' % (m['path'], hit[0]),
              fn=m['path'])
    ck.floor('R14.1', n_seen, 3, 'MIR bodies with a local of the mode type')
    # ADT fields of that type
    n_fields = 0
    for path, a in L.adts.items():
        for v in a['variants']:
            for f in v['fields']:
                if MODE_TY in f['ty'] or re.search(r'\bBuildContext\b', f['ty']):
                    n_fields += 1
                    ok = (path == 'uigen::context::BuildContext' and f['name'] == 'dynamic_binding_handling')
                    ck.ob('R14.1', 'field|%s.%s' % (short(path), f['name']), ok, '',
                          'the designated field' if ok else 'ADT field %s.%s of type %s carries the mode (or the whole BuildContext) into other code' % (path, f['name'], f['ty']))
    ck.floor('R14.1', n_fields, 1, 'ADT fields carrying the mode')
    # HIR field reads
    n_reads = 0
    for crate in (L,):
        for fn in crate.fn_list:
            if fn.get('x') in DERIVES:
                continue
            for n in walk(fn['body']):
                if n.get('k') == 'Field' and n.get('adt') == 'uigen::context::BuildContext' and n.get('f') == 'dynamic_binding_handling':
                    n_reads += 1
                    ok = fn['path'] == 'uigen::build'
                    ck.ob('R14.1', 'read|%s' % short(fn['path']), ok, crate.loc(n),
                          'read in the designated function' if ok else 'the mode field is read in %s' % fn['path'], fn=fn['path'])
                if n.get('k') == 'PStruct' and n.get('def') == 'uigen::context::BuildContext':
                    for f in n['fields']:
                        if f['f'] == 'dynamic_binding_handling':
                            n_reads += 1
                            ok = fn['path'] == 'uigen::build'
                            ck.ob('R14.1', 'read-pat|%s' % short(fn['path']), ok, crate.loc(n), 'destructured mode field')
    ck.floor('R14.1', n_reads, 1, 'reads of the mode field')
    # functions that receive the whole BuildContext may read the field only through the above; check who receives it
    recv = sorted(short(f['path']) for f in L.fn_list if any('BuildContext<' in (i or '') for i in f.get('inputs', [])))
    ck.extra['fns_receiving_BuildContext'] = recv

    # ---- R14.2 ---------------------------------------------------------
    b = L.fn('uigen::build')
    if b is None:
        ck.floor('R14.2', 0, 1, 'fn uigen::build')
        return
    ck.analysed(b['path'])
    form_calls = [n for n in H.calls_in(b['body']) if H.is_call_to(n, 'UiForm::build')]
    mode_matches = []
    for n in walk(b['body']):
        if n.get('k') in ('Match', 'If'):
            scrut = n.get('e') if n['k'] == 'Match' else n.get('c')
            if scrut is not None and any(x.get('k') == 'Field' and x.get('f') == 'dynamic_binding_handling' for x in walk(scrut)):
                mode_matches.append(n)
    ck.floor('R14.2', len(form_calls), 1, 'UiForm::build call in uigen::build')
    ck.floor('R14.2', len(mode_matches), 1, 'branch on the mode in uigen::build')
    for mm in mode_matches:
        for fc in form_calls:
            ok = H.lexically_precedes_dominating(b, fc, mm)
            ck.ob('R14.2', 'form-before-mode-branch', ok, L.loc(mm),
                  'UiForm::build(..) at %s lexically dominates the branch on the mode' % L.loc(fc) if ok else
                  'UiForm::build(..) does not dominate the branch on dynamic_binding_handling (form may depend on the mode)')
    # every other read of the field must be inside those matches' scrutinee
    for n in walk(b['body']):
        if n.get('k') == 'Field' and n.get('f') == 'dynamic_binding_handling':
            inside = any(any(x is n for x in walk(mm.get('e') or mm.get('c'))) for mm in mode_matches)
            ck.ob('R14.2', 'mode-read-is-branch-scrutinee', inside, L.loc(n),
                  'the only use of the mode is as the scrutinee of the dominated branch' if inside else 'the mode is read outside the dominated branch')
    # the form binding is immutable and never mutably borrowed
    bs = H.binding_sites(b)
    form_bind = None
    for fc in form_calls:
        for hid, site in bs.items():
            if site['kind'] == 'let' and site['node'].get('init') is not None and any(x is fc for x in walk(site['node']['init'])):
                form_bind = site
    if form_bind is None:
        ck.ob('R14.2', 'form-binding', False, '', 'could not find the let-binding of the form')
    else:
        mode = form_bind['bind'].get('mode', '')
        imm = 'Mut' not in mode.replace('Not', '')
        ck.ob('R14.2', 'form-binding-immutable', imm, L.loc(form_bind['node']), 'binding mode %s' % mode)
        hid = form_bind['bind']['hid']
        mut_uses = []
        for n in walk(b['body']):
            if n.get('k') == 'AddrOf' and n.get('mut'):
                rl = H.root_local(n)
                if rl is not None and rl.get('hid') == hid:
                    mut_uses.append(n)
        ck.ob('R14.2', 'form-never-mutably-borrowed', not mut_uses, L.loc(form_bind['node']), 'no &mut of the form after it is built')

    # ---- R14.3 ownership -------------------------------------------------
    seen = set()
    todo = ['uigen::form::UiForm']
    n_adts = 0
    adt_names = sorted(L.adts.keys(), key=len, reverse=True)
    while todo:
        p = todo.pop()
        if p in seen:
            continue
        seen.add(p)
        a = L.adts.get(p)
        if a is None:
            ck.ob('R14.3', 'adt|%s' % short(p), False, '', 'ADT %s not found in facts' % p)
            continue
        n_adts += 1
        gens = a.get('generics', [])
        ok = not gens
        bad = ''
        for v in a['variants']:
            for f in v['fields']:
                t = f['ty']
                if re.search(r"(^|[^a-zA-Z0-9_])&|'[a-z_]+\b|Cell<|RefCell<|Mutex<|Rc<|Arc<|\*const|\*mut", t):
                    ok = False
                    bad = '%s: %s' % (f['name'], t)
                for q in adt_names:
                    if re.search(r'(^|[^A-Za-z0-9_:])' + re.escape(q) + r'\b', t) and q not in seen:
                        todo.append(q)
        ck.ob('R14.3', 'adt-owns-data|%s' % short(p), ok, '',
              'no generics, no reference/interior-mutable field' if ok else 'generics %s / field %s' % (gens, bad))
    ck.floor('R14.3', n_adts, 10, 'ADTs reachable from UiForm')

    # ---- R14.4 one predicate ---------------------------------------------
    pred = 'uigen::objcode::PropertyCode::is_evaluated_constant'
    sites = []
    for fn in L.fn_list:
        if fn.get('x') in DERIVES:
            continue
        pm = None
        for n in H.calls_in(fn['body']):
            if H.callee(n) == pred or H.callee_decl(n) == pred:
                if pm is None:
                    pm = H.parents(fn)
                par = pm.get(id(n))
                negated = (par is not None and par.get('k') == 'Unary' and par.get('op') == 'Not') or H.selects_by_negated(fn, n) == 'continue'
                sites.append((fn, n, negated))
    ck.floor('R14.4', len(sites), 4, 'call sites of is_evaluated_constant')
    roles = {}
    for fn, n, negated in sites:
        fp = fn['path']
        if fp == 'uigen::build':
            # which part: inside the mode match (Reject) or before (attached leftover)
            in_mode = any(any(x is n for x in walk(mm)) for mm in mode_matches)
            role = 'reject-selection' if in_mode else 'attached-leftover'
            ck.ob('R14.4', '%s|negated-filter' % role, negated, L.loc(n), 'selects !is_evaluated_constant()' if negated else 'predicate not negated')
        elif fp == 'uigen::binding::UiSupportCode::build':
            role = 'generate-selection'
            ck.ob('R14.4', '%s|negated-filter' % role, negated, L.loc(n), 'selects !is_evaluated_constant()' if negated else 'predicate not negated')
        elif fp == pred:
            role = 'recursive-definition'
        else:
            role = 'other:' + short(fp)
        roles.setdefault(role, 0)
        roles[role] += 1
    # the two selections (and the attached leftover) filter on nothing but the predicate
    for fn, n, negated in sites:
        if fn['path'] not in ('uigen::build', 'uigen::binding::UiSupportCode::build'):
            continue
        # the iterator chain that contains this predicate call
        chain_root = None
        for anc in H.ancestors(fn, n):
            if anc.get('k') == 'For':
                chain_root = anc['iter']
                break
            if anc.get('k') in ('Let', 'Semi', 'Expr'):
                chain_root = anc.get('init') or anc.get('e')
                break
        if chain_root is None:
            ck.ob('R14.4', 'selection-chain|%s' % short(fn['path']), False, L.loc(n), 'could not find the iterator chain of the selection')
            continue
        filters = [c for c in H.calls_in(chain_root, enter_closures=False) if c.get('m') in ('filter', 'filter_map', 'skip', 'take', 'skip_while', 'take_while', 'step_by')]
        pure = []
        if H.selects_by_negated(fn, n) == 'continue':
            # `if p.is_evaluated_constant() { continue; }` at the top of the loop body is the same selection; no other exit of the loop body
            lp_ = next(a for a in H.ancestors(fn, n) if a.get('k') == 'For')
            own_exits = [x for x in walk(lp_['body'], enter_closures=False) if x.get('k') in ('Continue', 'Break', 'Ret') and
                         next((a for a in H.ancestors(fn, x) if a.get('k') in ('For', 'Loop', 'Closure')), None) is lp_]
            pure.append(len(own_exits) == 1)
        for c in filters:
            cl = c['args'][0] if c['args'] and c['args'][0].get('k') == 'Closure' else None
            v = list(H.value_exprs(cl['body'])) if cl is not None else []
            is_pred = (c.get('m') == 'filter' and len(v) == 1 and v[0].get('k') == 'Unary' and v[0].get('op') == 'Not' and v[0]['e'].get('k') == 'MCall'
                       and (H.callee(v[0]['e']) == pred or H.callee_decl(v[0]['e']) == pred))
            pure.append(is_pred)
        in_mode = fn['path'] == 'uigen::build' and any(any(x is n for x in walk(mm)) for mm in mode_matches)
        role = 'generate' if fn['path'].endswith('UiSupportCode::build') else ('reject' if in_mode else 'attached-leftover')
        ck.ob('R14.4', 'selection-filters-only-on-predicate|%s' % role, bool(pure) and all(pure), L.loc(n),
              'the selection chain has %d restricting adaptor(s), all of them filter(|p| !p.is_evaluated_constant())' % len(pure) if pure and all(pure) else
              'the %s selection restricts with something other than !is_evaluated_constant(): %s' % (role, pp(chain_root, maxlen=160)))
    for need in ('reject-selection', 'generate-selection', 'attached-leftover'):
        ck.ob('R14.4', 'has|%s' % need, roles.get(need, 0) >= 1, '', 'predicate used for %s: %d site(s)' % (need, roles.get(need, 0)))
    ck.extra['is_evaluated_constant_roles'] = roles

    # ---- R14.5 -------------------------------------------------------------
    sup_calls = []
    for fn in L.fn_list:
        for n in H.calls_in(fn['body']):
            if H.is_call_to(n, 'UiSupportCode::build'):
                sup_calls.append((fn, n))
    ck.floor('R14.5', len(sup_calls), 1, 'calls of UiSupportCode::build')
    for fn, n in sup_calls:
        ok = False
        why = 'not inside an arm of the match on the mode'
        if fn['path'] == 'uigen::build':
            for anc in H.ancestors(fn, n):
                if anc.get('k') == 'Arm':
                    pat = anc['pat']
                    if pat.get('k') == 'PPath' and (pat.get('def') or '').endswith('DynamicBindingHandling::Generate'):
                        ok = True
                        why = 'inside arm DynamicBindingHandling::Generate'
                    else:
                        why = 'inside arm %s' % pp(pat)
                    break
        ck.ob('R14.5', 'support-built-only-in-generate|%s' % short(fn['path']), ok, L.loc(n), why)
    for mm in mode_matches:
        if mm.get('k') != 'Match':
            ck.ob('R14.5', 'mode-branch-is-match', False, L.loc(mm), 'branch on the mode is not an exhaustive match')
            continue
        for arm in mm['arms']:
            pat = arm['pat']
            name = (pat.get('def') or pp(pat)).split('::')[-1]
            vals = list(H.value_exprs(arm['body']))
            if name in ('Omit', 'Reject'):
                ok = all(v.get('k') == 'Path' and (v.get('def') or '').endswith('Option::None') for v in vals) and bool(vals)
                ck.ob('R14.5', 'arm-%s-yields-None' % name, ok, L.loc(arm), 'arm value: ' + ', '.join(pp(v, maxlen=40) for v in vals))
            elif name == 'Generate':
                ok = all(v.get('k') == 'Call' and (v.get('def') or '').endswith('Option::Some') for v in vals) and bool(vals)
                ck.ob('R14.5', 'arm-Generate-yields-Some', ok, L.loc(arm), 'arm value: ' + ', '.join(pp(v, maxlen=60) for v in vals))
            else:
                ck.ob('R14.5', 'arm-%s' % name, False, L.loc(arm), 'unexpected arm pattern %s (wildcards hide new modes)' % pp(pat))
    # CLI mapping
    B = F.bin
    gu = B.fn('generate_ui')
    pv = B.fn('preview')
    if gu is None or pv is None:
        ck.floor('R14.5', 0, 1, 'CLI fns generate_ui/preview')
    else:
        ck.analysed('bin::generate_ui')
        ck.analysed('bin::preview')
        found = False
        for n in walk(gu['body']):
            if n.get('k') == 'If':
                c = n['c']
                if c.get('k') == 'Field' and c.get('f') == 'no_dynamic_binding':
                    tv = [pp(v) for v in H.value_exprs(n['then'])]
                    ev = [pp(v) for v in H.value_exprs(n['els'])] if 'els' in n else []
                    found = True
                    ck.ob('R14.5', 'cli-flag-maps-to-reject', tv == ['DynamicBindingHandling::Reject'] and ev == ['DynamicBindingHandling::Generate'],
                          B.loc(n), 'no_dynamic_binding ? %s : %s' % (tv, ev))
        ck.ob('R14.5', 'cli-flag-branch-found', found, '', 'generate_ui branches on args.no_dynamic_binding')
        modes_in_preview = [pp(n) for n in walk(pv['body']) if n.get('k') == 'Path' and 'DynamicBindingHandling::' in (n.get('def') or '')]
        ck.ob('R14.5', 'preview-uses-omit', modes_in_preview == ['DynamicBindingHandling::Omit'], B.loc(pv['body']), 'modes named in preview: %s' % modes_in_preview)
        modes_in_gen = sorted(set(pp(n) for n in walk(gu['body']) if n.get('k') == 'Path' and 'DynamicBindingHandling::' in (n.get('def') or '')))
        ck.ob('R14.5', 'generate-ui-never-omits', 'DynamicBindingHandling::Omit' not in modes_in_gen, B.loc(gu['body']), 'modes named in generate_ui: %s' % modes_in_gen)
    # forbid(unsafe_code)
    for crate in (F.lib, F.bin, F.cli):
        has = any('forbid' in a and 'unsafe_code' in a for a in crate.crate_attrs)
        ck.ob('R14.3', 'forbid-unsafe|%s' % crate.tag, has, '', '#![forbid(unsafe_code)] present' if has else 'crate does not forbid unsafe code')

    # ---- R14.6 generate-side translation failures are diagnosed (a silently dropped binding would make generate accept
    #      a document that reject refuses) ----
    import nonediag
    import panicsites
    from core import load_table
    ck.rule('R14.6', 'a binding that generate mode cannot translate is diagnosed, never dropped silently')
    table = {r['key']: r for r in load_table('none_sources.json')['rows']}
    A = nonediag.Analysis(L, panicsites.DERIVES, table)
    n_u = 0
    for p, u in sorted(A.units.items()):
        if not p.startswith('uigen::binding::'):
            continue
        n_u += 1
        bad = [o for o in u.origins if o['status'] == 'open']
        ck.ob('R14.6', 'diagnosed|%s' % short(p), p in A.S and not bad, L.loc(u.body),
              'every None of this unit is diagnosed' if (p in A.S and not bad) else
              'silent None in the generate pass: %s' % '; '.join('%s at %s' % (o['detail'][:100], L.loc(o['node'])) for o in bad[:2]) or 'a callee has a silent None', fn=u.fn['path'])
    ck.floor('R14.6', n_u, 3, 'Option-returning units in uigen::binding')

    # ---- R14.7 the header is written whenever support code exists: no early success return in generate_ui_file ----
    ck.rule('R14.7', 'in generate mode the header write is reached (or the header compared equal) on every successful path that has support code')
    guf = F.bin.fn('generate_ui_file')
    if guf is None:
        ck.floor('R14.7', 0, 1, 'fn generate_ui_file')
    else:
        # decided path-wise by C15 R15.4 on the same facts: on every path of generate_ui_file that succeeds and has support code, the header
        # is written or compared equal (an early `return Ok(())` in front of it shows up there as a path that keeps a stale header)
        import core as _core
        import rules.c15 as c15
        s15 = _core.Shared(ck, 'R14.7', lambda r, k: (r == 'R15.4' and k.endswith('|skipped-only-if-same-bytes')) or (r == 'R15.5' and k in ('header-only-if-support-code', 'header-path-gets-header', 'both-outputs-written')), 'C15:',
                           ' [in generate mode the support header is produced whenever there is support code]')
        c15.run(s15)
        ck.floor('R14.7', s15.count, 5, 'shared C15 R15.4 / R15.5 obligations on the header write')

    # ---- R14.8 Reject: every selected binding and every callback is an error, on every path ----------------------------------------------
    ck.rule('R14.8', 'in Reject mode every binding Generate mode would translate is an error, on every path; Generate skips no object')
    import nonediag
    bfn = L.fn('uigen::build')
    if bfn is None:
        ck.floor('R14.8', 0, 1, 'fn uigen::build')
    else:
        rej = None
        for m in (n for n in walk(bfn['body']) if n.get('k') == 'Match'):
            for a in m['arms']:
                if 'DynamicBindingHandling::Reject' in pp(a['pat']):
                    rej = a
        loops = [n for n in walk(rej['body']) if n.get('k') == 'For'] if rej else []
        ck.floor('R14.8', len(loops), 2, 'loops of the Reject arm (properties, callbacks)')

        def ev(n):
            if n.get('k') == 'MCall' and n.get('m') == 'push' and n.get('args') and 'Diagnostics' in (L.ty(n['recv'], adjusted=True) or L.ty(n['recv']) or ''):
                return 'warning' if nonediag.is_warning_push(n) else 'error'
            if n.get('k') == 'MCall' and n.get('m') in ('evaluate', 'evaluate_uncached'):
                return 'evaluates'
            return None
        for i, lp in enumerate(loops):
            ps = H.paths(lp['body'], ev)
            # a path that leaves through `if p.is_evaluated_constant() { continue; }` is a binding that is not selected at all
            def unselected(ctx_):
                return any(lab == 'then' and node.get('k') == 'If' and node['c'].get('k') == 'MCall' and
                           (H.callee(node['c']) == pred or H.callee_decl(node['c']) == pred) and H.selects_by_negated(bfn, node['c']) == 'continue' for lab, node in ctx_)
            silent = [(c, e) for c, e, x in ps if 'error' not in e and not unselected(c)]
            what = 'callbacks' if 'callbacks' in pp(lp['iter'], maxlen=200) else 'properties'
            ck.ob('R14.8', 'reject-loop-rejects-on-every-path|%s' % what, bool(ps) and not silent, L.loc(lp),
                  'each of the %d paths through the loop body pushes an error' % len(ps) if not silent else
                  'on the path [%s] a selected binding is accepted without a diagnostic in Reject mode although Generate mode translates it' % H.describe_ctx(silent[0][0]), fn=bfn['path'])
            evs = [e for c, e, x in ps if 'evaluates' in e]
            ck.ob('R14.8', 'reject-loop-does-not-reevaluate|%s' % what, not evs, L.loc(lp),
                  'the Reject arm uses the cached classification only' if not evs else 'the Reject arm evaluates bindings itself: its notion of "constant" differs from the one Generate mode uses (the cached state left by the form pass)', fn=bfn['path'])
    import core as _core
    import rules.c04 as c04
    sh = _core.Shared(ck, 'R14.8', lambda r, k: r == 'R4.1d' and k == 'support-pass-visits-every-object', 'C04:', ' [an object skipped by Generate is still rejected by Reject: the two modes disagree]')
    c04.run(sh)
