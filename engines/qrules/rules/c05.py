"""C05: static typing discipline: ill-typed programs are rejected, valid ones accepted."""
import re
from facts import walk, short, pp
import hirutil as H
import aeval
import nonediag

LEVEL = 'other'
TECHNIQUE = ('abstract evaluation of the typing decision tables (assignability, cast selection, type deduction, operator admissibility) over '
             'a finite type domain, compared cell by cell with the documented discipline; sibling cross-check constant vs dynamic operator '
             'paths; guard dominance (condition checks, writability, return-type verification) over typed HIR')
LEVEL_TEXT = ('The typing functions are pure decision tables, so they are evaluated (not executed: interpreted over symbolic type terms '
              'with stubs for enum compatibility and class derivation) on every pair of a 17-element type domain: 289 assignability '
              'cells, 289 cast cells, 441 deduction cells and every operator x operand-type combination of the dynamic emitters, each '
              'compared with the discipline written down from docs/language.md (no implicit conversion but upcast and literal typing; '
              'int/uint/double never mixed; bool conditions; documented operator domains and explicit casts). Guards that must precede '
              'emission (is_readable/is_writable/is_assignable, check_condition_type, verify_code_return_type, argument count and '
              'compatibility, callback parameter direction, accumulated return type) are checked by lexical dominance.')
LEVEL_NOTE = ('Trusted: the discipline encoded in expected_* below (from docs/language.md); stubs: is_compatible_enum(E1,E2 alias), '
              'is_derived_from(B<:A). Not decided: soundness over all programs; typing of method overload resolution beyond the guard.')
DESIGN_REF = 'DESIGN.md section 4, C05'


def P(n):
    return ('Just', ('Primitive', (n,)))


INT, UINT, DOUBLE, BOOL, STRING, VOID, VARIANT = P('Int'), P('Uint'), P('Double'), P('Bool'), P('QString'), P('Void'), P('QVariant')
E1, E2, E3 = ('Just', ('Enum', 'E1')), ('Just', ('Enum', 'E2')), ('Just', ('Enum', 'E3'))
PA, PB, PC = ('Pointer', ('Class', 'A')), ('Pointer', ('Class', 'B')), ('Pointer', ('Class', 'C'))
LS, LI = ('List', STRING), ('List', INT)
GADGET = ('Just', ('Class', 'G'))
TKS = [INT, UINT, DOUBLE, BOOL, STRING, VOID, VARIANT, E1, E2, E3, PA, PB, PC, LS, LI, GADGET]
TDS = [('Concrete', t) for t in TKS] + [('ConstInteger',), ('ConstString',), ('NullPointer',), ('EmptyList',)]
NAMES = {repr(INT): 'int', repr(UINT): 'uint', repr(DOUBLE): 'double', repr(BOOL): 'bool', repr(STRING): 'QString', repr(VOID): 'void', repr(VARIANT): 'QVariant',
         repr(E1): 'E1', repr(E2): 'E2(alias of E1)', repr(E3): 'E3', repr(PA): 'A*', repr(PB): 'B*(B:A)', repr(PC): 'C*', repr(LS): 'QStringList', repr(LI): 'QList<int>',
         repr(GADGET): 'Gadget'}


def nm(t):
    if t and t[0] == 'Concrete':
        return NAMES.get(repr(t[1]), repr(t[1]))
    if len(t) == 1:
        return {'ConstInteger': '<integer literal>', 'ConstString': '<string literal>', 'NullPointer': 'null', 'EmptyList': '[]'}.get(t[0], t[0])
    return NAMES.get(repr(t), repr(t))


def compat_enum(a, b):
    return a == b or {a, b} == {'E1', 'E2'}


def derived(a, b):
    return a == b or (a, b) in (('B', 'A'), ('D', 'B'), ('D', 'A'))


# thorough tier: a second layer of types (transitive inheritance, lists of pointers/doubles/lists, a pointer to a gadget-like class)
PD = ('Pointer', ('Class', 'D'))
LPA, LPB, LD, LLS = ('List', PA), ('List', PB), ('List', DOUBLE), ('List', LS)
EXTRA_TKS = [PD, LPA, LPB, LD, LLS, ('Pointer', ('Class', 'G'))]
NAMES.update({repr(PD): 'D*(D:B:A)', repr(LPA): 'QList<A*>', repr(LPB): 'QList<B*>', repr(LD): 'QList<double>', repr(LLS): 'QList<QStringList>', repr(('Pointer', ('Class', 'G'))): 'G*'})


def set_domain(tier):
    """16 x 20 types in the quick tier, 22 x 26 in the thorough tier."""
    global TKS, TDS
    base = [INT, UINT, DOUBLE, BOOL, STRING, VOID, VARIANT, E1, E2, E3, PA, PB, PC, LS, LI, GADGET]
    TKS = base + (EXTRA_TKS if tier == 'thorough' else [])
    TDS = [('Concrete', t) for t in TKS] + [('ConstInteger',), ('ConstString',), ('NullPointer',), ('EmptyList',)]


# ---- the documented discipline ---------------------------------------------------------------------------

def expected_assignable(exp, act):
    if act[0] == 'Concrete':
        t = act[1]
        if t == exp:
            return True
        if exp[0] == 'Just' and t[0] == 'Just' and exp[1][0] == 'Enum' and t[1][0] == 'Enum':
            return compat_enum(exp[1][1], t[1][1])
        if exp[0] == 'Pointer' and t[0] == 'Pointer' and exp[1][0] == 'Class' and t[1][0] == 'Class':
            return derived(t[1][1], exp[1][1])     # upcast only
        return False
    if act == ('ConstInteger',):
        return exp in (INT, UINT)
    if act == ('ConstString',):
        return exp == STRING
    if act == ('NullPointer',):
        return exp[0] == 'Pointer'
    if act == ('EmptyList',):
        return exp[0] == 'List'
    return False


def expected_cast(exp, act):
    """Noop/Implicit when assignable; otherwise the explicit casts docs/language.md lists; else Invalid."""
    if act[0] == 'Concrete' and act[1] == exp:
        return 'Noop'
    if expected_assignable(exp, act):
        return 'Implicit'
    num = (INT, UINT, DOUBLE)
    if act[0] == 'Concrete':
        t = act[1]
        if exp in num and t in num:
            return 'Static'
        if exp in (INT, UINT) and t[0] == 'Just' and t[1][0] == 'Enum':
            return 'Static'
        if exp in (INT, UINT) and t == BOOL:
            return 'Static'
        if exp == VOID:
            return 'Static'
        if t == VARIANT:
            return 'Variant'
        return 'Invalid'
    if act == ('ConstInteger',) and exp == DOUBLE:
        return 'Static'
    if exp == VOID:
        return 'Static'
    return 'Invalid'


def expected_deduce(l, r):
    if l == r:
        return l
    for a, b in ((l, r), (r, l)):
        if b == ('ConstInteger',) and a in (('Concrete', INT), ('Concrete', UINT)):
            return a
        if b == ('ConstString',) and a == ('Concrete', STRING):
            return a
        if b == ('NullPointer',) and a[0] == 'Concrete' and a[1][0] == 'Pointer':
            return a
        if b == ('EmptyList',) and a[0] == 'Concrete' and a[1][0] == 'List':
            return a
    if l[0] == 'Concrete' and r[0] == 'Concrete' and l[1][0] == 'Just' and r[1][0] == 'Just' and l[1][1][0] == 'Enum' and r[1][1][0] == 'Enum' and compat_enum(l[1][1][1], r[1][1][1]):
        return l
    return None


def concrete(td):
    if td is None:
        return None
    if td[0] == 'Concrete':
        return td[1]
    return {('ConstInteger',): INT, ('ConstString',): STRING}.get(td)


def after_ensure(td):
    return ('Concrete', STRING) if td == ('ConstString',) else td


def is_enum(t):
    return t is not None and t[0] == 'Just' and t[1][0] == 'Enum'


def expected_binary(cls, op, lt, rt):
    """Result TypeKind or None (rejected) for a dynamic binary expression per docs/language.md."""
    lt, rt = after_ensure(lt), after_ensure(rt)
    if cls == 'Shift':
        l = concrete(lt)
        if l in (INT, UINT) and rt in (('ConstInteger',), ('Concrete', INT), ('Concrete', UINT)):
            return l
        return None
    ty = concrete(expected_deduce(lt, rt))
    if ty is None:
        return None
    if cls == 'Arith':
        if ty in (INT, UINT, DOUBLE):
            return ty
        if ty == STRING and op == 'Add':
            return ty
        return None
    if cls == 'Bitwise':
        return ty if (ty in (BOOL, INT, UINT) or is_enum(ty)) else None
    if cls == 'Comparison':
        if ty[0] == 'Pointer':
            # C-like: pointers compare equal / unequal, also against null; two pointers can be ordered, a pointer and null cannot
            # ([expr.rel]; enforced since the F22 fix)
            if op not in ('Equal', 'NotEqual') and (lt == ('NullPointer',) or rt == ('NullPointer',)):
                return None
            return BOOL
        return BOOL if (ty in (BOOL, INT, UINT, DOUBLE, STRING) or is_enum(ty)) else None
    return None


def expected_unary(cls, t):
    t = after_ensure(t)
    if cls == 'Logical':
        return BOOL if t == ('Concrete', BOOL) else None
    ty = concrete(t)
    if ty is None:
        return None
    if cls == 'Arith':
        return ty if ty in (INT, UINT, DOUBLE) else None
    if cls == 'Bitwise':
        return ty if (ty in (INT, UINT) or is_enum(ty)) else None
    return None


def builder_fn_early(L, name):
    return next((f for f in L.fn_list if f['name'] == name and 'CodeBuilder' in f['path']), None)


def operand(td):
    """a real Operand term whose type_desc() is td: a Local for concrete types, a Constant for the literal kinds.
    Operand::type_desc, ConstantValue::type_desc and ensure_concrete_string are then EVALUATED, not modelled."""
    if td[0] == 'Concrete':
        return ('Local', ('#struct', 'Local', {'name': ('LocalRef', 0), 'ty': td[1], 'byte_range': ('#range',)}))
    value = {'ConstInteger': ('Integer', 1), 'ConstString': ('CString', ('#str',)), 'NullPointer': ('NullPointer',), 'EmptyList': ('EmptyList',)}[td[0]]
    return ('Constant', ('#struct', 'Constant', {'value': value, 'byte_range': ('#range',)}))


CONST_TD = {'Bool': ('Concrete', BOOL), 'Integer': ('ConstInteger',), 'Float': ('Concrete', DOUBLE), 'CString': ('ConstString',), 'QString': ('Concrete', STRING),
            'NullPointer': ('NullPointer',), 'EmptyList': ('EmptyList',)}


def op_type(term):
    """TypeDesc of an operand term (python side, for reading results)."""
    if isinstance(term, tuple) and term and term[0] == 'Local':
        return ('Concrete', term[1][2]['ty'])
    if isinstance(term, tuple) and term and term[0] == 'Constant':
        return CONST_TD.get(term[1][2]['value'][0])
    return None


def op_rvalue(term):
    return term[1][2].get('rv') if isinstance(term, tuple) and term and term[0] == 'Local' else None


def result_type(got):
    if not (isinstance(got, tuple) and got and got[0] == 'Ok'):
        return None
    t = op_type(got[1])
    return t[1] if t is not None and t[0] == 'Concrete' else ('?', got[1])


def base_stubs():
    # is_compatible_enum itself is evaluated; only the type map behind it is modelled: E2 is declared as an alias of E1
    return {
        'Enum::alias_enum': lambda a: ('Some', ('Ok', 'E1')) if a[0] == 'E2' else ('None',),
        # more type-map data, so that a decision that starts to depend on it is evaluated rather than lost: E1 is an unscoped plain
        # enum, E2 the flags type over it (as Qt::Orientation / Qt::Orientations: alias = E1, isFlag), E3 a scoped plain one. The
        # documented discipline depends on neither.
        'Enum::is_scoped': lambda a: a[0] == 'E3',
        'Enum::is_flag': lambda a: a[0] == 'E2',
        'Class::is_derived_from': lambda a: derived(a[0], a[1]),
    }


def dyn_interp(L):
    """Interpreter for the dynamic emitters of tir::builder. Stubbed: the effects (emit_result allocates a temporary of the given
    type and remembers the rvalue constructor) and strings. Evaluated: every typing decision, including Operand::type_desc,
    ConstantValue::type_desc and ensure_concrete_string."""
    stubs4 = base_stubs()
    stubs4.update({
        'CodeBuilder::emit_result': lambda a: ('Local', ('#struct', 'Local', {'name': ('LocalRef', 1), 'ty': a[1], 'byte_range': ('#range',), 'rv': a[2][0] if isinstance(a[2], tuple) and a[2] else '?', 'rvfull': a[2]})),
        'to_string': lambda a: ('#str',),
        'qualified_name': lambda a: ('#str',),
        'qualified_cxx_name': lambda a: ('#str',),
    })
    return aeval.Interp(L, stubs=stubs4), stubs4


OPS = {'Arith': ['Add', 'Sub', 'Mul', 'Div', 'Rem'], 'Bitwise': ['And', 'Xor', 'Or'], 'Shift': ['RightShift', 'LeftShift'],
       'Comparison': ['Equal', 'NotEqual', 'LessThan', 'LessThanEqual', 'GreaterThan', 'GreaterThanEqual']}
UNOPS = (('Arith', ['Minus', 'Plus']), ('Bitwise', ['Not']), ('Logical', ['Not']))
EMIT_BINARY = 'tir::builder::CodeBuilder::emit_binary_expression'
EMIT_UNARY = 'tir::builder::CodeBuilder::emit_unary_expression'
VISIT_BUILTIN = '<tir::builder::CodeBuilder as typedexpr::ExpressionVisitor>::visit_builtin_call'


def dyn_binary(I4, cls, op, l, r):
    """result TypeKind term, None (rejected) or 'undecided:..' for a dynamic binary expression."""
    try:
        got = I4.call(EMIT_BINARY, [('#self',), (cls, (op,)), operand(l), operand(r), ('#range',)], 0)
        return result_type(got)
    except aeval.Undecided as e:
        return 'undecided:%s' % e


def dyn_unary(I4, cls, op, t):
    try:
        got = I4.call(EMIT_UNARY, [('#self',), (cls, (op,)), operand(t), ('#range',)], 0)
        return result_type(got)
    except aeval.Undecided as e:
        return 'undecided:%s' % e


def dyn_builtin(I4, kind, args):
    try:
        got = I4.call(VISIT_BUILTIN, [('#self',), kind, ('#vec',) + tuple(operand(a) for a in args), ('#range',)], 0)
        return result_type(got)
    except aeval.Undecided as e:
        return 'undecided:%s' % e


def dyn_builtin_arg_types(I4, kind, args):
    """TypeDescs of the operands as they stand in the emitted Rvalue::CallBuiltinFunction (the builder may have replaced a literal
    by a typed temporary), or None."""
    try:
        got = I4.call(VISIT_BUILTIN, [('#self',), kind, ('#vec',) + tuple(operand(a) for a in args), ('#range',)], 0)
    except aeval.Undecided:
        return None
    if not (isinstance(got, tuple) and got and got[0] == 'Ok' and isinstance(got[1], tuple) and got[1][0] == 'Local'):
        return None
    rv = got[1][1][2].get('rvfull')
    if not (isinstance(rv, tuple) and rv and rv[0] == 'CallBuiltinFunction' and isinstance(rv[-1], tuple) and rv[-1][:1] == ('#vec',)):
        return None
    return [op_type(x) for x in rv[-1][1:]]


def run(ck):
    if getattr(ck, 'depth', 0) >= 2:
        return      # a shared run of a shared run: nothing of it is selected, and mutual sharing must end somewhere
    F = ck.facts
    L = F.lib
    set_domain(getattr(ck, 'tier', 'quick'))
    ck.explanation = (
        'R5.1 is_assignable / is_concrete_assignable accept exactly the cells of expected_assignable (16x20 and 16x16 cells). R5.2 '
        'pick_type_cast / pick_concrete_type_cast yield the documented cast kind in every cell. R5.3 deduce_type is evaluated on 20x20 '
        'cells: Ok(t) exactly for equal types, literal with its concrete type, compatible enums, pointer with null, list with []; the '
        'result is the concrete side; symmetric. R5.4 emit_unary_expression / emit_binary_expression are evaluated for every operator '
        'class, operator and operand type pair and must admit exactly the documented domains with the documented result type; the '
        'constant folders must not admit a kind whose concretisation the dynamic path rejects (sibling cross-check). R5.5 '
        'check_condition_type yields Some only for bool and dominates visit_if_statement / visit_ternary_expression / '
        'visit_binary_logical_expression. R5.6 guards dominate emission (readable, writable, assignable, argument count and compatibility, '
        'return-type verification before building C++ evaluators, callback parameter direction). R5.7 resolve_return_type folds every '
        'return operand into the accumulated type.')
    for rid, text in (('R5.1', 'assignability: no implicit conversion but upcast, compatible enums and literal typing'),
                      ('R5.2', 'explicit casts are exactly the documented ones'),
                      ('R5.3', 'operands/branches unify only to one common type'),
                      ('R5.4', 'operators accept exactly their documented operand types'),
                      ('R5.5', 'conditions must be bool'),
                      ('R5.6', 'type and access checks dominate code emission'),
                      ('R5.7', 'the result type accounts for every return'),
                      ('R5.8', 'constants and operands have the type their kind prescribes'),
                      ('R5.9', 'operator tokens reach the operator class they denote; unsupported ones are rejected (shared with C01)'),
                      ('R5.10', 'the void path of a body that can fall off its end takes part in the return type (shared with C06)'),
                      ('R5.11', 'generate-ui runs the checks of non-constant bindings in both of its modes (shared with C14)')):
        ck.rule(rid, text)

    stubs = base_stubs()
    I = aeval.Interp(L, stubs=stubs)

    def cell(rule, key, fnpath, args, expect, describe):
        try:
            got = I.call(fnpath, list(args), 0)
        except aeval.Undecided as e:
            ck.ob(rule, key, False, '', 'table cell could not be evaluated (%s): anchor lost for this cell' % e)
            return None
        ok = got == expect
        ck.ob(rule, key, ok, '', describe(got) if ok else 'got %s, documented: %s' % (describe(got), describe(expect)), nontrivial=True)
        return got

    # ---- R5.1 / R5.2 -------------------------------------------------------------------------------
    for fnname, acts in (('typeutil::is_assignable', TDS), ('typeutil::is_concrete_assignable', TKS)):
        if fnname not in L.fns:
            ck.floor('R5.1', 0, 1, 'fn ' + fnname)
            continue
        ck.analysed(fnname)
        for exp in TKS:
            for act in acts:
                a_td = act if fnname.endswith('is_assignable') else ('Concrete', act)
                e = ('Ok', expected_assignable(exp, a_td))
                cell('R5.1', '%s|%s<-%s' % (fnname.split('::')[-1], nm(exp), nm(a_td)), fnname, (exp, act), e,
                     lambda g: 'assignable' if g == ('Ok', True) else 'not assignable' if g == ('Ok', False) else repr(g))
    for fnname, acts in (('typeutil::pick_type_cast', TDS), ('typeutil::pick_concrete_type_cast', TKS)):
        if fnname not in L.fns:
            ck.floor('R5.2', 0, 1, 'fn ' + fnname)
            continue
        ck.analysed(fnname)
        for exp in TKS:
            for act in acts:
                a_td = act if fnname.endswith('pick_type_cast') else ('Concrete', act)
                e = ('Ok', (expected_cast(exp, a_td),))
                cell('R5.2', '%s|%s<-%s' % (fnname.split('::')[-1], nm(exp), nm(a_td)), fnname, (exp, act), e,
                     lambda g: g[1][0] if isinstance(g, tuple) and len(g) == 2 and isinstance(g[1], tuple) else repr(g))

    # ---- R5.3 deduce ------------------------------------------------------------------------------------
    if 'typeutil::deduce_type' in L.fns:
        ck.analysed('typeutil::deduce_type')
        for l in TDS:
            for r in TDS:
                exp = expected_deduce(l, r)
                try:
                    got = I.call('typeutil::deduce_type', [l, r], 0)
                except aeval.Undecided as e:
                    ck.ob('R5.3', 'deduce|%s,%s' % (nm(l), nm(r)), False, '', 'cell could not be evaluated (%s)' % e)
                    continue
                g = got[1] if got[0] == 'Ok' else None
                ck.ob('R5.3', 'deduce|%s,%s' % (nm(l), nm(r)), g == exp, '',
                      ('-> ' + nm(g)) if g is not None and g == exp else ('incompatible' if g == exp else 'deduces %s; documented: %s' % (nm(g) if g else 'incompatible', nm(exp) if exp else 'incompatible')))
        for t in TDS:
            exp = concrete(t)
            try:
                got = I.call('typeutil::to_concrete_type', [t], 0)
                g = got[1] if got[0] == 'Ok' else None
                ck.ob('R5.3', 'concrete|%s' % nm(t), g == exp, '', '-> %s' % (nm(g) if g else 'undetermined'))
            except aeval.Undecided as e:
                ck.ob('R5.3', 'concrete|%s' % nm(t), False, '', 'cell could not be evaluated (%s)' % e)
    else:
        ck.floor('R5.3', 0, 1, 'fn deduce_type')

    # ---- R5.4 operator admissibility ---------------------------------------------------------------------------
    I4, stubs4 = dyn_interp(L)
    eb = 'tir::builder::CodeBuilder::emit_binary_expression'
    eu = 'tir::builder::CodeBuilder::emit_unary_expression'
    ops = {'Arith': ['Add', 'Sub', 'Mul', 'Div', 'Rem'], 'Bitwise': ['And', 'Xor', 'Or'], 'Shift': ['RightShift', 'LeftShift'],
           'Comparison': ['Equal', 'NotEqual', 'LessThan', 'LessThanEqual', 'GreaterThan', 'GreaterThanEqual']}
    n4 = 0
    if eb in L.fns:
        ck.analysed(eb)
        for cls, names in ops.items():
            # operand types that matter: collapse operators of one class when all give the same verdict
            for l in TDS:
                for r in TDS:
                    res = {}
                    for op in names:
                        exp = expected_binary(cls, op, l, r)
                        try:
                            got = I4.call(eb, [('#self',), (cls, (op,)), operand(l), operand(r), ('#range',)], 0)
                            g = result_type(got)
                        except aeval.Undecided as e:
                            g = 'undecided:%s' % e
                        res[op] = (g, exp)
                    n4 += 1
                    bad = {op: v for op, v in res.items() if v[0] != v[1]}
                    ck.ob('R5.4', 'binary|%s|%s,%s' % (cls, nm(l), nm(r)), not bad, '',
                          '%s on (%s, %s): %s' % (cls, nm(l), nm(r), 'accepted -> ' + nm(list(res.values())[0][0]) if list(res.values())[0][0] else 'rejected') if not bad else
                          '; '.join('%s %s on (%s, %s) is %s, documented: %s' % (cls, op, nm(l), nm(r), ('accepted -> ' + (nm(v[0]) if isinstance(v[0], tuple) else str(v[0]))) if v[0] else 'rejected', ('accepted -> ' + nm(v[1])) if v[1] else 'rejected') for op, v in list(bad.items())[:2]))
    else:
        ck.floor('R5.4', 0, 1, 'fn emit_binary_expression')
    if eu in L.fns:
        ck.analysed(eu)
        for cls, names in (('Arith', ['Minus', 'Plus']), ('Bitwise', ['Not']), ('Logical', ['Not'])):
            for t in TDS:
                for op in names:
                    exp = expected_unary(cls, t)
                    try:
                        got = I4.call(eu, [('#self',), (cls, (op,)), operand(t), ('#range',)], 0)
                        g = result_type(got)
                    except aeval.Undecided as e:
                        g = 'undecided:%s' % e
                    n4 += 1
                    ck.ob('R5.4', 'unary|%s|%s|%s' % (cls, op, nm(t)), g == exp, '',
                          'unary %s %s on %s: %s' % (cls, op, nm(t), ('accepted -> ' + nm(g)) if g else 'rejected') if g == exp else
                          'unary %s %s on %s is %s, documented: %s' % (cls, op, nm(t), ('accepted -> ' + (nm(g) if isinstance(g, tuple) else str(g))) if g else 'rejected', ('accepted -> ' + nm(exp)) if exp else 'rejected'))
    ck.floor('R5.4', n4, 1600, 'operator x operand-type cells')
    # `as` casts, subscripts, builtin calls: the same evaluation, over their own tables
    va = '<tir::builder::CodeBuilder as typedexpr::ExpressionVisitor>::visit_as_expression'
    RV = {'Noop': None, 'Implicit': 'Copy', 'Static': 'StaticCast', 'Variant': 'VariantCast'}
    n_as = 0
    if va in L.fns:
        ck.analysed(va)
        for exp in TKS:
            for act in TDS:
                kind = expected_cast(exp, after_ensure(act))
                try:
                    got = I4.call(va, [('#self',), operand(act), exp, ('#range',)], 0)
                except aeval.Undecided as e:
                    got = ('undecided', str(e))
                if kind == 'Invalid':
                    ok = got[0] == 'Err'
                    want = 'rejected'
                elif kind == 'Noop':
                    ok = got[0] == 'Ok' and op_type(got[1]) == after_ensure(act) and op_rvalue(got[1]) is None
                    want = 'the value itself'
                else:
                    ok = got[0] == 'Ok' and op_type(got[1]) == ('Concrete', exp) and op_rvalue(got[1]) == RV[kind]
                    want = '%s to %s' % (RV[kind], nm(exp))
                n_as += 1
                ck.ob('R5.2', 'as|%s as %s' % (nm(act), nm(exp)), ok, '', want if ok else '`%s as %s` gives %r, documented: %s' % (nm(act), nm(exp), got, want))
    ck.floor('R5.2', n_as, 300, '`as` cells')
    cs = 'tir::builder::check_object_subscript_type'
    if cs in L.fns:
        ck.analysed(cs)
        for o in TDS:
            for i in TDS:
                oc = concrete(o)
                exp = oc[1] if (oc is not None and oc[0] == 'List' and i in (('ConstInteger',), ('Concrete', INT), ('Concrete', UINT))) else None
                try:
                    got = I4.call(cs, [operand(o), operand(i)], 0)
                    g = got[1] if got[0] == 'Ok' else None
                except aeval.Undecided as e:
                    g = 'undecided:%s' % e
                ck.ob('R5.4', 'subscript|%s[%s]' % (nm(o), nm(i)), g == exp, '', ('element ' + nm(g)) if g and g == exp else 'rejected' if g == exp else
                      '%s[%s] gives %s, documented: %s' % (nm(o), nm(i), g, nm(exp) if exp else 'rejected'))
    else:
        ck.floor('R5.4', 0, 1, 'fn check_object_subscript_type')
    vb = '<tir::builder::CodeBuilder as typedexpr::ExpressionVisitor>::visit_builtin_call'
    if vb in L.fns:
        ck.analysed(vb)

        def bcall(kind, args):
            try:
                got = I4.call(vb, [('#self',), kind, ('#vec',) + tuple(operand(a) for a in args), ('#range',)], 0)
                return result_type(got)
            except aeval.Undecided as e:
                return 'undecided:%s' % e
        for kind in ('Max', 'Min'):
            for l in TDS:
                for r in TDS:
                    ty = concrete(expected_deduce(after_ensure(l), after_ensure(r)))
                    exp = ty if ty in (BOOL, DOUBLE, INT, UINT, STRING) else None
                    g = bcall((kind,), [l, r])
                    ck.ob('R5.4', 'builtin|%s(%s, %s)' % (kind, nm(l), nm(r)), g == exp, '', ('-> ' + nm(g)) if g and g == exp else 'rejected' if g == exp else
                          'Math.%s(%s, %s) gives %s, documented: %s' % (kind.lower(), nm(l), nm(r), g, nm(exp) if exp else 'rejected'))
            for n in (0, 1, 3):
                g = bcall((kind,), [('Concrete', INT)] * n)
                ck.ob('R5.4', 'builtin|%s/%d arguments' % (kind, n), g is None, '', 'rejected' if g is None else 'accepted with %d arguments' % n)
        for t in TDS:
            g = bcall(('Tr',), [t])
            exp = STRING if t == ('ConstString',) else None
            ck.ob('R5.4', 'builtin|qsTr(%s)' % nm(t), g == exp, '', ('accepted' if g else 'rejected') if g == exp else 'qsTr(%s) gives %s' % (nm(t), g))
        for n in (0, 2):
            g = bcall(('Tr',), [('ConstString',)] * n)
            ck.ob('R5.4', 'builtin|qsTr/%d arguments' % n, g is None, '', 'rejected' if g is None else 'accepted with %d arguments' % n)
        g = bcall(('ConsoleLog', ('Debug',)), [('Concrete', INT), ('ConstString',)])
        ck.ob('R5.4', 'builtin|console.log', g == VOID, '', 'console.log(..) is void' if g == VOID else 'console.log(..) gives %s' % (g,))
    else:
        ck.floor('R5.4', 0, 1, 'fn visit_builtin_call')
    # accumulating deduction sites: array elements and ternary branches
    varr = builder_fn_early(L, 'visit_array')
    if varr is not None:
        dt = [c for c in H.calls_in(varr['body']) if H.is_call_to(c, 'typeutil::deduce_type')]
        ok = False
        if len(dt) == 1:
            asg = next((a for a in H.ancestors(varr, dt[0]) if a.get('k') == 'Assign'), None)
            acc = H.root_local(asg['l']) if asg is not None else None
            a0 = H.root_local(dt[0]['args'][0])
            loop = next((a for a in H.ancestors(varr, dt[0]) if a.get('k') == 'For'), None)
            ok = acc is not None and a0 is not None and acc.get('hid') == a0.get('hid') and H.strip_refs(dt[0]['args'][0]).get('k') == 'Path' and loop is not None and 'skip(1)' in pp(loop['iter'])
            if ok:
                # the list type is built from the accumulated element type
                lst = next((n for n in walk(varr['body']) if n.get('k') == 'Call' and (n.get('def') or '').endswith('TypeKind::List')), None)
                ok = lst is not None and any(x.get('k') == 'Path' and x.get('hid') == acc.get('hid') for x in walk(lst))
        ck.ob('R5.3', 'array-elements-unify', ok, L.loc(dt[0]) if dt else '', 'elem_t = deduce_type(elem_t, a.type_desc())? over all remaining elements; list type built from elem_t')
    vt = builder_fn_early(L, 'visit_ternary_expression')
    if vt is not None:
        dc = [c for c in H.calls_in(vt['body']) if H.is_call_to(c, 'builder::deduce_concrete_type')]
        ok = False
        if len(dc) == 1 and H.parents(vt).get(id(dc[0]), {}).get('k') == 'Try':
            roots = []
            for a in dc[0]['args'][1:]:
                td = next((c for c in H.calls_in(a) if c.get('m') == 'type_desc'), None)
                roots.append((H.root_local(td['recv']) or {}).get('name') if td else None)
            copies = [n for n in walk(vt['body']) if n.get('k') == 'Call' and (n.get('def') or '').endswith('Rvalue::Copy')]
            al = next((c for c in H.calls_in(vt['body']) if c.get('m') == 'alloca'), None)
            ok = roots == ['consequence', 'alternative'] and al is not None and H.lexically_precedes_dominating(vt, dc[0], al) and \
                (H.root_local(al['args'][0]) or {}).get('hid') is not None and bool(copies)
            if ok:
                tyb = H.binding_sites(vt).get((H.root_local(al['args'][0]) or {}).get('hid'))
                ok = tyb is not None and tyb['kind'] == 'let' and any(c is dc[0] for c in H.calls_in(tyb['node']['init']))
        ck.ob('R5.3', 'ternary-branches-unify', ok, L.loc(dc[0]) if dc else '', 'sink type = deduce_concrete_type(consequence, alternative)? and the sink is allocated with it')
    for f in L.fn_list:
        if not f['path'].startswith('typedexpr::'):
            continue
        for c in H.calls_in(f['body']):
            if c.get('m') == 'visit_binary_expression' and any((x.get('def') or '').endswith('ComparisonOp::Equal') for x in walk(c)):
                pm = H.parents(f)
                up = [a.get('k') for a in H.ancestors(f, c)][:4]
                ck.ob('R5.4', 'switch-case-compared-by-equal|%s' % short(f['path']), 'Try' in up or any(a.get('k') == 'MCall' and a.get('m') in ('consume_expr_err', 'consume_err') for a in H.ancestors(f, c)), L.loc(c),
                      'case expressions are tested through the type-checked `==` and its error is propagated', fn=f['path'])

    # sibling cross-check: constant folders (from C01's tables): kinds admitted by a folder must be admitted dynamically after concretisation
    conc = {'Bool': ('Concrete', BOOL), 'Integer': ('ConstInteger',), 'Float': ('Concrete', DOUBLE), 'CString': ('ConstString',), 'QString': ('Concrete', STRING), 'NullPointer': ('NullPointer',)}
    import tables as T
    for fn in (f for f in L.fn_list if f['path'].startswith('tir::ceval::eval_')):
        op_ty = (fn.get('inputs') or ['?'])[0].split('::')[-1]
        cls = {'BinaryArithOp': 'Arith', 'BinaryBitwiseOp': 'Bitwise', 'ShiftOp': 'Shift', 'ComparisonOp': 'Comparison', 'UnaryArithOp': 'Arith', 'UnaryBitwiseOp': 'Bitwise', 'UnaryLogicalOp': 'Logical'}.get(op_ty)
        unary = op_ty.startswith('Unary')
        outer = T.find_match_on(fn, lambda e: True)
        if outer is None or cls is None:
            continue
        for arm in outer['arms']:
            vals = list(H.value_exprs(arm['body']))
            is_err = all(v.get('k') == 'Call' and (v.get('def') or '').endswith('Result::Err') for v in vals) and bool(vals)
            if is_err:
                continue
            for alt in T.alternatives(arm['pat']):
                p = T.peel_pat(alt)
                subs = p['subs'] if p.get('k') == 'PTup' else [p]
                kinds = [T.last(T.peel_pat(s).get('def')) for s in subs]
                if any(k not in conc for k in kinds):
                    continue
                # which operators does this arm admit (inner match may reject some)
                inner = next((n for n in walk(arm['body']) if n.get('k') == 'Match'), None)
                admitted = []
                if inner is not None:
                    tab, _ = T.simple_table(inner, value=lambda e: ['Err'] if (e.get('k') == 'Call' and (e.get('def') or '').endswith('Result::Err')) else ['ok'])
                    admitted = [k for k, v in tab.items() if v == ['ok'] and isinstance(k, str)]
                else:
                    admitted = ops.get(cls, ['Not', 'Minus', 'Plus']) if not unary else (['Minus', 'Plus'] if cls == 'Arith' else ['Not'])
                for op in admitted:
                    tds = [conc[k] for k in kinds]
                    dyn = expected_unary(cls, tds[0]) if unary else expected_binary(cls, op, tds[0], tds[1])
                    if kinds == ['NullPointer', 'NullPointer']:
                        continue  # null == null has no dynamic counterpart (no concrete type): constant-only
                    ck.ob('R5.4', 'const~dynamic|%s|%s|%s' % (fn['name'].replace('eval_', '').replace('_expression', ''), '/'.join(kinds), op), dyn is not None, L.loc(arm),
                          'folder admits %s on %s constants and so does the dynamic path' % (op, kinds) if dyn is not None else
                          'the constant folder admits %s %s on %s constants but the dynamic path rejects the same operand types: the two implementations of one operator disagree' % (cls, op, kinds))

    # ---- R5.8 what type a constant / operand has ------------------------------------------------------------------------------
    ctd = next((f for f in L.fn_list if f['path'].startswith('<tir::core::ConstantValue as') and f['name'] == 'type_desc'), None)
    otd = next((f for f in L.fn_list if f['path'].startswith('<tir::core::Operand as') and f['name'] == 'type_desc'), None)
    n8 = 0
    if ctd is None or otd is None:
        ck.floor('R5.8', 0, 2, 'type_desc of ConstantValue / Operand')
    else:
        ck.analysed(ctd['path'])
        ck.analysed(otd['path'])
        samples = {'Bool': ('Bool', True), 'Integer': ('Integer', 1), 'Float': ('Float', 1.5), 'CString': ('CString', ('#str',)), 'QString': ('QString', ('#str',)),
                   'NullPointer': ('NullPointer',), 'EmptyList': ('EmptyList',)}
        variants = [v['name'] for v in (L.adts.get('tir::core::ConstantValue') or {}).get('variants', [])]
        ck.ob('R5.8', 'constant-kinds-known', sorted(variants) == sorted(samples), '', 'ConstantValue variants: %s' % variants)
        for name, val in samples.items():
            try:
                got = I4.call(ctd['path'], [val], 0)
            except aeval.Undecided as e:
                got = ('undecided', str(e))
            n8 += 1
            ck.ob('R5.8', 'constant-type|%s' % name, got == CONST_TD[name], L.loc(ctd['body']), 'a %s constant has type %s' % (name, nm(got) if got == CONST_TD[name] else got))
        ops = {'Local': (operand(('Concrete', INT)), ('Concrete', INT)),
               'NamedObject': (('NamedObject', ('#struct', 'NamedObject', {'name': ('NamedObjectRef', ('#str',)), 'cls': 'A', 'byte_range': ('#range',)})), ('Concrete', ('Pointer', ('Class', 'A')))),
               'EnumVariant': (('EnumVariant', ('#struct', 'EnumVariant', {'ty': 'E1', 'variant': ('#str',), 'byte_range': ('#range',)})), ('Concrete', E1)),
               'Void': (('Void', ('#struct', 'Void', {'byte_range': ('#range',)})), ('Concrete', VOID)),
               'Constant': (operand(('ConstInteger',)), ('ConstInteger',))}
        ovariants = [v['name'] for v in (L.adts.get('tir::core::Operand') or {}).get('variants', [])]
        ck.ob('R5.8', 'operand-kinds-known', sorted(ovariants) == sorted(ops), '', 'Operand variants: %s' % ovariants)
        for name, (term, want) in ops.items():
            try:
                got = I4.call(otd['path'], [term], 0)
            except aeval.Undecided as e:
                got = ('undecided', str(e))
            n8 += 1
            ck.ob('R5.8', 'operand-type|%s' % name, got == want, L.loc(otd['body']), 'a %s operand has type %s' % (name, nm(got) if got == want else got))
        ecs = L.fns.get('tir::builder::ensure_concrete_string')
        if ecs is not None:
            ck.analysed(ecs['path'])
            for name, val in samples.items():
                term = ('Constant', ('#struct', 'Constant', {'value': val, 'byte_range': ('#range',)}))
                try:
                    got = I4.call(ecs['path'], [term], 0)
                    gt = op_type(got)
                except aeval.Undecided as e:
                    gt = ('undecided', str(e))
                want = after_ensure(CONST_TD[name])
                n8 += 1
                ck.ob('R5.8', 'ensure-concrete-string|%s' % name, gt == want, L.loc(ecs['body']), 'a %s constant operand is handed on as %s' % (name, nm(gt) if gt == want else gt))
    ck.floor('R5.8', n8, 19, 'constant/operand typing cells')

    # ---- R5.5 conditions ---------------------------------------------------------------------------------------
    cc = L.fn('typedexpr::check_condition_type')
    if cc is None:
        ck.floor('R5.5', 0, 1, 'fn check_condition_type')
    else:
        ck.analysed(cc['path'])
        # reporting is an effect, not part of the decision: Diagnostics::push is not entered
        IL = aeval.Interp(L, stubs={'type_desc': lambda a: a[0][1], 'qualified_name': lambda a: ('#str',), 'Diagnostics::push': lambda a: ('#unit',)}, lenient=True)
        for t in TDS:
            try:
                got = IL.call(cc['path'], [('#operand', t), ('#node',), ('#diagnostics',)], 0)
            except aeval.Undecided as e:
                got = ('undecided', str(e))
            exp = ('Some', ('#unit',)) if t == ('Concrete', BOOL) else ('None',)
            ck.ob('R5.5', 'condition-type|%s' % nm(t), got == exp, L.loc(cc['body']), 'a %s condition is %s' % (nm(t), 'accepted' if got[0] == 'Some' else 'rejected' if got[0] == 'None' else got))
        n_g = 0
        for fn in L.fn_list:
            if not fn['path'].startswith('typedexpr::'):
                continue
            pm = H.parents(fn)
            for c in H.calls_in(fn['body']):
                if c.get('m') in ('visit_if_statement', 'visit_ternary_expression', 'visit_binary_logical_expression'):
                    need = 2 if c['m'] == 'visit_binary_logical_expression' else 1
                    guards = [g for g in H.calls_in(fn['body']) if H.is_call_to(g, 'check_condition_type') and pm.get(id(g), {}).get('k') == 'Try' and H.lexically_precedes_dominating(fn, g, c)]
                    # the checked operand is the one handed to the visitor
                    checked = {(H.root_local(g['args'][0]) or {}).get('hid') for g in guards}
                    used = {(H.root_local(x) or {}).get('hid') for a in c['args'] for x in ([a] if a.get('k') != 'Tup' else a['es'][:1])}
                    n_g += 1
                    ck.ob('R5.5', 'condition-checked|%s|%s' % (short(fn['path']), c['m']), len(guards) >= need and len(checked & used) >= need, L.loc(c),
                          '%d check_condition_type(..)? dominate %s on its own condition operand(s)' % (len(guards), c['m']), fn=fn['path'])
        ck.floor('R5.5', n_g, 3, 'condition-taking visits')

    # ---- R5.6 guards -----------------------------------------------------------------------------------------------
    def builder_fn(name):
        return next((f for f in L.fn_list if f['name'] == name and 'CodeBuilder' in f['path']), None)
    for name, guard_m, site_pat in (('visit_object_property', 'is_readable', 'ReadProperty'), ('visit_object_property_assignment', 'is_writable', 'WriteProperty')):
        fn = builder_fn(name)
        if fn is None:
            ck.ob('R5.6', 'access|%s' % name, False, '', 'fn not found')
            continue
        ck.analysed(fn['path'])
        site = next((n for n in walk(fn['body']) if n.get('k') == 'Call' and (n.get('def') or '').endswith('Rvalue::' + site_pat)), None)
        g = next((n for n in walk(fn['body']) if n.get('k') == 'If' and n['c'].get('k') == 'Unary' and n['c'].get('op') == 'Not' and any(c.get('m') == guard_m for c in H.calls_in(n['c'])) and any(x.get('k') == 'Ret' for x in walk(n['then']))), None)
        ck.ob('R5.6', 'access|%s' % name, site is not None and g is not None and H.lexically_precedes_dominating(fn, g, site), L.loc(site) if site else '',
              'if !property.%s() { return Err } dominates the emitted %s' % (guard_m, site_pat), fn=fn['path'])
    for name, site_pat in (('visit_local_assignment', 'Rvalue::Copy'), ('visit_object_property_assignment', 'Rvalue::WriteProperty'), ('visit_object_subscript_assignment', 'Rvalue::WriteSubscript')):
        fn = builder_fn(name)
        if fn is None:
            ck.ob('R5.6', 'assignable|%s' % name, False, '', 'fn not found')
            continue
        site = next((n for n in walk(fn['body']) if n.get('k') == 'Call' and (n.get('def') or '').endswith(site_pat)), None)
        g = next((n for n in walk(fn['body']) if n.get('k') == 'If' and n['c'].get('k') == 'Unary' and n['c'].get('op') == 'Not' and any(H.is_call_to(c, 'typeutil::is_assignable') for c in H.calls_in(n['c'])) and any(x.get('k') == 'Ret' for x in walk(n['then']))), None)
        ok = site is not None and g is not None and H.lexically_precedes_dominating(fn, g, site)
        if ok:
            # (expected = type of the target, actual = type of the right operand)
            ia = next(c for c in H.calls_in(g['c']) if H.is_call_to(c, 'typeutil::is_assignable'))
            act = next((c for c in H.calls_in(ia['args'][1]) if c.get('m') == 'type_desc'), None)
            rr = H.root_local(act['recv']) if act is not None else None
            # the right operand is the last argument of the emitted rvalue
            emitted = H.root_local(site['args'][-1])
            ok = rr is not None and emitted is not None and rr.get('hid') == emitted.get('hid')
        ck.ob('R5.6', 'assignable|%s' % name, ok, L.loc(site) if site else '', 'if !is_assignable(<target type>, &right.type_desc())? { return Err } dominates the store of `right`', fn=fn['path'])
    mc = builder_fn('visit_object_method_call')
    if mc is not None:
        ck.analysed(mc['path'])
        asg = [n for n in walk(mc['body']) if n.get('k') == 'Assign' and 'matched_index' in pp(n['l'])]
        ok = False
        if len(asg) == 1:
            conds = [a for a in H.ancestors(mc, asg[0]) if a.get('k') == 'If']
            cs = ' && '.join(pp(a['c'], maxlen=120) for a in conds)
            comp = next((s for s in H.binding_sites(mc).values() if s['kind'] == 'let' and s['node'].get('init') is not None and
                         any(H.is_call_to(c, 'typeutil::is_assignable') for c in H.calls_in(s['node']['init'])) and any(c.get('m') == 'zip' for c in H.calls_in(s['node']['init']))), None)
            cond_locals = {x.get('hid') for a in conds for x in walk(a['c']) if x.get('k') == 'Path' and x.get('res') == 'local'}
            eqs = [x for a in conds for x in walk(a['c']) if x.get('k') == 'Binary' and x.get('op') == 'Eq' and
                   {True} == {any(c.get('m') == 'arguments_len' for c in H.calls_in(x[s1])) or any(c.get('m') == 'len' for c in H.calls_in(x[s1])) for s1 in ('l', 'r')} and
                   any(c.get('m') == 'arguments_len' for c in H.calls_in(x)) and any(c.get('m') == 'len' for c in H.calls_in(x))]
            ok = bool(eqs) and comp is not None and comp['bind']['hid'] in cond_locals and \
                not any(x.get('k') == 'Unary' and x.get('op') == 'Not' and any(y.get('hid') == comp['bind']['hid'] for y in walk(x)) for a in conds for x in walk(a['c']))
        ck.ob('R5.6', 'method-arguments', ok, L.loc(asg[0]) if asg else '', 'an overload is chosen only if the argument count matches and every argument is_assignable to its parameter')
        site = next((n for n in walk(mc['body']) if n.get('k') == 'Call' and (n.get('def') or '').endswith('Rvalue::CallMethod')), None)
        iff = next((a for a in H.ancestors(mc, site) if a.get('k') == 'If' and a['c'].get('k') == 'LetCond' and 'matched_index' in pp(a['c']['e'])), None) if site else None
        ck.ob('R5.6', 'call-only-with-matched-overload', iff is not None, L.loc(site) if site else '', 'CallMethod is emitted under `if let Some(i) = matched_index`')
    # return-type verification before C++ evaluator construction
    n_v = 0
    for fn in L.fn_list:
        for c in H.calls_in(fn['body']):
            if H.is_call_to(c, 'CxxEvalExprFunction::build') and c.get('k') == 'Call' and fn['name'] != 'build_x':
                n_v += 1
                pm = H.parents(fn)
                gs = [g for g in H.calls_in(fn['body']) if H.is_call_to(g, 'verify_code_return_type') and H.some_guard_dominates(fn, g, c)]
                same = False
                for g in gs:
                    gc = (H.root_local(g['args'][1]) or {}).get('hid')
                    cc_ = [(H.root_local(a) or {}).get('hid') for a in c['args']]
                    same = same or gc in cc_
                ck.ob('R5.6', 'return-type-verified|%s' % short(fn['path']), bool(gs) and same, L.loc(c),
                      'verify_code_return_type(node, code, ty, ..)? dominates CxxEvalExprFunction::build for the same code' if gs and same else
                      'a C++ evaluator is built without verifying that the expression type is assignable to the property', fn=fn['path'])
    ck.floor('R5.6', n_v, 2, 'CxxEvalExprFunction::build call sites')
    vc = L.fn('uigen::objcode::verify_callback_parameter_type')
    if vc is not None:
        ck.analysed(vc['path'])
        ia = next((c for c in H.calls_in(vc['body']) if H.is_call_to(c, 'typeutil::is_concrete_assignable')), None)
        ok = False
        if ia is not None:
            cl = next((a for a in H.ancestors(vc, ia) if a.get('k') == 'Closure'), None)
            # closure |(ty, a)| : ty = signal argument type (actual), a = declared parameter (expected)
            binds = H.pat_bindings(cl['params'][0]) if cl else []
            a0 = ia['args'][0]
            a1 = ia['args'][1]
            exp_is_param = any(x.get('k') == 'Field' and x.get('f') == 'ty' for x in walk(a0)) and (H.root_local(a0) or {}).get('hid') == (binds[1]['hid'] if len(binds) > 1 else None)
            act_is_sig = (H.root_local(a1) or {}).get('hid') == (binds[0]['hid'] if binds else None)
            neg = H.parents(vc).get(id(ia), {}).get('k') == 'MCall' and any(x.get('k') == 'Unary' and x.get('op') == 'Not' for x in H.ancestors(vc, ia))
            ok = exp_is_param and act_is_sig and neg
        ck.ob('R5.6', 'callback-parameter-direction', ok, L.loc(ia) if ia else '', 'incompatible iff !is_concrete_assignable(<declared parameter type>, <signal argument type>)')
        gt = next((n for n in walk(vc['body']) if n.get('k') == 'If' and n['c'].get('k') == 'Binary' and n['c'].get('op') in ('Gt', 'Lt')), None)
        # `parameter_count > arguments_len()` or, the same test, `arguments_len() < parameter_count`
        big, small = (gt['c']['l'], gt['c']['r']) if gt is not None and gt['c']['op'] == 'Gt' else ((gt['c']['r'], gt['c']['l']) if gt is not None else ({}, {}))
        ok = gt is not None and H.strip_refs(big).get('k') == 'Field' and H.strip_refs(big).get('f') == 'parameter_count' and H.strip_refs(small).get('k') == 'MCall' and H.strip_refs(small).get('m') == 'arguments_len' and any(x.get('k') == 'Ret' and H.lit_value(x.get('e', {})) is False for x in walk(gt['then']))
        ck.ob('R5.6', 'callback-parameter-count', ok, L.loc(gt) if gt else '', 'more declared parameters than signal arguments => error, false')
    # const reassignment, unsupported statements: "None => diagnosed" covers them (C04 R4.1); check the const arm explicitly
    we = next((f for f in L.fn_list if f['path'] == 'typedexpr::walk_expr'), None)
    if we is not None:
        carm = next((a for n in walk(we['body']) if n.get('k') == 'Match' for a in n['arms'] if 'LexicalDeclarationKind::Const' in pp(a['pat'])), None)
        ok = carm is not None and bool(nonediag.pushes_in(L, carm['body'])) and not any(c.get('m') == 'visit_local_assignment' for c in H.calls_in(carm['body']))
        ck.ob('R5.6', 'const-reassignment-rejected', ok, L.loc(carm) if carm else '', 'assignment to a const local pushes an error and emits nothing')

    # statically evaluated values: the constant is used only after its type was verified against the property
    def ev_locals(fn):
        return {h: b for h, b in H.binding_sites(fn).items() if (L.ty(b['bind']) or '').split('<')[0].endswith('EvaluatedValue')}

    def guarded(fn, use):
        pm = H.parents(fn)
        for g in H.calls_in(fn['body']):
            if H.is_call_to(g, 'verify_code_return_type') and pm.get(id(g), {}).get('k') == 'Try' and H.lexically_precedes_dominating(fn, g, use):
                return True
        prev = use
        for a in H.ancestors(fn, use):
            if a.get('k') == 'If' and prev is a.get('then'):
                for c in walk(a['c']):
                    f = c.get('f') or {}
                    if c.get('k') == 'Call' and f.get('k') == 'Path' and f.get('res') == 'local' and pm.get(id(c), {}).get('k') == 'Try':
                        b = H.binding_sites(fn).get(f.get('hid'))
                        init = (b or {}).get('node', {}).get('init') if b and b['kind'] == 'let' else None
                        if init is not None and any(H.is_call_to(x, 'typeutil::is_assignable') for x in H.calls_in(init)) and not any(x.get('k') == 'Unary' and x.get('op') == 'Not' for x in walk(a['c'])):
                            return True
            prev = a
        return False
    needs = {}   # fn path -> set(param index) whose argument must already be verified by the caller
    uses = {}
    for fn in L.fn_list:
        if not fn['path'].startswith('uigen::'):
            continue
        evs = ev_locals(fn)
        if not evs:
            continue
        for n in walk(fn['body']):
            if n.get('k') == 'Path' and n.get('res') == 'local' and n.get('hid') in evs:
                uses.setdefault(fn['path'], []).append((fn, n, evs[n['hid']]))
    changed = True
    verdict = {}
    rounds = 0
    while changed and rounds < 10:
        changed = False
        rounds += 1
        for path, us in uses.items():
            for fn, n, b in us:
                ok = guarded(fn, n)
                why = 'dominated by verify_code_return_type(..)?'
                if not ok:
                    # passed on to a callee that verifies (or does not need verification) itself?
                    par = H.parents(fn).get(id(n), {})
                    if par.get('k') == 'Call':
                        cal = H.callee(par)
                        idx = next((i for i, a in enumerate(par['args']) if a is n), None)
                        if cal in L.fns and idx is not None and idx not in needs.get(cal, set()) and cal in uses:
                            ok = True
                            why = 'handed to %s, which verifies it' % short(cal)
                if not ok and b['kind'] == 'param':
                    if b['index'] not in needs.setdefault(path, set()):
                        needs[path].add(b['index'])
                        changed = True
                    ok = None
                    why = 'obligation moved to the callers'
                verdict[(path, id(n))] = (fn, n, ok, why)
    n_sv = 0
    for (path, _), (fn, n, ok, why) in sorted(verdict.items(), key=lambda kv: (kv[0][0], kv[1][1].get('sp', [0, 0])[1])):
        if ok is None:
            continue
        par = H.parents(fn).get(id(n), {})
        what = par.get('m') or short(H.callee(par) or '') or par.get('k', '?')
        ordn = sum(1 for (p2, _), v in verdict.items() if p2 == path and v[2] is not None and (v[1].get('sp') or [0, 0])[1] < (n.get('sp') or [0, 0])[1] and ((H.parents(fn).get(id(v[1]), {}).get('m') or short(H.callee(H.parents(fn).get(id(v[1]), {})) or '')) == what))
        n_sv += 1
        ck.ob('R5.6', 'static-value-verified|%s|%s#%d' % (short(path), what, ordn), bool(ok), L.loc(n),
              why if ok else 'the evaluated constant is used (%s) on a path where the expression type was never checked against the property type' % what, fn=path)
    ck.floor('R5.6', n_sv, 12, 'uses of statically evaluated values')
    vr = L.fn('uigen::expr::verify_code_return_type')
    if vr is not None:
        ck.analysed(vr['path'])
        somes = [v for v in H.return_exprs(vr['body']) if v.get('k') == 'Call' and (v.get('def') or '').endswith('Option::Some')]
        ok = len(somes) == 1
        why = '%d Some(()) exits' % len(somes)
        if ok:
            iff = next((a for a in H.ancestors(vr, somes[0]) if a.get('k') == 'If'), None)
            ia = next((c for c in H.calls_in(iff['c']) if H.is_call_to(c, 'typeutil::is_assignable')), None) if iff else None
            ok = ia is not None and not any(x.get('k') == 'Unary' and x.get('op') == 'Not' for x in walk(iff['c'])) and any(x is somes[0] for x in walk(iff['then']))
            if ok:
                e0 = H.root_local(ia['args'][0])
                a1 = H.root_local(ia['args'][1])
                bs = H.binding_sites(vr)
                pe = bs.get((e0 or {}).get('hid'))
                pa = bs.get((a1 or {}).get('hid'))
                ok = pe is not None and pe['kind'] == 'param' and pe['index'] == 2 and pa is not None and pa['kind'] == 'let' and \
                    any(c.get('m') == 'resolve_return_type' for c in H.calls_in(pa['node']['init']))
                why = 'Some(()) only under is_assignable(expected, &code.resolve_return_type(..)?)'
        ck.ob('R5.6', 'verify_code_return_type-shape', ok, L.loc(vr['body']), why)
    else:
        ck.floor('R5.6', 0, 1, 'fn verify_code_return_type')

    # ---- R5.7 accumulated return type ------------------------------------------------------------------------------------
    rr = L.fn('tir::core::CodeBody::resolve_return_type')
    if rr is None:
        ck.floor('R5.7', 0, 1, 'fn resolve_return_type')
    else:
        ck.analysed(rr['path'])
        dt = [c for c in H.calls_in(rr['body']) if H.is_call_to(c, 'typeutil::deduce_type')]
        ok = False
        why = '%d deduce_type calls' % len(dt)
        if len(dt) == 1:
            asg = next((a for a in H.ancestors(rr, dt[0]) if a.get('k') == 'Assign'), None)
            acc = H.root_local(asg['l']) if asg is not None else None
            a0 = H.root_local(dt[0]['args'][0])
            a0_direct = H.strip_refs(dt[0]['args'][0]).get('k') == 'Path'
            loop = next((a for a in H.ancestors(rr, dt[0]) if a.get('k') == 'For'), None)
            ok = acc is not None and a0 is not None and acc.get('hid') == a0.get('hid') and a0_direct and loop is not None
            why = 'known = deduce_type(known, a.type_desc()) inside the loop over the remaining returns' if ok else \
                'deduce_type is applied to `%s`, not to the accumulated type: incompatibilities among later returns are missed' % pp(dt[0]['args'][0], maxlen=40)
            if ok:
                it = pp(loop['iter'])
                ok = 'skip(1)' in it and 'operands' in it
                vals = list(H.value_exprs(next(a for a in H.ancestors(rr, loop) if a.get('k') == 'If')['then']))
                ok = ok and len(vals) == 1 and (H.root_local(vals[0]['args'][0]) or {}).get('hid') == acc.get('hid')
                why += '; loop over %s; result Some(known)' % it
        ck.ob('R5.7', 'accumulated-type-is-compared', ok, L.loc(dt[0]) if dt else '', why)
        flt = next((c for c in H.calls_in(rr['body']) if c.get('m') == 'filter_map'), None)
        ok = flt is not None and 'Terminator::Return' in pp(flt['args'][0]) and 'basic_blocks.iter()' in pp(flt['recv'])
        why = 'operands = all Terminator::Return operands of all blocks'
        if ok:
            # of ALL blocks: the emitter prints dead blocks too and the C++ compiler type-checks them, so no block may be left out
            # (no zip/filter/skip in front of the filter_map) and no Return may be dropped (no guard, no second condition)
            chain = []
            x = H.strip_refs(flt['recv'])
            while x.get('k') == 'MCall':
                chain.append(x.get('m'))
                x = H.strip_refs(x['recv'])
            cl = flt['args'][0]
            guards = [a for a in walk(cl) if a.get('k') == 'Arm' and 'guard' in a]
            conds = [n for n in walk(cl) if n.get('k') == 'If' and n['c'].get('k') != 'LetCond']
            lets = [n for n in walk(cl) if n.get('k') == 'LetCond']
            pat_ok = all('Terminator::Return' in pp(n['pat']) and not any(q.get('k') in ('PLit', 'PRange') for q in walk(n['pat'])) for n in lets)
            ok = chain == ['iter'] and not guards and not conds and pat_ok and x.get('k') == 'Field' and x.get('f') == 'basic_blocks'
            if not ok:
                why = 'the return operands are collected from %s with %s: a return that is left out is printed into the C++ function without having been checked against the result type' % (
                    'basic_blocks.' + '.'.join(reversed(chain)) + '()', 'a guarded arm' if guards else 'an extra condition' if conds else 'a narrowing pattern')
        ck.ob('R5.7', 'every-return-collected', ok, L.loc(flt) if flt else '', why)

    # ---- R5.6 lvalues: an element of a list can be assigned only if the list is a local variable ------------------------------------------------
    # every other subscripted object (a property, a method result, an element of another list) is a temporary copy in the generated code:
    # a write to it is lost. The kind is decided in the Subscript arm of walk_expr, per kind of the object expression.
    we = L.fn('typedexpr::walk_expr')
    if we is None:
        ck.floor('R5.6', 0, 1, 'fn typedexpr::walk_expr')
    else:
        tab = {}
        for mt in (n for n in walk(we['body']) if n.get('k') == 'Match'):
            arms = {}
            for a in mt['arms']:
                pt = pp(a['pat'], maxlen=80)
                mm_ = re.match(r'^Intermediate::(\w+)', pt)
                if not mm_:
                    continue
                vs = [H.strip_refs(v) for v in H.value_exprs(a['body'])]
                kinds = set()
                for v in vs:
                    if v.get('k') == 'Tup' and len(v['es']) == 2:
                        e1 = H.strip_refs(v['es'][1])
                        kinds.add((e1.get('def') or '').split('::')[-1] if e1.get('k') == 'Path' and 'ExprKind::' in (e1.get('def') or '') else 'other:' + pp(e1, maxlen=20))
                if kinds:
                    arms[mm_.group(1)] = sorted(kinds)
            if 'BoundSubscript' in arms and 'Local' in arms and len(arms) >= 4:
                tab = arms
                tab_node = mt
        want = {'Item': ['Rvalue'], 'Local': ['Lvalue'], 'BoundProperty': ['Rvalue'], 'BoundSubscript': ['Rvalue']}
        ck.ob('R5.6', 'subscript-lvalue-only-on-a-local', bool(tab) and all(tab.get(k_) == v_ for k_, v_ in want.items()) and all(v_ == ['Rvalue'] for k_, v_ in tab.items() if k_ != 'Local'),
              L.loc(tab_node) if tab else L.loc(we['body']),
              'subscript object kinds -> element kind: %s' % tab if tab and all(tab.get(k_) == v_ for k_, v_ in want.items()) else
              'the element of a subscript is an lvalue for an object that is not a local variable (%s): `rows[0][1] = v` / `obj.list[0] = v` is accepted and writes to a temporary copy' % (tab or 'table not found'), fn=we['path'])

    # ---- R5.12 a class named in an annotation is a pointer type exactly when it is a QObject ------------------------------------------------------
    ck.rule('R5.12', 'an annotated class type (`x: T`, `as T`, callback parameters) is T* exactly when T derives from QObject')
    ck.explanation += (' R5.12 wherever TypeKind::Pointer(NamedType::Class(..)) is built under a derivation test (arm guard or if), the test is is_derived_from(classes.object). '
                       'R5.9 also re-files the C01 R1.12 ast-kind obligations: a grammar node kind builds the AST variant named after it, so no unsupported construct is read as a supported one.')
    n_p = 0
    for fn in L.fn_list:
        if fn.get('body') is None or '::tests::' in fn['path']:
            continue
        for c in H.calls_in(fn['body']):
            if not (c.get('k') == 'Call' and (c.get('def') or '').endswith('TypeKind::Pointer') and c['args']):
                continue
            a0 = H.strip_refs(c['args'][0])
            if not (a0.get('k') == 'Call' and (a0.get('def') or '').endswith('NamedType::Class')):
                continue
            # the derivation tests that decide this construction: arm guards and if-conditions around it
            tests = []
            for a in H.ancestors(fn, c):
                conds = []
                if a.get('k') == 'Arm' and a.get('guard') is not None and any(x is c for x in walk(a['body'])):
                    conds.append(a['guard'])
                if a.get('k') == 'If' and any(x is c for x in walk(a['then'])):
                    conds.append(a['c'])
                for cd in conds:
                    # a test bound to a local first (`let is_object = cls.is_derived_from(..); if is_object {..}`) is read through the let
                    srcs = [cd]
                    for x in walk(cd):
                        if x.get('k') == 'Path' and x.get('res') == 'local':
                            b_ = H.binding_sites(fn).get(x.get('hid')) or {}
                            if b_.get('kind') == 'let' and b_['node'].get('init') is not None and 'bool' == (L.ty(x) or ''):
                                srcs.append(b_['node']['init'])
                    for x in (y for s_ in srcs for y in walk(s_)):
                        if x.get('k') == 'MCall' and x.get('m') == 'is_derived_from' and x['args']:
                            f_ = H.strip_refs(x['args'][0])
                            tests.append(f_.get('f') if f_.get('k') == 'Field' and 'KnownClasses' in (f_.get('adt') or '') else pp(f_, maxlen=30))
            if not tests:
                continue
            n_p += 1
            ck.ob('R5.12', 'pointer-iff-qobject|%s' % short(fn['path']), tests == ['object'], L.loc(c),
                  'Pointer(Class(..)) is built under is_derived_from(classes.object)' if tests == ['object'] else
                  'Pointer(Class(..)) is built under a derivation test against %s, not against QObject: QObject classes outside that family are typed as values '
                  '(`function(a: QAction)` no longer matches QAction*, `x as QObject` is refused) and the other classes as before' % tests, fn=fn['path'])
    ck.floor('R5.12', n_p, 1, 'guarded constructions of TypeKind::Pointer(NamedType::Class(..))')

    # ---- shared obligations: places outside the type checker that decide whether its verdict is reached at all -------------------------------
    import core as _core
    import rules.c01 as c01
    s1 = _core.Shared(ck, 'R5.9', lambda r, k: r == 'R1.1' or (r == 'R1.12' and k.startswith('ast-kind|')), 'C01:', ' [a token mapped to another operator is typed as that operator: an undocumented one is accepted]')
    c01.run(s1)
    ck.floor('R5.9', s1.count, 38, 'shared C01 R1.1 obligations')
    import rules.c06 as c06
    s6 = _core.Shared(ck, 'R5.10', lambda r, k: r == 'R6.4', 'C06:', ' [a live block wrongly marked unreachable loses its implicit `return void`, and a body with a value on one path and none on another passes the return type check]')
    c06.run(s6)
    ck.floor('R5.10', s6.count, 8, 'shared C06 R6.4 obligations')
    import rules.c14 as c14
    s14 = _core.Shared(ck, 'R5.11', lambda r, k: r == 'R14.5' and k.startswith(('cli-flag', 'generate-ui-never-omits', 'preview-uses-omit')), 'C14:',
                       ' [Omit drops non-constant bindings without looking at them: their result type and writability are never checked]')
    c14.run(s14)
    ck.floor('R5.11', s14.count, 4, 'shared C14 R14.5 obligations')
    # which bindings count as constant (and are therefore never handed to the result-type check of the code-generation pass): C02 R2.5
    import rules.c02 as c02
    s2 = _core.Shared(ck, 'R5.11', lambda r, k: r == 'R2.5' and k.startswith('map-constant-iff-all-children'), 'C02:',
                      ' [a grouped binding that counts as constant although one member is dynamic is skipped by both passes: that member is never type-checked]')
    c02.run(s2)
    ck.floor('R5.11', s14.count + s2.count, 5, 'shared C14 R14.5 / C02 R2.5 obligations')
