"""C09: the .ui is well-formed, grammar-conformant XML that preserves strings."""
import re
from facts import walk, short, pp, children
import hirutil as H
from core import load_oracle, load_table

LEVEL = 'other'
TECHNIQUE = 'closed-world who-may-call over quick-xml API (type-resolved generic args), paired-event typestate (Start/End stack) over structured HIR, constant provenance of tag/attribute names against a ui4.xsd vocabulary'
LEVEL_TEXT = ('Decides, for every serializer function and every quick-xml call site in the library: text and attribute values only go '
              'through the escaping constructors (BytesText::new, (&str,&str) attributes) and no raw/CDATA/comment/PI/doctype events or '
              'raw writer access exist; Start/End events are balanced on the same tag variable along every non-error path (loops and '
              'branches included); string-valued elements always emit exactly Start,Text,End unconditionally; each property element '
              'contains exactly one value serialization; constant element and attribute names belong to the Qt Designer vocabulary and '
              'the <ui version="4.0"><class/><widget/>[<customwidgets/>] frame is emitted in that order. These are necessary for '
              'well-formedness and string fidelity on every document, including the gadget/attribute paths no snapshot covers.')
LEVEL_NOTE = ('Trusted: quick-xml escaping and writer; rustc typeck (generic args of push_attribute/with_attributes). Not decided: full '
              'ui4.xsd conformance of data-dependent child tags (lower-cased gadget property names), uic acceptance.')
DESIGN_REF = 'DESIGN.md section 4, C09'

ALLOWED_QX = {
    'Writer::write_event', 'Writer::get_mut', 'Writer::new', 'Writer::new_with_indent',
    'BytesStart::new', 'BytesStart::borrow', 'BytesStart::to_end', 'BytesStart::push_attribute', 'BytesStart::with_attributes',
    'BytesText::new', 'Event::Start', 'Event::End', 'Event::Empty', 'Event::Text',
}
ATTR_ITEM_OK = re.compile(r"^\(&'?\{?[a-z_]*\}? ?str, &'?\{?[a-z_]*\}? ?str\)$")


def last2(p):
    segs = (p or '').split('::')
    return '::'.join(segs[-2:])


def qx_nodes(fn):
    for n in walk(fn['body']):
        d = n.get('inst') or n.get('def') or ''
        if 'quick_xml' in d and n.get('k') in ('Call', 'MCall', 'Struct', 'Path', 'PTS', 'PPath', 'PStruct'):
            yield n, d


def event_of(call):
    """For writer.write_event(ARG): (kind, tag_hid or None, arg node)."""
    if not (call.get('k') == 'MCall' and call.get('m') == 'write_event' and call['args']):
        return None
    a = H.strip_refs(call['args'][0])
    if a.get('k') == 'Call' and 'quick_xml' in (a.get('def') or '') and '::Event::' in (a.get('def') or ''):
        kind = a['def'].split('::')[-1]
        inner = a['args'][0] if a['args'] else None
        rl = H.root_local(inner) if inner is not None else None
        return kind, (rl.get('hid') if rl is not None else None), a
    return 'Unknown', None, a


class Balance:
    """Abstract execution of a serializer body over the stack of open tags."""

    def __init__(self, crate, fn, report):
        self.crate = crate
        self.fn = fn
        self.report = report
        self.events = 0
        self.pairs = 0

    def seq(self, node, stack):
        """Evaluate node; returns the resulting stack (list) or None if control never continues."""
        k = node.get('k')
        if k == 'Block':
            for s in node.get('stmts', []):
                if s.get('k') == 'Let':
                    if 'init' in s:
                        stack = self.seq(s['init'], stack)
                        if stack is None:
                            return None
                else:
                    stack = self.seq(s['e'], stack)
                    if stack is None:
                        return None
            if 'e' in node:
                stack = self.seq(node['e'], stack)
            return stack
        if k == 'If':
            stack = self.seq(node['c'], stack)
            if stack is None:
                return None
            a = self.seq(node['then'], list(stack))
            b = self.seq(node['els'], list(stack)) if 'els' in node else list(stack)
            return self.merge([a, b], node)
        if k == 'Match':
            stack = self.seq(node['e'], stack)
            if stack is None:
                return None
            outs = [self.seq(arm['body'], list(stack)) for arm in node['arms']]
            return self.merge(outs, node)
        if k in ('For', 'Loop'):
            if k == 'For':
                stack = self.seq(node['iter'], stack)
                if stack is None:
                    return None
            out = self.seq(node['body'], list(stack))
            if out is not None and out != stack:
                self.report('loop-body-unbalanced', node, 'loop body leaves %d open element(s) per iteration' % (len(out) - len(stack)))
            return stack
        if k == 'Closure':
            out = self.seq(node['body'], [])
            if out:
                self.report('closure-unbalanced', node, 'closure leaves open elements')
            return stack
        if k == 'Ret':
            if 'e' in node:
                stack = self.seq(node['e'], stack)
            e = node.get('e')
            is_err = e is not None and e.get('k') == 'Call' and (e.get('def') or '').endswith('Result::Err')
            if stack and not is_err:
                self.report('return-with-open-elements', node, 'returns with %d open element(s)' % len(stack))
            return None
        if k in ('Break', 'Continue'):
            return stack
        ev = event_of(node)
        if ev is not None:
            # evaluate receiver/args first (no nested events expected)
            kind, hid, arg = ev
            self.events += 1
            if kind == 'Start':
                stack = stack + [hid]
            elif kind == 'End':
                if not stack:
                    self.report('end-without-start', node, 'End event with no open element')
                else:
                    top = stack[-1]
                    if top != hid or hid is None:
                        self.report('end-mismatch', node, 'End event closes a different tag variable than the innermost open one')
                    else:
                        self.pairs += 1
                    stack = stack[:-1]
            elif kind in ('Empty', 'Text'):
                pass
            else:
                self.report('unknown-event', node, 'write_event with an unrecognised event expression: ' + pp(arg, maxlen=60))
            return stack
        for c in children(node):
            if c.get('k') in ('Bind', 'Wild', 'PTS', 'PTup', 'PStruct', 'PRef', 'POr', 'PLit', 'PPath'):
                continue
            stack = self.seq(c, stack)
            if stack is None:
                return None
        return stack

    def merge(self, outs, node):
        live = [o for o in outs if o is not None]
        if not live:
            return None
        for o in live[1:]:
            if o != live[0]:
                self.report('branches-disagree', node, 'branches leave different sets of open elements')
        return live[0]


def emit_actions(body):
    """Flat ordered list of XML-emitting actions in a straight-line body: ('start', hid) ('end', hid) ('text',) ('empty',)
    ('call', name, node) for calls into other serializers; ('cond', node) when an emitting action sits under a condition."""
    out = []

    def visit(n, cond):
        k = n.get('k')
        ev = event_of(n)
        if ev is not None:
            kind, hid, _ = ev
            out.append((kind.lower(), hid, cond, n))
            return
        if k in ('Call', 'MCall'):
            nm = n.get('m') or short(H.callee_decl(n) or '').split('::')[-1]
            if nm.startswith('serialize_') or nm in ('write_tagged_str',):
                for a in H.call_args(n):
                    visit(a, cond)
                out.append(('call', nm, cond, n))
                return
        if k == 'If':
            visit(n['c'], cond)
            visit(n['then'], cond + (('if', id(n), 0),))
            if 'els' in n:
                visit(n['els'], cond + (('if', id(n), 1),))
            return
        if k == 'Match':
            visit(n['e'], cond)
            for i, a in enumerate(n['arms']):
                visit(a['body'], cond + (('arm', id(n), i),))
            return
        if k in ('For', 'Loop'):
            if k == 'For':
                visit(n['iter'], cond)
            visit(n['body'], cond + (('loop', id(n), 0),))
            return
        if k == 'Block':
            for s in n.get('stmts', []):
                if s.get('k') == 'Let':
                    if 'init' in s:
                        visit(s['init'], cond)
                else:
                    visit(s['e'], cond)
            if 'e' in n:
                visit(n['e'], cond)
            return
        for c in children(n):
            if c.get('k') in ('Bind', 'Wild', 'PTS', 'PTup', 'PStruct', 'PRef', 'POr', 'PLit', 'PPath'):
                continue
            visit(c, cond)

    visit(body, ())
    return out


def run(ck):
    if getattr(ck, 'depth', 0) >= 2:
        return      # a shared run of a shared run: nothing of it is selected, and mutual sharing must end somewhere
    F = ck.facts
    L = F.lib
    vocab = load_oracle('qt_ui_elements.json')
    elements = set(vocab['elements']) | set(vocab['documented_extensions'])
    attrs_ok = set(vocab['attributes'])
    table = load_table('xml_exceptions.json')
    dyn_ok = {(r['fn'], r['what']): r for r in table['data_dependent_names']}
    ck.explanation = (
        'R9.1 closed world over quick-xml: every call/constructor resolving into quick_xml in the library is one of the escaping API '
        'set; push_attribute/with_attributes are instantiated only at (&str,&str) items; the one raw write through get_mut() writes the '
        'constant b"\\n" after the root End. R9.2 Start/End typestate: abstract execution of each serializer body with a stack of tag '
        'variables; branches must agree, loop bodies must be balanced, End must close the innermost open tag variable, stack empty at '
        'exit. R9.2t string elements: in write_tagged_str and the String arm of SimpleValue::serialize_to_xml_as the sequence is exactly '
        'Start, Text, End with nothing conditional. R9.3 each property/colorrole loop body emits Start, one value serialization, End. '
        'R9.4 every constant element/attribute name is in oracles/qt_ui_elements.json; data-dependent names are reviewed rows; the '
        'ui/class/widget/customwidgets frame order is checked in UiForm::serialize_to_xml.')
    ck.rule('R9.1', 'all XML text/attributes go through escaping quick-xml constructors; no raw events or raw writer access')
    ck.rule('R9.2', 'Start/End events are balanced on the same tag on every path of every serializer')
    ck.rule('R9.2t', 'string-valued elements emit exactly Start, Text, End unconditionally')
    ck.rule('R9.3', 'each property-like element contains exactly one value serialization')
    ck.rule('R9.4', 'element and attribute names come from the Qt Designer vocabulary; document frame order')
    ck.rule('R9.6', 'string literals are decoded before they are embedded (shared with C03 R3.1)')
    ck.rule('R9.5', 'the file on disk is exactly the serializer output: written to a fresh temp file and renamed, an existing file kept only if it holds the same bytes (shared with C15 R15.2/R15.3/R15.4)')

    # ---- R9.1 ---------------------------------------------------------------
    n_qx = 0
    ordn = {}
    for crate in (F.lib,):
        for fn in crate.fn_list:
            for n, d in qx_nodes(fn):
                if n.get('k') == 'Path':
                    # a path used as a value (fn item / ctor): counted through its Call parent, but a bare use (e.g. passed to map) is checked here
                    pass
                key2 = last2(d)
                n_qx += 1
                fshort = short(fn['path'])
                base = '%s|%s' % (fshort, key2)
                i = ordn.get(base, 0)
                ordn[base] = i + 1
                ok = key2 in ALLOWED_QX
                ck.ob('R9.1', base if not i else '%s#%d' % (base, i + 1), ok, crate.loc(n),
                      'escaping API' if ok else 'quick-xml API `%s` is outside the escaping set (raw/unescaped or unreviewed constructor)' % d,
                      nontrivial=(i == 0), fn=fn['path'])
                if n.get('k') == 'MCall' and n.get('m') in ('push_attribute', 'with_attributes', 'extend_attributes'):
                    ga = n.get('ga') or ''
                    # last generic arg is the attribute item (or array of items)
                    m = re.search(r"\[\(&'\{erased\} str, &'\{erased\} str\); \d+_usize\]\]$|, \(&'\{erased\} str, &'\{erased\} str\)\]$", ga)
                    ck.ob('R9.1', '%s|attr-item-type%s' % (fshort, '' if not i else '#%d' % (i + 1)), bool(m), crate.loc(n),
                          'attribute items are (&str, &str): quick-xml escapes the value' if m else
                          'attribute pushed with item type `%s`: only (&str, &str) items are escaped by quick-xml' % ga,
                          nontrivial=(i == 0), fn=fn['path'])
                if n.get('k') == 'MCall' and n.get('m') in ('get_mut', 'inner', 'into_inner', 'get_ref'):
                    # raw access: parent must be write_all(b"\n")
                    par = H.parents(fn).get(id(n))
                    ok = (par is not None and par.get('k') == 'MCall' and par.get('m') == 'write_all' and par['args']
                          and H.strip_refs(par['args'][0]).get('hex') == '0a' and fshort == 'UiForm::serialize_to_xml')
                    ck.ob('R9.1', '%s|raw-writer-access' % fshort, ok, crate.loc(n),
                          'raw write is the constant b"\\n" after the root element' if ok else 'raw access to the underlying writer bypasses escaping: ' + pp(par or n, maxlen=80), fn=fn['path'])
    ck.floor('R9.1', n_qx, 150, 'quick-xml API uses in the library')
    # the CLI only constructs writers
    for n, d in ((n, d) for fn in F.bin.fn_list for n, d in qx_nodes(fn)):
        ck.ob('R9.1', 'bin|%s' % last2(d), last2(d) in ('Writer::new', 'Writer::new_with_indent'), F.bin.loc(n), 'CLI only constructs the writer', nontrivial=False)

    # ---- R9.2 balance ---------------------------------------------------------
    serializers = [fn for fn in L.fn_list if any(event_of(n) is not None for n in H.calls_in(fn['body']))]
    ck.floor('R9.2', len(serializers), 15, 'functions writing XML events')
    total_pairs = 0
    for fn in serializers:
        problems = []
        bal = Balance(L, fn, lambda kind, node, msg: problems.append((kind, node, msg)))
        end = bal.seq(fn['body'], [])
        if end:
            problems.append(('open-at-exit', fn['body'], '%d element(s) still open at function exit' % len(end)))
        total_pairs += bal.pairs
        fshort = short(fn['path'])
        ck.ob('R9.2', 'balanced|%s' % fshort, not problems, L.loc(fn['body']),
              '%d events, %d Start/End pairs matched on the same tag variable' % (bal.events, bal.pairs) if not problems else
              '; '.join('%s at %s: %s' % (k, L.loc(n), m) for k, n, m in problems[:3]), fn=fn['path'])
    ck.floor('R9.2', total_pairs, 16, 'matched Start/End pairs')

    # ---- R9.2t string elements --------------------------------------------------
    text_sites = 0
    for fn in serializers:
        acts = emit_actions(fn['body'])
        for idx, a in enumerate(acts):
            if a[0] == 'text':
                text_sites += 1
                prev = acts[idx - 1] if idx > 0 else None
                nxt = acts[idx + 1] if idx + 1 < len(acts) else None
                ok = (prev is not None and nxt is not None and prev[0] == 'start' and nxt[0] == 'end' and prev[1] == nxt[1]
                      and prev[2] == a[2] == nxt[2])
                ck.ob('R9.2t', 'start-text-end|%s' % short(fn['path']), ok, L.loc(a[3]),
                      'Text sits directly between Start and End of the same tag under the same condition' if ok else
                      'Text event is not unconditionally wrapped by Start/End of one tag (an omitted or conditional Text changes the string read back)', fn=fn['path'])
                # the text content is the value itself (no transformation)
                t = a[3]['args'][0]
                tn = H.strip_refs(t)
                inner = tn['args'][0] if tn.get('k') == 'Call' and tn.get('args') else None
                if inner is not None and inner.get('k') == 'Call':  # Event::Text(BytesText::new(x))
                    x = inner['args'][0] if inner.get('args') else None
                    calls = [c.get('m') for c in H.calls_in(x)] if x is not None else ['?']
                    ok2 = all(c in ('as_ref', 'as_str', 'borrow', 'deref') for c in calls)
                    ck.ob('R9.2t', 'text-is-the-value|%s' % short(fn['path']), ok2, L.loc(a[3]), 'text content expression: %s' % pp(x, maxlen=60), fn=fn['path'])
    ck.floor('R9.2t', text_sites, 2, 'Text event sites')

    # ---- R9.3 one value per property ----------------------------------------------
    n_loops = 0
    for fn in serializers:
        for loop in (n for n in walk(fn['body']) if n.get('k') == 'For'):
            acts = emit_actions(loop['body'])
            kinds = [a[0] for a in acts]
            if 'start' not in kinds:
                continue
            n_loops += 1
            calls = [a for a in acts if a[0] == 'call']
            ok = kinds == ['start', 'call', 'end'] and acts[0][1] == acts[2][1] and calls[0][1] in ('serialize_to_xml', 'serialize_to_xml_as') and len(set(a[2] for a in acts)) == 1
            ck.ob('R9.3', 'one-value|%s' % short(fn['path']), ok, L.loc(loop),
                  'loop body emits Start, exactly one value serialization (%s), End' % calls[0][1] if ok else 'loop body emits %s' % kinds, fn=fn['path'])
    ck.floor('R9.3', n_loops, 4, 'property-like loops')

    # ---- R9.4 vocabulary -------------------------------------------------------------
    TAG_PARAM = {'write_tagged_str': 1, 'serialize_to_xml_as': 1, 'serialize_properties_to_xml': 1, 'serialize_string_list_to_xml': 1}
    n_const = 0
    seen_names = set()

    def check_tag_expr(fn, e, where):
        nonlocal n_const
        for o in H.origins(fn, e):
            oo = H.strip_refs(o)
            while oo.get('k') == 'MCall' and oo.get('m') in ('as_ref', 'as_str', 'borrow', 'deref', 'to_owned', 'to_string'):
                oo = H.strip_refs(oo['recv'])
                sub = H.origins(fn, oo)
                if len(sub) == 1:
                    oo = H.strip_refs(sub[0])
            if oo.get('k') == 'Lit' and oo.get('lk') == 'str':
                n_const += 1
                seen_names.add(oo['v'])
                ck.ob('R9.4', 'element|%s' % oo['v'], oo['v'] in elements, L.loc(o),
                      'in the Designer vocabulary' if oo['v'] in elements else 'element name "%s" is not in the Qt Designer form vocabulary' % oo['v'], fn=fn['path'])
            elif oo.get('k') == 'Bind' and H.binding_sites(fn).get(oo.get('hid'), {}).get('kind') == 'param':
                pass  # forwarded parameter: checked at the callers
            elif oo.get('k') == 'MCall' and oo.get('m') == 'as_tag_name':
                pass  # checked through the as_tag_name table below
            else:
                key = (short(fn['path']), pp(oo, maxlen=40))
                ok = key in dyn_ok
                ck.ob('R9.4', 'data-dependent-element|%s|%s' % key, ok, L.loc(o),
                      ('reviewed: ' + dyn_ok[key]['reason']) if ok else 'element name computed from `%s` (not a constant, not reviewed)' % pp(oo, maxlen=60), fn=fn['path'])

    for fn in L.fn_list:
        if fn.get('x') in ('Clone', 'Debug'):
            continue
        for c in H.calls_in(fn['body']):
            d = H.callee_decl(c) or ''
            nm = c.get('m') or short(d).split('::')[-1]
            if last2(d) == 'BytesStart::new' and c['args']:
                check_tag_expr(fn, c['args'][0], 'BytesStart::new')
            elif nm in TAG_PARAM and ('uigen::' in d):
                args = H.call_args(c) if c.get('k') == 'MCall' else c['args']
                idx = TAG_PARAM[nm] + (1 if c.get('k') == 'MCall' else 0)
                if idx < len(args):
                    check_tag_expr(fn, args[idx], nm)
            # attribute names
            if c.get('k') == 'MCall' and c.get('m') in ('push_attribute', 'with_attributes') and 'quick_xml' in d:
                tuples = [t for t in walk(c['args'][0]) if t.get('k') == 'Tup' and len(t['es']) == 2] if c['args'] else []
                for t in tuples:
                    name = H.strip_refs(t['es'][0])
                    if name.get('k') == 'Lit':
                        n_const += 1
                        ck.ob('R9.4', 'attribute|%s' % name['v'], name['v'] in attrs_ok, L.loc(t),
                              'in the Designer attribute vocabulary' if name['v'] in attrs_ok else 'attribute name "%s" not in vocabulary' % name['v'], fn=fn['path'])
                    elif name.get('k') == 'Path' and H.binding_sites(fn).get(name.get('hid'), {}).get('kind') == 'param':
                        # the name is a parameter of a helper: every caller must hand in a constant of the vocabulary
                        pi = H.binding_sites(fn)[name['hid']]['index']
                        callers = [(f2, c2) for f2 in L.fn_list for c2 in H.calls_in(f2['body']) if (H.callee(c2) or H.callee_decl(c2)) == fn['path']]
                        if not callers:
                            ck.ob('R9.4', 'data-dependent-attribute|%s|%s' % (short(fn['path']), pp(name, maxlen=40)), False, L.loc(t), 'attribute name is a parameter and no caller was found', fn=fn['path'])
                        for f2, c2 in callers:
                            a2 = H.call_args(c2)
                            v2 = H.lit_value(a2[pi]) if pi < len(a2) else None
                            if isinstance(v2, str):
                                n_const += 1
                                ck.ob('R9.4', 'attribute|%s' % v2, v2 in attrs_ok, L.loc(c2),
                                      'in the Designer attribute vocabulary (handed to %s)' % fn['name'] if v2 in attrs_ok else 'attribute name "%s" not in vocabulary' % v2, fn=f2['path'])
                            else:
                                ck.ob('R9.4', 'data-dependent-attribute|%s|%s' % (short(f2['path']), pp(a2[pi], maxlen=40) if pi < len(a2) else '?'), False, L.loc(c2),
                                      'attribute name handed to %s is not a constant' % fn['name'], fn=f2['path'])
                    else:
                        key = (short(fn['path']), pp(name, maxlen=40))
                        ok = key in dyn_ok
                        ck.ob('R9.4', 'data-dependent-attribute|%s|%s' % key, ok, L.loc(t),
                              ('reviewed: ' + dyn_ok[key]['reason']) if ok else 'attribute name computed from `%s`' % pp(name, maxlen=60), fn=fn['path'])
        # tables of tag names: fns named as_tag_name and the tag_name match in SimpleValue::serialize_to_xml
        if fn['name'] == 'as_tag_name' or fn['path'].endswith('SimpleValue::serialize_to_xml'):
            for m in (n for n in walk(fn['body']) if n.get('k') == 'Match'):
                for arm in m['arms']:
                    for v in H.value_exprs(arm['body']):
                        if v.get('k') == 'Lit' and v.get('lk') == 'str':
                            n_const += 1
                            seen_names.add(v['v'])
                            ck.ob('R9.4', 'element|%s' % v['v'], v['v'] in elements, L.loc(v),
                                  'in the Designer vocabulary' if v['v'] in elements else 'element name "%s" is not in the Qt Designer form vocabulary' % v['v'], fn=fn['path'])
    ck.floor('R9.4', n_const, 40, 'constant element/attribute names')
    ck.extra['element_names_seen'] = sorted(seen_names)

    # frame order in UiForm::serialize_to_xml
    uf = L.fn('uigen::form::UiForm::serialize_to_xml')
    if uf is None:
        ck.floor('R9.4', 0, 1, 'fn UiForm::serialize_to_xml')
    else:
        acts = emit_actions(uf['body'])
        sig = []
        for a in acts:
            if a[0] == 'call':
                recv = a[3].get('recv') if a[3].get('k') == 'MCall' else (a[3]['args'][1] if len(a[3].get('args', [])) > 1 else None)
                what = ''
                if a[1] == 'write_tagged_str':
                    tagv = H.lit_value(a[3]['args'][1])
                    fld = [x.get('f') for x in walk(a[3]['args'][2]) if x.get('k') == 'Field']
                    what = 'tagged:%s=%s' % (tagv, ','.join(fld))
                else:
                    fld = [x.get('f') for x in walk(a[3]['recv'])] if a[3].get('k') == 'MCall' else []
                    what = 'ser:%s' % ','.join(f for f in fld if f)
                sig.append(what + ('?' if a[2] else ''))
            else:
                sig.append(a[0] + ('?' if a[2] else ''))
        # (a non-empty condition path marks conditional emission)
        expect_prefix = ['start', 'tagged:class=class', 'ser:root_widget']
        ck.ob('R9.4', 'frame-order', sig[:3] == expect_prefix and sig[-1] == 'end' and 'ser:root_widget' not in sig[3:], L.loc(uf['body']),
              'emission order in UiForm::serialize_to_xml: %s' % sig)
        # version attribute
        va = [t for t in walk(uf['body']) if t.get('k') == 'Tup' and len(t['es']) == 2 and H.lit_value(t['es'][0]) == 'version']
        ck.ob('R9.4', 'ui-version-4.0', len(va) == 1 and H.lit_value(va[0]['es'][1]) == '4.0', L.loc(uf['body']), 'ui carries version="4.0"')
        # the root tag is "ui"
        first_start = next((a for a in acts if a[0] == 'start'), None)
        if first_start is not None:
            bs = H.binding_sites(uf).get(first_start[1])
            init = bs['node'].get('init') if bs and bs['kind'] == 'let' else None
            lits = [x['v'] for x in walk(init) if x.get('k') == 'Lit' and x.get('lk') == 'str'] if init else []
            ck.ob('R9.4', 'root-is-ui', lits[:1] == ['ui'], L.loc(uf['body']), 'root element literal(s): %s' % lits[:3])
    # widget/layout/action/spacer carry class+name from their own fields
    for path, expect in (('uigen::object::Widget::serialize_to_xml', {'class': 'class', 'name': 'name'}),
                         ('uigen::layout::Layout::serialize_to_xml', {'class': 'class', 'name': 'name'}),
                         ('uigen::object::Action::serialize_to_xml', {'name': 'name'}),
                         ('uigen::layout::SpacerItem::serialize_to_xml', {'name': 'name'})):
        fn = L.fn(path)
        if fn is None:
            ck.floor('R9.4', 0, 1, 'fn ' + path)
            continue
        got = {}
        for t in walk(fn['body']):
            if t.get('k') == 'Tup' and len(t['es']) == 2:
                nm = H.lit_value(t['es'][0])
                if nm in expect and nm not in got:
                    flds = [x.get('f') for x in walk(t['es'][1]) if x.get('k') == 'Field']
                    got[nm] = flds[0] if flds else None
        ck.ob('R9.4', 'identity-attributes|%s' % short(path), got == expect, L.loc(fn['body']), 'attribute -> field: %s' % got, fn=path)

    # ---- R9.5 the bytes on disk are the serializer's bytes (fresh file + rename; no in-place partial overwrite) ----
    import core as _core
    import rules.c15 as c15
    sub = _core.Check('C15', ck.tier, ck.facts)
    sub.depth = getattr(ck, 'depth', 0) + 1
    c15.run(sub)
    n5 = 0
    for o in sub.obligations:
        if o['rule'] in ('R15.2', 'R15.3') or (o['rule'] == 'R15.4' and o['key'].endswith('|skipped-only-if-same-bytes')) or \
                (o['rule'] == 'R15.5' and (o['key'] in ('ui-path-gets-form-xml', 'both-outputs-written') or o['key'].startswith('buffer-starts-empty|'))):
            n5 += 1
            ck.ob('R9.5', '%s|%s' % (o['rule'], o['key']), o['ok'], o['loc'], o['detail'], nontrivial=False)
    ck.floor('R9.5', n5, 19, 'writer-protocol obligations shared with C15')

    # ---- R9.6 what is embedded is the decoded string (C03 R3.1 on the same facts) ----------------------------------------------------
    import rules.c03 as c03
    s3 = _core.Shared(ck, 'R9.6', lambda r, k: r == 'R3.1', 'C03:', ' [an undecoded escape sequence reaches the .ui as backslash text]')
    c03.run(s3)
    ck.floor('R9.6', s3.count, 10, 'shared C03 R3.1 obligations')

    # a constant string expression is folded before it is written: the concatenation table (C01 R1.2)
    import rules.c01 as c01
    ck.rule('R9.7', 'constant string expressions fold to the concatenation the source denotes (shared with C01)')
    s1 = _core.Shared(ck, 'R9.7', lambda r, k: r == 'R1.2' and k.startswith('binary_arith|') and ('|CString|' in k or '|QString|' in k), 'C01:', ' [`"" + "x"` must be written as x]')
    c01.run(s1)
    ck.floor('R9.7', s1.count, 1, 'shared C01 R1.2 string folding obligations')
