"""C19: colour strings are read the way Qt reads them."""
import re
from facts import walk, short, pp
import hirutil as H
from core import load_oracle

LEVEL = 'proof'
TECHNIQUE = 'literal-table comparison against an external SVG keyword oracle, decision-chain shape check of the parser, bit-provenance abstract interpretation of the hex arms, field-to-element tables'
LEVEL_TEXT = ('For the finite parts this is exhaustive: all 147 keyword rows are compared with an oracle that does not come from the '
              'repository; each constructor argument of the four hex arms is evaluated on a bit-provenance domain (each result bit is 0, 1 '
              'or "bit i of the parsed number") and must equal the nibble/byte the #rgb/#argb/#rrggbb/#aarrggbb formats assign, short '
              'digits doubled; the lookup chain is checked to be: "#" => hex only, transparent (ASCII case-insensitive) => rgba(0,0,0,0), '
              'exact or ASCII-lower-cased keyword => that row, anything else => Err; the string reaches the parser untransformed; opaque '
              'colours get alpha 255 and channel fields map to like-named elements. Tests sample 4 keywords and 6 hex strings.')
LEVEL_NOTE = ('Trusted: oracles/svg_colors.json (provenance inside the file), u32::from_str_radix, rustc constant evaluation of literals. '
              'The clause "Qt assigns the same values" rests on Qt using the SVG table and the same hex layouts (QColor::setNamedColor).')
DESIGN_REF = 'DESIGN.md section 4, C19'


# ---------------------------------------------------------------------------
# bit-provenance domain


def bits_const(v, n=32):
    return [(v >> i) & 1 for i in range(n)]


def abs_eval(e, var_hid):
    """Abstract value of e as a list of 32 bit descriptors (0, 1, ('b', i)) or None when outside the domain."""
    e = H.strip_refs(e) if e.get('k') in ('AddrOf',) else e
    k = e.get('k')
    if k == 'Lit' and isinstance(e.get('v'), int):
        return bits_const(e['v'])
    if k == 'Path' and e.get('res') == 'local' and e.get('hid') == var_hid:
        return [('b', i) for i in range(32)]
    if k == 'Cast':
        v = abs_eval(e['e'], var_hid)
        if v is None:
            return None
        return v[:8] + [0] * 24  # `as u8` keeps the low byte (the rule asserts the target type is u8 separately)
    if k == 'Binary':
        op = e.get('op')
        l = abs_eval(e['l'], var_hid)
        r = abs_eval(e['r'], var_hid)
        if l is None or r is None:
            return None
        rc = const_of(r)
        lc = const_of(l)
        if op == 'Shr' and rc is not None:
            return l[rc:] + [0] * rc
        if op == 'Shl' and rc is not None:
            return ([0] * rc + l)[:32]
        if op == 'BitAnd':
            if rc is not None:
                return [b if (rc >> i) & 1 else 0 for i, b in enumerate(l)]
            if lc is not None:
                return [b if (lc >> i) & 1 else 0 for i, b in enumerate(r)]
            return None
        if op == 'BitOr':
            out = []
            for a, b in zip(l, r):
                if a == 0:
                    out.append(b)
                elif b == 0:
                    out.append(a)
                elif a == b:
                    out.append(a)
                else:
                    return None
            return out
        if op == 'Mul' and (rc == 0x11 or lc == 0x11):
            v = l if rc == 0x11 else r
            if any(b != 0 for b in v[4:]):
                return None  # only defined on a 4-bit value
            return v[:4] + v[:4] + [0] * 24
        return None
    return None


def const_of(bits):
    v = 0
    for i, b in enumerate(bits):
        if b == 1:
            v |= 1 << i
        elif b != 0:
            return None
    return v


def expect_nibble_doubled(n):
    nb = [('b', 4 * n + i) for i in range(4)]
    return nb + nb + [0] * 24


def expect_byte(k):
    return [('b', 8 * k + i) for i in range(8)] + [0] * 24


def run(ck):
    if getattr(ck, 'depth', 0) >= 2:
        return      # a shared run of a shared run: nothing of it is selected, and mutual sharing must end somewhere
    F = ck.facts
    L = F.lib
    oracle = load_oracle('svg_colors.json')['colors']
    ck.explanation = (
        'R19.1 every (name, r, g, b) row of the SVG_NAMED_COLORS initializer equals oracles/svg_colors.json (147 rows, none missing or '
        'extra; keys lower-case ASCII); constructors pass channels through in order. R19.2 shape of <Color as FromStr>::from_str and of the '
        'call site in uigen::expr::parse_color_value. R19.3 abstract interpretation of parse_hex_color arms 3/4/6/8 on the bit-provenance '
        'domain. R19.4 impl From<Color> for Gadget: Rgb8 => alpha attribute constant 255, Rgba8 => its alpha field; red/green/blue '
        'properties read the like-named fields.')
    ck.rule('R19.1', 'the keyword table equals the SVG 1.1 keyword table')
    ck.rule('R19.2', 'lookup chain: # => hex only; transparent; exact or ASCII-lower-cased keyword; else Err; input untransformed')
    ck.rule('R19.3', 'hex arms assign the nibble/byte the format defines to each channel (alpha first, short digits doubled)')
    ck.rule('R19.4', 'opaque colours are written with alpha 255; channel fields map to like-named elements')
    ck.trusted_base = ['oracles/svg_colors.json', 'rustc literal evaluation', 'u32::from_str_radix']

    # ---- R19.1 -------------------------------------------------------------------------
    st = next((f for f in L.fn_list if f['dk'] == 'Static' and f['name'] == 'SVG_NAMED_COLORS'), None)
    if st is None:
        ck.floor('R19.1', 0, 147, 'rows of SVG_NAMED_COLORS')
    else:
        rows = {}
        dup = []
        for t in walk(st['body']):
            if t.get('k') == 'Tup' and len(t['es']) == 2 and H.lit_value(t['es'][0]) is not None:
                c = H.strip_refs(t['es'][1])
                if c.get('k') == 'Call' and (c.get('def') or '').endswith('ColorRgb8::new') and len(c['args']) == 3:
                    vals = [H.lit_value(a) for a in c['args']]
                    name = H.lit_value(t['es'][0])
                    if name in rows:
                        dup.append(name)
                    rows[name] = vals
        ck.floor('R19.1', len(rows), 147, 'rows of SVG_NAMED_COLORS')
        for name in sorted(set(rows) | set(oracle)):
            got = rows.get(name)
            exp = oracle.get(name)
            ok = got == exp
            ck.ob('R19.1', 'row|%s' % name, ok, L.loc(st['body']),
                  'rgb %s' % (got,) if ok else ('keyword "%s": table has %s, SVG 1.1 defines %s' % (name, got, exp)), nontrivial=True)
        ck.ob('R19.1', 'no-duplicate-keys', not dup, L.loc(st['body']), 'duplicate keys: %s' % dup)
        bad_keys = [k for k in rows if not re.match(r'^[a-z]+$', k)]
        ck.ob('R19.1', 'keys-lowercase-ascii', not bad_keys, L.loc(st['body']), 'non-lower-case keys: %s' % bad_keys)
    for path, order in (('color::ColorRgb8::new', ['red', 'green', 'blue']), ('color::ColorRgba8::new', ['red', 'green', 'blue', 'alpha'])):
        fn = L.fn(path)
        ok = False
        got = None
        if fn is not None:
            bs = H.binding_sites(fn)
            s = next((n for n in walk(fn['body']) if n.get('k') == 'Struct'), None)
            if s is not None:
                got = {}
                for f in s['fields']:
                    rl = H.root_local(f['e'])
                    got[f['f']] = bs.get(rl['hid'], {}).get('index') if rl is not None else None
                ok = got == {n: i for i, n in enumerate(order)}
        ck.ob('R19.1', 'ctor-order|%s' % short(path), ok, L.loc(fn['body']) if fn else '', 'field <- parameter index: %s' % got)
    for path, inner, n in (('color::Color::rgb8', 'ColorRgb8::new', 3), ('color::Color::rgba8', 'ColorRgba8::new', 4)):
        fn = L.fn(path)
        ok = False
        if fn is not None:
            bs = H.binding_sites(fn)
            c = next((x for x in H.calls_in(fn['body']) if (H.callee_decl(x) or '').endswith(inner)), None)
            if c is not None:
                idx = [bs.get((H.root_local(a) or {}).get('hid'), {}).get('index') for a in c['args']]
                ok = idx == list(range(n))
        ck.ob('R19.1', 'ctor-passthrough|%s' % short(path), ok, L.loc(fn['body']) if fn else '', 'passes its parameters through in order')

    # ---- R19.2 -------------------------------------------------------------------------
    fs = next((f for f in L.fn_list if f['path'].endswith('::from_str') and 'color::Color' in f['path']), None)
    if fs is None:
        ck.floor('R19.2', 0, 1, 'fn <Color as FromStr>::from_str')
    else:
        ck.analysed(fs['path'])
        bs = H.binding_sites(fs)
        param_hid = next((h for h, s in bs.items() if s['kind'] == 'param' and s['index'] == 0), None)
        chain = []
        cur = fs['body']
        vals = list(H.value_exprs(cur))
        top = next((n for n in walk(fs['body']) if n.get('k') == 'If'), None)
        cur = top
        final_else = None
        while cur is not None and cur.get('k') == 'If':
            chain.append(cur)
            nxt = cur.get('els')
            while nxt is not None and nxt.get('k') == 'Block' and not nxt.get('stmts') and 'e' in nxt and nxt['e'].get('k') == 'If':
                nxt = nxt['e']
            if nxt is not None and nxt.get('k') != 'If':
                final_else = nxt
                nxt = None
            cur = nxt
        ck.ob('R19.2', 'chain-length', len(chain) >= 2 and final_else is not None, L.loc(fs['body']), '%d tests + final else (`#`, `transparent`, keyword lookup(s))' % len(chain))
        if len(chain) >= 2 and final_else is not None:
            # 1. '#' => hex only
            c0 = chain[0]['c']
            sp = next((x for x in H.calls_in(c0) if x.get('m') == 'strip_prefix'), None)
            ok = sp is not None and H.lit_value(sp['args'][0]) == '#' and (H.root_local(sp['recv']) or {}).get('hid') == param_hid
            ck.ob('R19.2', 'hash-prefix-test', ok, L.loc(chain[0]), "if let Some(hex) = src.strip_prefix('#')")
            thenv = list(H.value_exprs(chain[0]['then']))
            calls = [short(H.callee(x) or H.callee_decl(x) or '') for v in thenv for x in H.calls_in(v)]
            ok = bool(thenv) and 'parse_hex_color' in calls and not any('SVG_NAMED' in pp(v) or x in ('HashMap::get',) for v in thenv for x in calls)
            ck.ob('R19.2', 'hash-means-hex-only', ok, L.loc(chain[0]), 'then-branch calls %s (no keyword fall-through)' % calls)
            okerr = any(x.get('m') in ('ok_or', 'ok_or_else') for v in thenv for x in H.calls_in(v))
            ck.ob('R19.2', 'bad-hex-is-error', okerr, L.loc(chain[0]), 'None from parse_hex_color becomes Err')
            # 2. transparent
            c1 = chain[1]['c']
            ok = c1.get('k') == 'MCall' and c1.get('m') == 'eq_ignore_ascii_case' and H.lit_value(c1['args'][0]) == 'transparent' and (H.root_local(c1['recv']) or {}).get('hid') == param_hid
            ck.ob('R19.2', 'transparent-test', ok, L.loc(chain[1]), pp(c1, maxlen=60))
            tv = [x for v in H.value_exprs(chain[1]['then']) for x in H.calls_in(v) if (H.callee_decl(x) or '').endswith('Color::rgba8')]
            ok = len(tv) == 1 and [H.lit_value(a) for a in tv[0]['args']] == [0, 0, 0, 0]
            ck.ob('R19.2', 'transparent-is-rgba-0000', ok, L.loc(chain[1]), 'transparent => rgba8(0, 0, 0, 0)')
            # 3.. keyword lookups: directly on the table, or through a helper that does nothing but ask the table
            def key_kind(f_, arg, phid):
                inner = [x.get('m') for x in H.calls_in(arg)]
                rl = H.root_local(arg)
                if (rl or {}).get('hid') == phid and not [m for m in inner if m not in ('as_str', 'as_ref', 'to_ascii_lowercase', 'borrow')]:
                    return 'ascii-lower' if 'to_ascii_lowercase' in inner else 'exact'
                return 'transformed:%s' % (inner or pp(arg, maxlen=30))

            def table_get(x):
                x = H.strip_refs(x)
                while x.get('k') == 'MCall' and x.get('m') in ('copied', 'cloned'):
                    x = H.strip_refs(x['recv'])
                return x if x.get('k') == 'MCall' and x.get('m') == 'get' and 'SVG_NAMED_COLORS' in pp(x['recv']) and x['args'] else None
            def lookup_kinds(f_, x, phid, depth=0):
                """which keys the table is asked for by the Option-valued expression x; 'not-understood:..' for anything else."""
                x = H.strip_refs(x)
                while x.get('k') == 'Block' and not x.get('stmts') and 'e' in x:
                    x = H.strip_refs(x['e'])
                g = table_get(x)
                if g is not None:
                    return [key_kind(f_, g['args'][0], phid)]
                if x.get('k') == 'MCall' and x.get('m') in ('map', 'copied', 'cloned', 'ok_or', 'ok_or_else'):
                    return lookup_kinds(f_, x['recv'], phid, depth + 1)
                if x.get('k') == 'MCall' and x.get('m') == 'or_else' and x['args'] and x['args'][0].get('k') == 'Closure':
                    return lookup_kinds(f_, x['recv'], phid, depth + 1) + [k_ for v in H.return_exprs(x['args'][0]['body']) for k_ in lookup_kinds(f_, v, phid, depth + 1)]
                if x.get('k') == 'MCall' and x.get('m') == 'or' and x['args']:
                    return lookup_kinds(f_, x['recv'], phid, depth + 1) + lookup_kinds(f_, x['args'][0], phid, depth + 1)
                if x.get('k') == 'Call' and (x.get('def') or '').endswith('Option::Some') and len(x['args']) == 1:
                    srcs = [table_get(o) for o in H.origins(f_, x['args'][0])]
                    if srcs and all(o is not None for o in srcs):
                        return [key_kind(f_, o['args'][0], phid) for o in srcs]
                if x.get('k') == 'Call' and depth < 3:
                    hf = L.fn(H.callee(x) or H.callee_decl(x) or '?')
                    if hf is not None and hf.get('body') is not None and len(x['args']) == 1 and (H.root_local(x['args'][0]) or {}).get('hid') == phid and H.strip_refs(x['args'][0]).get('k') == 'Path':
                        ck.analysed(hf['path'])
                        hp = next((b['hid'] for b in H.pat_bindings(hf['params'][0])), None)
                        hk = [k_ for rv in H.return_exprs(hf['body']) for k_ in lookup_kinds(hf, rv, hp, depth + 1)]
                        tries = [t for t in walk(hf['body']) if t.get('k') == 'Try']
                        if tries:
                            hk.append('gives-up-early:%s' % pp(tries[0], maxlen=50))
                        return hk
                return ['not-understood:%s' % pp(x, maxlen=60)]
            kinds = []
            fvals = [v for v in H.value_exprs(final_else)]
            if len(chain) == 2 and len(fvals) == 1 and H.strip_refs(fvals[0]).get('k') == 'MCall' and H.strip_refs(fvals[0]).get('m') in ('ok_or', 'ok_or_else'):
                # `else { <lookup>.map(Color::Rgb8).ok_or(UnknownName) }`
                kinds.extend(lookup_kinds(fs, fvals[0], param_hid))
            for i in range(2, len(chain)):
                c = chain[i]['c']
                e_ = c.get('e') if c.get('k') == 'LetCond' else c
                kinds.extend(lookup_kinds(fs, e_, param_hid))
                # result is Ok(Color::Rgb8(bound value))
                pb = {b['hid'] for b in H.pat_bindings(c['pat'])} if c.get('k') == 'LetCond' else set()
                tv = list(H.value_exprs(chain[i]['then']))
                okv = len(tv) == 1 and tv[0].get('k') == 'Call' and (tv[0].get('def') or '').endswith('Result::Ok') and \
                    H.strip_refs(tv[0]['args'][0]).get('k') == 'Call' and (H.strip_refs(tv[0]['args'][0]).get('def') or '').endswith('Color::Rgb8') and \
                    (H.root_local(H.strip_refs(tv[0]['args'][0])['args'][0]) or {}).get('hid') in pb
                ck.ob('R19.2', 'keyword-result|%d' % (i - 1), okv, L.loc(chain[i]), 'Ok(Color::Rgb8(<looked-up row>))')
            okk = bool(kinds) and set(kinds) <= {'ascii-lower', 'exact'} and 'ascii-lower' in kinds
            ck.ob('R19.2', 'keyword-lookups', okk, L.loc(chain[2] if len(chain) > 2 else final_else),
                  'the table is asked for: %s (the string itself and its ASCII lower-casing)' % kinds if okk else
                  'keyword lookups: %s — only `SVG_NAMED_COLORS.get(src)` and `.get(src.to_ascii_lowercase())` are understood; anything else (another key, a '
                  'hand-written search, an early "not a keyword") can accept a non-keyword or refuse a keyword in some letter case' % kinds)
            fv = list(H.value_exprs(final_else))
            ok = len(fv) == 1 and ((fv[0].get('k') == 'Call' and (fv[0].get('def') or '').endswith('Result::Err')) or
                                   (H.strip_refs(fv[0]).get('k') == 'MCall' and H.strip_refs(fv[0]).get('m') in ('ok_or', 'ok_or_else') and 'ParseColorError' in pp(H.strip_refs(fv[0])['args'][0], maxlen=80)))
            ck.ob('R19.2', 'otherwise-error', ok, L.loc(final_else), 'final else yields Err')
    # call site: the string is parsed untransformed
    pc = L.fn('uigen::expr::parse_color_value')
    if pc is None:
        ck.floor('R19.2', 0, 1, 'fn parse_color_value')
    else:
        ck.analysed(pc['path'])
        ps = [c for c in H.calls_in(pc['body']) if c.get('m') == 'parse' and 'color::Color' in (c.get('ga') or '')]
        ck.ob('R19.2', 'parse-call-found', len(ps) == 1, L.loc(pc['body']), '%d parse::<Color>() call(s)' % len(ps))
        for c in ps:
            recv = c['recv']
            plain = recv.get('k') == 'Path' and recv.get('res') == 'local'
            site = H.binding_sites(pc).get(recv.get('hid'), {}) if plain else {}
            ok = plain and site.get('kind') == 'closure_param'
            # the closure is the argument of and_then/map on extract_static_string(..)
            if ok:
                par = H.parents(pc).get(id(site['node']))
                ok = par is not None and par.get('k') == 'MCall' and H.is_call_to(par['recv'], 'extract_static_string')
            if not ok and plain:
                # `let s = extract_static_string(..)?; s.parse::<Color>()`: the same string, bound first
                srcs = [H.strip_refs(o) for o in H.origins(pc, recv)]
                ok = bool(srcs) and all(H.is_call_to(o, 'extract_static_string') for o in srcs)
            ck.ob('R19.2', 'string-parsed-untransformed', ok, L.loc(c),
                  'the static string from extract_static_string() is parsed as is' if ok else 'the colour string is transformed before parsing: %s' % pp(recv, maxlen=60))
        errs = [x for x in H.calls_in(pc['body']) if H.is_call_to(x, 'Diagnostic::error')]
        ck.ob('R19.2', 'parse-error-diagnosed', bool(errs), L.loc(pc['body']), 'Err(e) arm pushes Diagnostic::error')
        # every way the parse can fail is an error and yields no colour: each arm of the match on the parse result other than Ok(c)
        import nonediag as _nd
        for c in ps:
            mm = H.parents(pc).get(id(c))
            if mm is None or mm.get('k') != 'Match' or mm.get('e') is not c:
                ck.ob('R19.2', 'every-parse-failure-rejects', False, L.loc(c), 'the result of parse::<Color>() is not the scrutinee of a match: form not understood')
                continue
            bad = []
            n_ok = 0
            for arm in mm['arms']:
                pt = pp(arm['pat'], maxlen=60)
                if pt.startswith('Ok(') and 'guard' not in arm:
                    n_ok += 1
                    vs = [H.strip_refs(v) for v in H.value_exprs(arm['body'])]
                    b_ = {b['hid'] for b in H.pat_bindings(arm['pat'])}
                    if not (len(vs) == 1 and vs[0].get('k') == 'Call' and (vs[0].get('def') or '').endswith('Option::Some') and (H.root_local(vs[0]['args'][0]) or {}).get('hid') in b_):
                        bad.append('%s does not yield the parsed colour' % pt)
                    continue
                pushes = [x for x in H.calls_in(arm['body']) if x.get('k') == 'MCall' and x.get('m') == 'push' and 'Diagnostics' in (L.ty(x['recv'], adjusted=True) or L.ty(x['recv']) or '')]
                is_err = any(not _nd.is_warning_push(x) for x in pushes)
                vs = [H.strip_refs(v) for v in H.value_exprs(arm['body'])]
                none = bool(vs) and all(v.get('k') == 'Path' and (v.get('def') or '').endswith('Option::None') for v in vs)
                if not (is_err and none):
                    bad.append('%s %s' % (pt, 'yields a colour' if not none else 'pushes no error'))
            ck.ob('R19.2', 'every-parse-failure-rejects', not bad and n_ok == 1, L.loc(mm),
                  'Ok(c) => Some(c); every other arm pushes an error and yields None' if not bad and n_ok == 1 else
                  'a string that is not a colour is not rejected on every path: %s' % '; '.join(bad or ['%d Ok arms' % n_ok]))

    # ---- R19.3 hex arms -------------------------------------------------------------------
    ph = L.fn('color::parse_hex_color')
    if ph is None:
        ck.floor('R19.3', 0, 14, 'hex constructor arguments')
    else:
        ck.analysed(ph['path'])
        bs = H.binding_sites(ph)
        # guard: non-hex => None, before the parse
        g = next((n for n in walk(ph['body']) if n.get('k') == 'If' and any(x.get('m') == 'contains' for x in H.calls_in(n['c']))), None)
        ok = False
        if g is not None:
            cl = next((x for x in walk(g['c']) if x.get('k') == 'Closure'), None)
            body = cl['body'] if cl is not None else None
            neg = body is not None and H.strip_refs(body).get('k') == 'Unary' and H.strip_refs(body).get('op') == 'Not' and any(x.get('m') == 'is_ascii_hexdigit' for x in H.calls_in(body))
            ret_none = any(n.get('k') == 'Ret' and (n.get('e', {}).get('def') or '').endswith('Option::None') for n in walk(g['then']))
            ok = neg and ret_none
        ck.ob('R19.3', 'non-hex-rejected', ok, L.loc(g) if g else '', 'hex.contains(|c| !c.is_ascii_hexdigit()) => return None')
        radix = [c for c in H.calls_in(ph['body']) if (H.callee_decl(c) or '').endswith('from_str_radix')]
        ok = len(radix) == 1 and H.lit_value(radix[0]['args'][1]) == 16 and 'u32' in (H.callee_decl(radix[0]) or '')
        ck.ob('R19.3', 'parsed-radix-16-u32', ok, L.loc(radix[0]) if radix else '', 'u32::from_str_radix(hex, 16)')
        var_hid = None
        if radix:
            for h, s in bs.items():
                if s['kind'] == 'let' and s['node'].get('init') is not None and any(x is radix[0] for x in walk(s['node']['init'])):
                    var_hid = h
        m = next((n for n in walk(ph['body']) if n.get('k') == 'Match' and any(x.get('m') == 'len' for x in H.calls_in(n['e']))), None)
        n_args = 0
        if m is None or var_hid is None:
            ck.ob('R19.3', 'length-match', False, '', 'match on hex.len() / parsed variable not found')
        else:
            same = (H.root_local(m['e']) or {}).get('hid') == (H.root_local(radix[0]['args'][0]) or {}).get('hid')
            ck.ob('R19.3', 'length-of-the-parsed-string', same, L.loc(m), 'the matched length is that of the string that was parsed')
            layouts = {3: ('rgb8', [2, 1, 0], 'nib'), 4: ('rgba8', [2, 1, 0, 3], 'nib'), 6: ('rgb8', [2, 1, 0], 'byte'), 8: ('rgba8', [2, 1, 0, 3], 'byte')}
            seen = set()
            for arm in m['arms']:
                pat = arm['pat']
                if pat.get('k') == 'PLit':
                    ln = pat.get('v')
                    seen.add(ln)
                    if ln not in layouts:
                        ck.ob('R19.3', 'arm|%s' % ln, False, L.loc(arm), 'unexpected length arm %s (Qt accepts 3, 4, 6, 8 digits here)' % ln)
                        continue
                    ctor, order, unit = layouts[ln]
                    call = next((x for v in H.value_exprs(arm['body']) for x in H.calls_in(v) if (H.callee_decl(x) or '').endswith('Color::' + ctor)), None)
                    if call is None or len(call['args']) != len(order):
                        ck.ob('R19.3', 'arm|%s|ctor' % ln, False, L.loc(arm), 'expected Some(Color::%s(..)) with %d channels' % (ctor, len(order)))
                        continue
                    names = ['red', 'green', 'blue', 'alpha']
                    for i, a in enumerate(call['args']):
                        n_args += 1
                        v = abs_eval(a, var_hid)
                        exp = expect_nibble_doubled(order[i]) if unit == 'nib' else expect_byte(order[i])
                        tyok = (L.ty(a) == 'u8')
                        if v is None:
                            ck.ob('R19.3', 'arm|%s|%s' % (ln, names[i]), False, L.loc(a), 'expression leaves the bit-provenance domain (undecided): %s' % pp(a, maxlen=60))
                        else:
                            ck.ob('R19.3', 'arm|%s|%s' % (ln, names[i]), v == exp and tyok, L.loc(a),
                                  '%s = %s %d of the number%s' % (names[i], 'nibble' if unit == 'nib' else 'byte', order[i], ', doubled' if unit == 'nib' else '') if v == exp else
                                  '%s-digit form: %s is not %s %d%s: %s' % (ln, names[i], 'nibble' if unit == 'nib' else 'byte', order[i], ' doubled' if unit == 'nib' else '', pp(a, maxlen=60)))
                elif pat.get('k') == 'Wild':
                    vals = list(H.value_exprs(arm['body']))
                    ok = bool(vals) and all((v.get('def') or '').endswith('Option::None') for v in vals)
                    ck.ob('R19.3', 'other-lengths-rejected', ok, L.loc(arm), '_ => None')
                else:
                    ck.ob('R19.3', 'arm|?', False, L.loc(arm), 'unrecognised arm pattern %s' % pp(pat))
            ck.ob('R19.3', 'all-four-lengths', seen == {3, 4, 6, 8}, L.loc(m), 'length arms: %s' % sorted(seen))
        ck.floor('R19.3', n_args, 14, 'hex constructor arguments')

    # ---- R19.4 gadget mapping ------------------------------------------------------------------
    fg = next((f for f in L.fn_list if f['path'].startswith('<uigen::gadget::Gadget as std::convert::From') and f['name'] == 'from' and 'color::Color' in f.get('rawpath', '')), None)
    if fg is None:
        ck.floor('R19.4', 0, 1, 'impl From<Color> for Gadget')
    else:
        ck.analysed(fg['path'])
        bs = H.binding_sites(fg)
        # helper closures attr(name, v) / prop(name, v): first arg literal is the element/attribute name
        m = next((n for n in walk(fg['body']) if n.get('k') == 'Match'), None)
        n_map = 0
        if m is not None:
            for arm in m['arms']:
                var = (arm['pat'].get('def') or '').split('::')[-1]
                for c in H.calls_in(arm['body']):
                    if c.get('k') == 'Call' and c['f'].get('k') == 'Path' and c['f'].get('res') == 'local' and len(c['args']) == 2:
                        nm = H.lit_value(c['args'][0])
                        val = H.strip_refs(c['args'][1])
                        if nm is None:
                            continue
                        n_map += 1
                        if nm == 'alpha' and var == 'Rgb8':
                            ck.ob('R19.4', 'opaque-alpha-255', val.get('k') == 'Lit' and val.get('v') == 255, L.loc(c), 'Rgb8 => alpha %s' % pp(val))
                        else:
                            ok = val.get('k') == 'Field' and val.get('f') == nm
                            ck.ob('R19.4', 'channel|%s|%s' % (var, nm), ok, L.loc(c), '%s <- %s' % (nm, pp(val)))
        ck.floor('R19.4', n_map, 8, 'channel mappings in From<Color> for Gadget')
        kinds = [n for n in walk(fg['body']) if n.get('k') == 'Struct' and (n.get('def') or '').endswith('Gadget')]
        ok = False
        if kinds:
            f = {x['f']: pp(x['e']) for x in kinds[0]['fields']}
            ok = f.get('kind') == 'GadgetKind::Color'
        ck.ob('R19.4', 'gadget-kind-color', ok, L.loc(fg['body']), 'built as GadgetKind::Color')
    # as_tag_name(Color) == "color" and prop/attr helper closures keep the name
    at = L.fn('uigen::gadget::GadgetKind::as_tag_name')
    if at is not None:
        m = next((n for n in walk(at['body']) if n.get('k') == 'Match'), None)
        got = None
        if m is not None:
            for arm in m['arms']:
                if (arm['pat'].get('def') or '').endswith('GadgetKind::Color'):
                    got = [H.lit_value(v) for v in H.value_exprs(arm['body'])]
        ck.ob('R19.4', 'color-tag-name', got == ['color'], L.loc(at['body']), 'GadgetKind::Color => %s' % got)

    # the string that reaches the parser is the string as written (C03 R3.6): padding or case is not repaired on the way
    import core as _core
    import rules.c03 as c03
    ck.rule('R19.5', 'the colour string reaches the parser as written (shared with C03)')
    s3 = _core.Shared(ck, 'R19.5', lambda r, k: r == 'R3.6' and k in ('static-string-returned-as-is', 'static-strings-are-bare'), 'C03:',
                      ' [`" red"` or `"#fff "` must be refused, not trimmed into a colour]')
    c03.run(s3)
    ck.floor('R19.5', s3.count, 2, 'shared C03 R3.6 obligations on extract_static_string')
