"""C04: every binding is embedded, generated, or diagnosed; errors write nothing."""
import re
from facts import walk, short, pp, children
import hirutil as H
import nonediag
import panicsites
from core import load_table

LEVEL = 'other'
TECHNIQUE = ('"None => diagnosed" effect analysis (greatest fixpoint over Option-returning units with a Diagnostics in scope), '
             'must-use-on-all-paths for results of binding-evaluating functions, guard dominance in the CLI write path, literal agreement of pseudo-property names, '
             'structural reading of the Diagnostics store behind has_error(), presence-only guards of the layout attribute writers')
LEVEL_TEXT = ('Decides that no binding can vanish silently: every way an Option-returning builder (fn or closure, 74 units) can yield None '
              'is a literal None dominated by an error push on its path, the None of a callee with the same property, an error-pushing '
              'consume/map_err idiom, or a reviewed external source (no such binding; the designated deferral evaluate()? that hands the '
              'binding to the C++ pass). Results of functions that evaluate bindings must be consumed on every path (an evaluated-but-dropped '
              'value defeats the leftover check). Callbacks returned by the binding scan are never discarded. Pseudo properties excluded '
              'from generic handling each have a handler. In the CLI both writes are dominated by the syntax-error and has_error() '
              'rejections, and every per-source error propagates to the exit status.')
LEVEL_NOTE = ('Trusted: tables/none_sources.json rows; rustc typeck. Not decided: "exactly one place" as a count over all documents; that '
              'every diagnostic range lies within its binding (C07 R7.5 checks node provenance).')
DESIGN_REF = 'DESIGN.md section 4, C04'


def transitive_callers_of(crate, target_suffix):
    """Local fns that (transitively) call a fn whose path ends with target_suffix (HIR calls, closures folded in)."""
    calls = {}
    for fn in crate.fn_list:
        s = set()
        for c in H.calls_in(fn['body']):
            for p in (H.callee(c), H.callee_decl(c)):
                if p:
                    s.add(p)
        calls[fn['path']] = s
    E = set(p for p in calls if p.endswith(target_suffix))
    changed = True
    while changed:
        changed = False
        for p, cs in calls.items():
            if p not in E and cs & E:
                E.add(p)
                changed = True
    return E


def definitely_uses(node, hid, crate=None):
    """True if evaluating node uses local `hid` on every path (structured control flow)."""
    k = node.get('k')
    if k == 'Path':
        return node.get('res') == 'local' and node.get('hid') == hid
    if k == 'If':
        if definitely_uses(node['c'], hid, crate):
            return True
        def handled(b):
            return definitely_uses(b, hid, crate) or diverges(b) or (crate is not None and bool(nonediag.pushes_in(crate, b)))
        return 'els' in node and handled(node['then']) and handled(node['els'])
    if k == 'Match':
        if definitely_uses(node['e'], hid, crate):
            return True
        arms = node['arms']
        return bool(arms) and all(definitely_uses(a['body'], hid, crate) or diverges(a['body']) or (crate is not None and bool(nonediag.pushes_in(crate, a['body']))) for a in arms)
    if k in ('Closure', 'Loop', 'For'):
        if k == 'For':
            return definitely_uses(node['iter'], hid, crate)
        return False
    if k == 'Binary' and node.get('op') in ('And', 'Or'):
        return definitely_uses(node['l'], hid, crate)
    if k == 'Block':
        for s in node.get('stmts', []):
            e = s.get('init') if s.get('k') == 'Let' else s.get('e')
            if e is not None and definitely_uses(e, hid, crate):
                return True
            if e is not None and diverges(e):
                return True
        return 'e' in node and definitely_uses(node['e'], hid, crate)
    for c in children(node):
        if c.get('k') in ('Bind', 'Wild', 'PTS', 'PTup', 'PStruct', 'PRef', 'POr', 'PLit', 'PPath'):
            continue
        if definitely_uses(c, hid, crate):
            return True
    return False


def diverges(node):
    k = node.get('k')
    if k in ('Ret', 'Break', 'Continue'):
        return True
    if k == 'Block':
        for s in node.get('stmts', []):
            e = s.get('init') if s.get('k') == 'Let' else s.get('e')
            if e is not None and diverges(e):
                return True
        return 'e' in node and diverges(node['e'])
    if node.get('x') in ('panic', 'unreachable'):
        return True
    return False


def sticky_error_ok(fn, call, pm):
    """match f(..) { Ok(()) => {}, Err(X) => flag = true, Err(e) => return Err(e) } ... if flag { Err(X) } else { Ok(()) }:
    every Err arm either returns Err or sets a flag, and every exit of the function that yields Ok is under `!flag`."""
    m = pm.get(id(call))
    if m is None or m.get('k') != 'Match' or m.get('e') is not call:
        return False, ''
    flags = set()
    for arm in m['arms']:
        p = pp(arm['pat'])
        if not p.startswith('Err('):
            continue
        rets = [r for r in walk(arm['body']) if r.get('k') == 'Ret']
        if rets and all(r.get('e', {}).get('k') == 'Call' and (r['e'].get('def') or '').endswith('Result::Err') for r in rets):
            continue
        asg = [a for a in walk(arm['body']) if a.get('k') == 'Assign' and H.lit_value(a['r']) is True and H.strip_refs(a['l']).get('k') == 'Path']
        body = arm['body']
        direct = body if body.get('k') == 'Assign' else (body.get('e') if body.get('k') == 'Block' and not body.get('stmts') else (body['stmts'][0].get('e') if body.get('k') == 'Block' and len(body.get('stmts', [])) == 1 and 'e' not in body else None))
        if len(asg) == 1 and direct is asg[0]:
            flags.add(asg[0]['l'].get('hid') or (H.root_local(asg[0]['l']) or {}).get('hid'))
            continue
        return False, ''
    if len(flags) != 1:
        return False, ''
    flag = next(iter(flags))
    # the flag is never reset and every Ok exit is in the else of `if flag`
    resets = [a for a in walk(fn['body']) if a.get('k') == 'Assign' and (H.root_local(a['l']) or {}).get('hid') == flag and H.lit_value(a['r']) is not True]
    if resets:
        return False, ''
    oks = [v for v in H.return_exprs(fn['body']) if v.get('k') == 'Call' and (v.get('def') or '').endswith('Result::Ok')]
    for v in oks:
        if not H.source_before(m, v):
            continue   # exits before the loop are unrelated
        guarded = False
        prev = v
        for a in H.ancestors(fn, v):
            if a.get('k') == 'If' and H.strip_refs(a['c']).get('k') == 'Path' and H.strip_refs(a['c']).get('hid') == flag and any(x is prev for x in [a.get('els')]):
                errs = [x for x in H.value_exprs(a['then']) if x.get('k') == 'Call' and (x.get('def') or '').endswith('Result::Err')]
                guarded = bool(errs)
            prev = a
        if not guarded:
            return False, ''
    return bool(oks), 'every Err of generate_ui_file(..) either returns at once or sets a flag that is never cleared; Ok(()) is returned only when the flag is unset (remaining sources are still processed)'


def diagnostics_store(ck, L):
    """R4.6: the decision `this source has an error` (has_error) is a function of everything that was pushed."""
    he = L.fn('diagnostic::Diagnostics::has_error')
    pu = L.fn('diagnostic::Diagnostics::push')
    if he is None or pu is None:
        ck.floor('R4.6', 0, 1, 'fns Diagnostics::has_error / push')
        return
    ck.analysed(he['path'])
    ck.analysed(pu['path'])
    members = [f for f in L.fn_list if (f.get('impl_self') or '').replace("&'a ", '') == 'diagnostic::Diagnostics' and f.get('x') is None]

    def self_field(e):
        e = H.strip_refs(e)
        if e.get('k') == 'Field' and H.strip_refs(e['e']).get('k') == 'Path' and H.strip_refs(e['e']).get('name') == 'self':
            return e.get('f')
        return None

    def is_error_test(x, hids):
        """x is `<d>.kind() == DiagnosticKind::Error` (either order) or matches!(<d>.kind(), Error) for d in hids."""
        x = H.strip_refs(x)
        if x.get('k') == 'Binary' and x.get('op') == 'Eq':
            for a, b in ((x['l'], x['r']), (x['r'], x['l'])):
                a, b = H.strip_refs(a), H.strip_refs(b)
                if a.get('k') == 'MCall' and a.get('m') == 'kind' and (H.root_local(a['recv']) or {}).get('hid') in hids and \
                        b.get('k') == 'Path' and (b.get('def') or '').endswith('DiagnosticKind::Error'):
                    return True
        if x.get('k') == 'Match' and len(x['arms']) == 2:
            sc = H.strip_refs(x['e'])
            if sc.get('k') == 'MCall' and sc.get('m') == 'kind' and (H.root_local(sc['recv']) or {}).get('hid') in hids:
                t = [a for a in x['arms'] if pp(a['pat']).endswith('DiagnosticKind::Error') and H.lit_value(a['body']) is True and 'guard' not in a]
                f_ = [a for a in x['arms'] if a['pat'].get('k') == 'Wild' and H.lit_value(a['body']) is False]
                return len(t) == 1 and len(f_) == 1
        return False

    vals = list(H.return_exprs(he['body']))
    form = None
    store = None
    if len(vals) == 1:
        v = H.strip_refs(vals[0])
        if v.get('k') == 'MCall' and v.get('m') == 'any' and len(v['args']) == 1 and v['args'][0].get('k') == 'Closure':
            r = H.strip_refs(v['recv'])
            while r.get('k') == 'MCall' and r.get('m') in ('iter', 'into_iter', 'as_slice') and not r['args']:
                r = H.strip_refs(r['recv'])
            store = self_field(r)
            cl = v['args'][0]
            hids = {b['hid'] for p_ in cl['params'] for b in H.pat_bindings(p_)}
            cb = cl['body']
            while cb.get('k') in ('Block', 'DropTemps', 'Paren') and not cb.get('stmts') and 'e' in cb:
                cb = cb['e']
            if store and is_error_test(cb, hids):
                form = 'search'
        elif self_field(v) and 'bool' == (L.ty(v) or ''):
            form = 'flag'
            flag = self_field(v)
    if form is None:
        ck.ob('R4.6', 'has_error-is-search-for-an-error', False, L.loc(he['body']),
              'has_error() is neither `self.<list>.iter().any(|d| d.kind() == DiagnosticKind::Error)` nor an or-accumulated flag: %s' % pp(he['body'], maxlen=120))
        return
    # the list field every append goes to
    appends = []
    for f in members:
        for c in H.calls_in(f['body']):
            if c.get('k') == 'MCall' and self_field(c['recv']):
                appends.append((f, c))
    if form == 'flag':
        store = next((self_field(c['recv']) for f, c in appends if f is pu and c.get('m') == 'push'), None)
        writes = [(f, n) for f in members for n in walk(f['body']) if n.get('k') in ('Assign', 'AssignOp') and self_field(n['l']) == flag]
        okf = bool(writes) and store is not None
        hid_p = {b['hid'] for p_ in pu.get('params', [])[1:] for b in H.pat_bindings(p_)}
        for f, n in writes:
            if f is not pu:
                okf = False
                continue
            # self.flag |= test   or   self.flag = self.flag || test, with test on the pushed diagnostic (possibly through a let of .into())
            let_hids = set(hid_p)
            for b in H.binding_sites(pu).values():
                if b['kind'] == 'let' and b['node'].get('init') is not None and (H.root_local(b['node']['init']) or {}).get('hid') in hid_p:
                    let_hids.add(b['bind']['hid'])
            if n['k'] == 'AssignOp' and n.get('op') in ('BitOrAssign', 'BitOr'):
                okf = okf and is_error_test(n['r'], let_hids)
            elif n['k'] == 'Assign' and H.strip_refs(n['r']).get('k') == 'Binary' and H.strip_refs(n['r']).get('op') == 'Or':
                rr = H.strip_refs(n['r'])
                okf = okf and ((self_field(rr['l']) == flag and is_error_test(rr['r'], let_hids)) or (self_field(rr['r']) == flag and is_error_test(rr['l'], let_hids)))
            else:
                okf = False
            okf = okf and not any(a.get('k') in ('If', 'Match', 'Closure', 'For', 'Loop') for a in H.ancestors(pu, n))
        ck.ob('R4.6', 'has_error-is-search-for-an-error', okf, L.loc(he['body']),
              'has_error() returns the flag `%s`, which push() or-accumulates unconditionally with `kind() == Error` of the pushed diagnostic' % flag if okf else
              'has_error() returns the field `%s`, but that is not or-accumulated with `kind() == Error` in push() alone and unconditionally' % flag)
    else:
        flds = {self_field(n) for n in walk(he['body']) if n.get('k') == 'Field'} - {None}
        ck.ob('R4.6', 'has_error-is-search-for-an-error', flds == {store}, L.loc(he['body']), 'has_error() = self.%s.iter().any(|d| d.kind() == DiagnosticKind::Error); no other state is consulted' % store)
    # the store only grows, and push() stores what it is given on every path
    bad = []
    n_app = 0
    for f, c in appends:
        if self_field(c['recv']) != store:
            continue
        if c.get('m') in ('push', 'extend', 'append', 'extend_from_slice'):
            n_app += 1
            if form == 'flag' and f is not pu:
                bad.append('%s appends to the list without going through push() (the flag is not updated)' % short(f['path']))
        elif c.get('m') not in ('iter', 'len', 'is_empty', 'as_slice', 'first', 'last', 'get', 'clone', 'fmt'):
            bad.append('%s calls %s() on the list' % (short(f['path']), c.get('m')))
    for f in members:
        for n in walk(f['body']):
            if n.get('k') in ('Assign', 'AssignOp') and self_field(n['l']) == store:
                bad.append('%s assigns the list' % short(f['path']))
    ck.ob('R4.6', 'store-only-grows', not bad and n_app >= 1, L.loc(pu['body']), '%d append sites (push / extend); no removal, replacement or truncation of self.%s' % (n_app, store) if not bad else '; '.join(bad))
    pc = [c for c in H.calls_in(pu['body']) if c.get('k') == 'MCall' and c.get('m') == 'push' and self_field(c['recv']) == store]
    hid_p = {b['hid'] for p_ in pu.get('params', [])[1:] for b in H.pat_bindings(p_)}
    okp = len(pc) == 1 and not any(a.get('k') in ('If', 'Match', 'Closure', 'For', 'Loop') for a in H.ancestors(pu, pc[0]))
    if okp:
        srcs = [o for o in H.origins(pu, pc[0]['args'][0])]
        roots = set()
        for o in srcs:
            o = H.strip_refs(o)
            while o.get('k') == 'MCall' and o.get('m') in ('into', 'clone', 'to_owned'):
                o = H.strip_refs(o['recv'])
            roots.add(o.get('hid') if o.get('k') in ('Path', 'Bind') else None)
        okp = bool(roots) and roots <= hid_p
    ck.ob('R4.6', 'push-stores-its-argument-on-every-path', okp, L.loc(pu['body']), 'push(diag): self.%s.push(diag.into()), unconditionally' % store)
    # the kind that is searched for is the kind the constructors record
    dn = L.fn('diagnostic::Diagnostic::new')
    for nm, kind in (('error', 'Error'), ('warning', 'Warning')):
        f = L.fn('diagnostic::Diagnostic::' + nm)
        ok = False
        if f is not None and dn is not None:
            cs = [c for c in H.calls_in(f['body']) if (H.callee(c) or H.callee_decl(c) or '').endswith('Diagnostic::new')]
            ok = len(cs) == 1 and H.strip_refs(cs[0]['args'][0]).get('k') == 'Path' and (H.strip_refs(cs[0]['args'][0]).get('def') or '').endswith('DiagnosticKind::' + kind)
        ck.ob('R4.6', 'constructor-kind|%s' % nm, ok, L.loc(f['body']) if f else '', 'Diagnostic::%s(..) records DiagnosticKind::%s' % (nm, kind))
    kf = L.fn('diagnostic::Diagnostic::kind')
    ok = False
    if kf is not None and dn is not None:
        v = [H.strip_refs(x) for x in H.return_exprs(kf['body'])]
        st = next((n for n in walk(dn['body']) if n.get('k') == 'Struct'), None)
        kfld = next((f_['e'] for f_ in (st or {}).get('fields', []) if f_['f'] == 'kind'), None)
        p0 = {b['hid'] for b in H.pat_bindings(dn['params'][0])} if dn.get('params') else set()
        ok = len(v) == 1 and self_field(v[0]) == 'kind' and kfld is not None and (H.root_local(kfld) or {}).get('hid') in p0
    ck.ob('R4.6', 'kind-is-the-recorded-kind', ok, L.loc(kf['body']) if kf else '', 'kind() returns the field that Diagnostic::new fills from its kind parameter')


NARROWING = {'filter', 'skip', 'take', 'step_by', 'skip_while', 'take_while', 'dedup', 'unique', 'filter_map', 'flatten', 'rev', 'last', 'nth', 'find', 'position'}


def layout_data_written(ck, L):
    """R4.7: in the layout serializers an attribute is written under no other condition than the presence of the data it is made of."""
    n_attr = 0
    for path in ('uigen::layout::Layout::serialize_to_xml', 'uigen::layout::LayoutItem::serialize_to_xml'):
        fn = L.fn(path)
        if fn is None:
            ck.floor('R4.7', 0, 1, 'fn ' + path)
            continue
        ck.analysed(fn['path'])

        def field_path(e):
            e = H.strip_refs(e)
            while e.get('k') == 'MCall' and e.get('m') in ('as_ref', 'as_deref', 'iter', 'as_slice', 'clone') and not e['args']:
                e = H.strip_refs(e['recv'])
            # a local alias of the field (`let widths = &self.attributes.column_minimum_width;`) stands for it
            if e.get('k') == 'Path' and e.get('res') == 'local':
                b_ = H.binding_sites(fn).get(e.get('hid')) or {}
                if b_.get('kind') == 'let' and b_.get('pat', {}).get('k') == 'Bind' and b_['node'].get('init') is not None:
                    return field_path(b_['node']['init'])
            t = pp(e, maxlen=80)
            return t if e.get('k') == 'Field' and t.startswith('self.') else None

        def none_only_when_empty(f2, idx):
            """every None result of f2 is decided by `<param idx>.is_empty()`; returns (ok, why)."""
            ph = {b['hid'] for b in H.pat_bindings(f2['params'][idx])}
            bad = []
            n_none = 0
            for r in H.return_exprs(f2['body']):
                rr = H.strip_refs(r)
                if not (rr.get('k') == 'Path' and (rr.get('def') or '').endswith('Option::None')):
                    # a Some(..) result: made of every element
                    for c in H.calls_in(r):
                        if c.get('k') == 'MCall' and c.get('m') in NARROWING:
                            bad.append('the value drops elements (%s)' % c['m'])
                    continue
                n_none += 1
                decided = False
                for a in H.ancestors(f2, r):
                    if a.get('k') != 'If':
                        continue
                    c = H.strip_refs(a['c'])
                    neg = False
                    if c.get('k') == 'Unary' and c.get('op') == 'Not':
                        neg, c = True, H.strip_refs(c['e'])
                    is_empty = c.get('k') == 'MCall' and c.get('m') == 'is_empty' and (H.root_local(c['recv']) or {}).get('hid') in ph and H.strip_refs(c['recv']).get('k') == 'Path'
                    in_then = any(x is r for x in walk(a['then']))
                    if is_empty and (in_then != neg):
                        decided = True
                if not decided:
                    bad.append('None is returned on a path that is not decided by `%s.is_empty()`' % (f2['params'][idx].get('name') or 'array'))
            return (not bad, '; '.join(bad) or 'None only for an empty list (%d site(s))' % n_none)

        for c in H.calls_in(fn['body']):
            if not (c.get('k') == 'MCall' and c.get('m') == 'push_attribute' and c['args']):
                continue
            tup = H.strip_refs(c['args'][0])
            name = H.lit_value(tup['es'][0]) if tup.get('k') == 'Tup' and tup['es'] else None
            if name in ('class', 'name') or name is None:
                if name is None:
                    ck.ob('R4.7', 'attribute-name-literal|%s' % short(fn['path']), False, L.loc(c), 'attribute written with a computed name')
                continue
            n_attr += 1
            conds = []
            guards = []
            ok = True
            why = []
            for a in H.ancestors(fn, c):
                if a.get('k') in ('Closure', 'For', 'Loop', 'Match'):
                    ok = False
                    why.append('written inside a %s' % a['k'])
                if a.get('k') != 'If':
                    continue
                in_then = any(x is c for x in walk(a['then']))
                cd = a['c']
                if cd.get('k') == 'LetCond':
                    pat = cd['pat']
                    while pat.get('k') in ('PRef', 'PDeref'):
                        pat = pat['p']
                    some = pat.get('k') == 'PTS' and (pat.get('def') or '').endswith('Option::Some') and in_then
                    fp = field_path(cd['e'])
                    if some and fp:
                        conds.append('%s is Some' % fp)
                        guards.append(('bound', {b['hid'] for b in H.pat_bindings(cd['pat'])}, fp))
                        continue
                    sc = H.strip_refs(cd['e'])
                    if some and sc.get('k') in ('Call', 'MCall'):
                        f2 = L.fn(H.callee(sc) or H.callee_decl(sc) or '?')
                        args = H.call_args(sc)
                        idx = next((i for i, x in enumerate(args) if field_path(x)), None)
                        if f2 is not None and idx is not None and f2.get('body') is not None:
                            ok2, why2 = none_only_when_empty(f2, idx)
                            if ok2:
                                conds.append('%s(%s) is Some, %s' % (short(f2['path']), field_path(args[idx]), why2))
                                guards.append(('bound', {b['hid'] for b in H.pat_bindings(cd['pat'])}, field_path(args[idx])))
                                continue
                            why.append('%s(): %s' % (short(f2['path']), why2))
                    ok = False
                    why.append('guard `%s`' % pp(cd, maxlen=70))
                    continue
                x = H.strip_refs(cd)
                neg = False
                if x.get('k') == 'Unary' and x.get('op') == 'Not':
                    neg, x = True, H.strip_refs(x['e'])
                if x.get('k') == 'MCall' and x.get('m') == 'is_empty' and field_path(x['recv']) and (neg == in_then):
                    conds.append('%s is not empty' % field_path(x['recv']))
                    guards.append(('field', None, field_path(x['recv'])))
                    continue
                ok = False
                why.append('guard `%s`' % pp(cd, maxlen=70))
            # the data whose presence decides is the data that is written
            val = tup['es'][1] if len(tup['es']) > 1 else None
            if val is not None:
                vfields = {field_path(x) for x in walk(val) if x.get('k') in ('Field', 'Path')} - {None}
                vlocals = {x.get('hid') for x in walk(val) if x.get('k') == 'Path' and x.get('res') == 'local'}
                for kind, hids, fp in guards:
                    if (kind == 'field' and fp not in vfields) or (kind == 'bound' and not (hids & vlocals) and fp not in vfields):
                        ok = False
                        why.append('the presence test looks at %s, the value written is made of %s' % (fp, sorted(vfields) or 'something else'))
            # the value is made of all the data: no narrowing adaptor, and the formatter it goes through keeps every element
            val = tup['es'][1] if len(tup['es']) > 1 else None
            if val is not None:
                for cc in H.calls_in(val):
                    if cc.get('k') == 'MCall' and cc.get('m') in NARROWING:
                        ok = False
                        why.append('the value drops elements (%s)' % cc['m'])
                    f3 = L.fn(H.callee(cc) or H.callee_decl(cc) or '?') if cc.get('k') == 'Call' else None
                    if f3 is not None and f3.get('body') is not None and f3['path'].startswith('uigen::layout::'):
                        for c3 in H.calls_in(f3['body']):
                            if c3.get('k') == 'MCall' and c3.get('m') in NARROWING:
                                ok = False
                                why.append('%s() drops elements (%s)' % (short(f3['path']), c3['m']))
            ck.ob('R4.7', 'written-iff-present|%s|%s' % (short(fn['path']).split('::')[0], name), ok, L.loc(c),
                  'attribute %s: %s' % (name, '; '.join(conds) or 'always written') if ok else
                  'attribute %s is not written for every value that was collected (%s): a binding that was evaluated and marked as used leaves no trace in the .ui' % (name, '; '.join(why)), fn=fn['path'])
        # helper form: `push_opt(&mut tag, "name", &self.attributes.F, d)` with the push_attribute inside the helper
        for c in H.calls_in(fn['body']):
            g = L.fn(H.callee(c) or H.callee_decl(c) or '?') if c.get('k') == 'Call' else None
            if g is None or g is fn or g.get('body') is None or not g['path'].startswith('uigen::layout::'):
                continue
            pas = [x for x in H.calls_in(g['body']) if x.get('k') == 'MCall' and x.get('m') == 'push_attribute' and x['args']]
            if not pas:
                continue
            name = next((H.lit_value(a) for a in c['args'] if isinstance(H.lit_value(a), str)), None)
            fidx = next((i for i, a in enumerate(c['args']) if field_path(a) or (H.strip_refs(a).get('k') == 'Field')), None)
            n_attr += 1
            ck.analysed(g['path'])
            if name is None or fidx is None or len(pas) != 1:
                ck.ob('R4.7', 'written-iff-present|%s|helper-%s' % (short(fn['path']).split('::')[0], g['name']), False, L.loc(c), 'attribute helper call not understood (name / data argument / %d push_attribute calls)' % len(pas), fn=fn['path'])
                continue
            ph = {b['hid'] for b in H.pat_bindings(g['params'][fidx])}
            pa = pas[0]
            ok, why, conds = True, [], []

            def presence(cd):
                x = H.strip_refs(cd)
                neg = False
                if x.get('k') == 'Unary' and x.get('op') == 'Not':
                    neg, x = True, H.strip_refs(x['e'])
                if x.get('k') == 'MCall' and x.get('m') == 'is_empty' and H.strip_refs(x['recv']).get('k') == 'Path' and H.strip_refs(x['recv']).get('hid') in ph:
                    return 'empty' if not neg else 'nonempty'
                return None
            for a in H.ancestors(g, pa):
                if a.get('k') in ('Closure', 'For', 'Loop', 'Match'):
                    ok = False
                    why.append('written inside a %s' % a['k'])
                if a.get('k') == 'If':
                    in_then = any(x is pa for x in walk(a['then']))
                    pr = presence(a['c']) if a['c'].get('k') != 'LetCond' else None
                    if (pr == 'nonempty' and in_then) or (pr == 'empty' and not in_then):
                        conds.append('data is not empty')
                    else:
                        ok = False
                        why.append('guard `%s`' % pp(a['c'], maxlen=70))
            # early exits in front of the write
            for n in walk(g['body'], enter_closures=False):
                if n.get('k') == 'Ret' and H.source_before(n, pa):
                    iff = next((a for a in H.ancestors(g, n) if a.get('k') == 'If'), None)
                    pr = presence(iff['c']) if iff is not None and iff['c'].get('k') != 'LetCond' else None
                    in_then = iff is not None and any(x is n for x in walk(iff['then']))
                    if iff is not None and ((pr == 'empty' and in_then) or (pr == 'nonempty' and not in_then)):
                        conds.append('returns early only for an empty list')
                    else:
                        ok = False
                        why.append('leaves before the write under `%s`' % (pp(iff['c'], maxlen=70) if iff is not None else 'no condition'))
            for cc in H.calls_in(g['body']):
                if cc.get('k') == 'MCall' and cc.get('m') in NARROWING and any(x is cc for x in walk(pa)):
                    ok = False
                    why.append('the value drops elements (%s)' % cc['m'])
            ck.ob('R4.7', 'written-iff-present|%s|%s' % (short(fn['path']).split('::')[0], name), ok, L.loc(c),
                  'attribute %s (through %s): %s' % (name, g['name'], '; '.join(conds) or 'always written') if ok else
                  'attribute %s is not written for every value that was collected (%s(): %s): a binding that was evaluated and marked as used leaves no trace in the .ui' % (name, g['name'], '; '.join(why)), fn=fn['path'])
    ck.floor('R4.7', n_attr, 10, 'conditional attributes of <layout> and <item>')


def run(ck):
    if getattr(ck, 'depth', 0) >= 2:
        return      # a shared run of a shared run: nothing of it is selected, and mutual sharing must end somewhere
    F = ck.facts
    L = F.lib
    B = F.bin
    ck.explanation = (
        'R4.1 A9 over the library: units = fns/closures returning Option<_> with a &mut Diagnostics in scope; None origins = literal '
        'None, `?` on Option, tail calls; statuses pushed/callee/consume/map_err/verifier/table; greatest fixpoint S; every unit must be '
        'in S and pushes that discharge a None must build Diagnostic::error (a warning does not reject the document). R4.1u results of '
        'functions that transitively call PropertyCode::evaluate are consumed on every path. R4.1c the callbacks slot of '
        'build_properties_callbacks is bound and used at every call site. R4.2 !is_evaluated_constant() selects the C++ bindings, the '
        'attached leftovers and the Reject errors. R4.3 every name excluded from make_serializable_map/make_value_map has a handler '
        '(a call taking the same literal) in uigen. R4.4 generate_ui_file: writes dominated by the syntax-error return and by the '
        '`Some(x) if !diagnostics.has_error()` arm; all other arms return Err; generate_ui propagates each error with `?`.')
    ck.explanation += (' R4.1u also reads results that are matched together (`match (get(a), get(b))`): in every arm, or-alternatives expanded, each component is None, bound and '
                       'used, decided by a literal, or the arm pushes an error. R4.7 the presence test that guards an attribute looks at the very field (or bound value) the '
                       'attribute is made of.')
    ck.rule('R4.1', 'None from a builder is diagnosed, deferred by design, or a reviewed nothing-to-diagnose source')
    ck.rule('R4.1u', 'a value obtained by evaluating bindings is consumed on every path')
    ck.rule('R4.1c', 'signal callbacks found by the binding scan are never discarded')
    ck.rule('R4.1d', 'no uigen function result is thrown away and the code-generation pass skips no object')
    ck.rule('R4.2', 'bindings that were not embedded are selected for code generation or rejected')
    ck.rule('R4.3', 'every pseudo property excluded from generic handling has a handler')
    ck.rule('R4.4', 'diagnosed sources write nothing and exit non-zero')
    ck.rule('R4.6', 'has_error() is true exactly when an error was pushed: the store only grows and is searched whole')
    ck.rule('R4.7', 'layout data collected from attached bindings is written whenever it is present, whatever its value')

    # ---- R4.1 ---------------------------------------------------------------------------
    table = {r['key']: r for r in load_table('none_sources.json')['rows']}
    A = nonediag.Analysis(L, panicsites.DERIVES, table)
    n_orig = 0
    for p, u in sorted(A.units.items()):
        ck.analysed(u.fn['path'])
        ordn = {}
        for o in u.origins:
            n_orig += 1
            base = '%s|%s|%s' % (short(p), o['kind'], o['what'])
            i = ordn.get(base, 0)
            ordn[base] = i + 1
            key = base + ('#%d' % (i + 1) if i else '')
            if o['status'] == 'open':
                ck.ob('R4.1', key, False, L.loc(o['node']), 'silent None: ' + o['detail'], fn=u.fn['path'])
            elif o['status'] == 'callee':
                ok = o['callee'] in A.S
                ck.ob('R4.1', key, ok, L.loc(o['node']), ('None of %s, which is diagnosed' % short(o['callee'])) if ok else
                      'None of %s, which has a silent None itself' % short(o['callee']), nontrivial=False, fn=u.fn['path'])
            else:
                ck.ob('R4.1', key, True, L.loc(o['node']), '%s: %s' % (o['status'], o['detail']), fn=u.fn['path'])
        # a unit that can never be None has no origins: fine
    ck.floor('R4.1', len(A.units), 70, 'Option-returning units with diagnostics')
    ck.floor('R4.1', n_orig, 220, 'None origins classified')
    ck.extra['units_in_S'] = len(A.S)
    ck.extra['stale_table_rows'] = sorted(k for k in table if k not in A.used_rows)
    for entry in ('uigen::build', 'objtree::ObjectTree::build', 'uigen::objcode::PropertyCode::build', 'uigen::expr::SerializableValue::build',
                  'tir::builder::build', 'tir::builder::build_callback', 'uigen::objcode::CallbackCode::build'):
        ck.ob('R4.1', 'entry-in-S|%s' % short(entry), entry in A.S, '', 'None from %s implies an error diagnostic or a reviewed deferral' % short(entry))
    # pushes that discharge Nones are errors, not warnings
    n_push = 0
    for p, u in A.units.items():
        for o in u.origins:
            if o['status'] == 'pushed' and o['what'] == 'None':
                m = re.search(r'at (.*)$', o['detail'])
        for c in nonediag.pushes_in(L, u.body):
            n_push += 1
    warn_only = []
    for p, u in A.units.items():
        A._pushes = nonediag.pushes_in(L, u.body)
        for o in u.origins:
            if o['status'] == 'pushed' and o['what'] == 'None':
                dp = A.dominating_push(u, o['node'])
                if dp is not None:
                    arg = dp['args'][0]
                    if any(H.is_call_to(x, 'Diagnostic::warning') for x in H.calls_in(arg)) and not any(H.is_call_to(x, 'Diagnostic::error') for x in H.calls_in(arg)):
                        # a warning does not make has_error() true: look for another dominating error push
                        errs = [q for q in A._pushes if H.lexically_precedes_dominating(u.fn, q, o['node']) and any(H.is_call_to(x, 'Diagnostic::error') for x in H.calls_in(q['args'][0]))]
                        if not errs:
                            warn_only.append((p, o))
    for p, o in warn_only:
        ck.ob('R4.1', '%s|warning-only|None' % short(p), False, L.loc(o['node']), 'the only diagnostic on the path to this None is a warning: the binding is dropped but the document is accepted')
    ck.ob('R4.1', 'discharging-pushes-are-errors', not warn_only, '', '%d None literals discharged by a dominating Diagnostic::error push' % sum(1 for u in A.units.values() for o in u.origins if o['status'] == 'pushed'))

    # ---- R4.1u must-use of evaluated values ------------------------------------------------------
    E = transitive_callers_of(L, 'PropertyCode::evaluate')
    E = set(p for p in E if p.startswith('uigen::') and L.fns.get(p, {}).get('output') not in ('()', 'bool', None)
            and not L.fns[p]['name'].startswith('serialize') and L.fns[p].get('dk') in ('Fn', 'AssocFn'))
    # builders of whole elements are consumed structurally; restrict to value/map producers
    E = set(p for p in E if re.search(r'(make_value_map|make_serializable_map|SerializableValue::build|build_item_model|build_object_ref_list|'
                                      r'get_simple_value|get_bool|get_enum|get_i32|Gadget::new|PaletteColorGroup::new|LayoutItemAttached::|LayoutFlow::parse|make_\w+_properties)', p))
    ck.extra['binding_evaluating_fns'] = sorted(short(p) for p in E)
    n_use = 0
    for fn in L.fn_list:
        if fn.get('x') in panicsites.DERIVES:
            continue
        pm = None
        ordn = {}
        for c in H.calls_in(fn['body']):
            cal = H.callee(c) if H.callee(c) in E else (H.callee_decl(c) if H.callee_decl(c) in E else None)
            if cal is None:
                continue
            if pm is None:
                pm = H.parents(fn)
            n_use += 1
            base = '%s|uses|%s' % (short(fn['path']), short(cal))
            i = ordn.get(base, 0)
            ordn[base] = i + 1
            key = base + ('#%d' % (i + 1) if i else '')
            # climb through `?`, refs, and pure adaptors to the consuming context
            node = c
            par = pm.get(id(node))
            while par is not None and (par.get('k') in ('Try', 'AddrOf') or (par.get('k') == 'MCall' and par.get('recv') is node and par.get('m') in ('map', 'unwrap_or_default', 'unwrap_or', 'ok', 'as_ref', 'into_iter', 'and_then', 'unwrap_or_else', 'filter'))):
                node = par
                par = pm.get(id(node))
            # value of a closure handed to map/and_then/..: the adaptor call carries the value on
            hops = 0
            while par is not None and hops < 6:
                hops += 1
                blk = par
                if blk.get('k') == 'Block' and blk.get('e') is node and not blk.get('stmts'):
                    cl = pm.get(id(blk))
                else:
                    cl = par if par.get('k') == 'Closure' and par.get('body') is node else None
                    blk = None
                if cl is not None and cl.get('k') == 'Closure':
                    ad = pm.get(id(cl))
                    if ad is not None and ad.get('k') == 'MCall' and ad.get('m') in ('map', 'and_then', 'map_or', 'map_or_else', 'then', 'filter_map') and cl in ad['args'] \
                            and 'Option<' in (L.ty(ad['recv']) or ''):
                        node = ad
                        par = pm.get(id(node))
                        while par is not None and (par.get('k') in ('Try', 'AddrOf') or (par.get('k') == 'MCall' and par.get('recv') is node and par.get('m') in ('map', 'unwrap_or_default', 'unwrap_or', 'ok', 'as_ref', 'into_iter', 'and_then', 'unwrap_or_else', 'filter'))):
                            node = par
                            par = pm.get(id(node))
                        continue
                break
            if par is None:
                ck.ob('R4.1u', key, True, L.loc(c), 'returned to the caller', nontrivial=False, fn=fn['path'])
                continue
            pk = par.get('k')
            if pk == 'Semi':
                ck.ob('R4.1u', key, False, L.loc(c), 'the value obtained by evaluating bindings is computed and dropped (`%s;`)' % pp(node, maxlen=60), fn=fn['path'])
            elif pk == 'Let' and par.get('init') is node:
                binds = H.pat_bindings(par['pat'])
                blk = pm.get(id(par))
                rest_ok = True
                bad = None
                if blk is not None and blk.get('k') == 'Block':
                    stmts = blk.get('stmts', [])
                    idx = next((j for j, s in enumerate(stmts) if s is par), None)
                    rest = {'k': 'Block', 'stmts': stmts[idx + 1:] if idx is not None else []}
                    if 'e' in blk:
                        rest['e'] = blk['e']
                    for b in binds:
                        if b['name'].startswith('_'):
                            rest_ok = False
                            bad = b['name'] + ' (discarded)'
                            break
                        if not definitely_uses(rest, b['hid'], L):
                            # tuple results: the PropertyCode reference slot is informational; require the value slot only
                            slot = H._slot_of_pat(par['pat'], b['hid'])
                            inner = H._slot_of_pat(par['pat'], b['hid'])
                            if par['pat'].get('k') != 'Bind' and len(binds) > 1 and b is binds[0] and re.search(r'get_(simple_value|bool|enum|i32)|LayoutItemAttached', cal):
                                continue
                            rest_ok = False
                            bad = b['name']
                            break
                ck.ob('R4.1u', key, rest_ok, L.loc(c), 'bound and used on every path' if rest_ok else
                      'result bound to `%s` is not used on every path after it is computed: a binding is evaluated (marked constant) but its value can be dropped' % bad, fn=fn['path'])
            elif pk in ('Match',) and par.get('e') is node:
                bad = []
                for arm in par['arms']:
                    pt = pp(arm['pat'])
                    if pt.startswith('Some('):
                        bs_ = H.pat_bindings(arm['pat'])
                        used = [b for b in bs_ if any(x.get('k') == 'Path' and x.get('hid') == b['hid'] for x in walk(arm['body']))]
                        # a literal inside the pattern (`Some((_, true))`, as matches! writes it) decides on the value: that is a use
                        tests = any(x.get('k') in ('PLit', 'PRange') for x in walk(arm['pat']))
                        if not used and not tests and not nonediag.pushes_in(L, arm['body']):
                            bad.append(pt)
                ck.ob('R4.1u', key, not bad, L.loc(c), 'every Some(..) arm uses the value or pushes a diagnostic' if not bad else 'Some arm(s) %s drop the value silently' % bad, fn=fn['path'])
            elif pk == 'Tup' and (pm.get(id(par)) or {}).get('k') == 'Match' and pm[id(par)].get('e') is par:
                # several results matched together: in every arm this component is absent (None), used, decided on, or diagnosed
                slot = next(j for j, x in enumerate(par['es']) if x is node)
                bad = []
                for arm in pm[id(par)]['arms']:
                    alts = arm['pat']['alts'] if arm['pat'].get('k') == 'POr' else [arm['pat']]
                    for alt in alts:
                        comp = alt['subs'][slot] if alt.get('k') == 'PTup' and slot < len(alt.get('subs', [])) else alt
                        if comp.get('k') == 'PPath' and (comp.get('def') or '').endswith('Option::None'):
                            continue
                        bs_ = H.pat_bindings(comp)
                        used = [b for b in bs_ if any(x.get('k') == 'Path' and x.get('hid') == b['hid'] for x in walk(arm['body']))]
                        tests = any(x.get('k') in ('PLit', 'PRange') for x in walk(comp))
                        if not used and not tests and not nonediag.pushes_in(L, arm['body']):
                            bad.append('%s in arm %s' % (pp(comp, maxlen=30), pp(alt, maxlen=50)))
                ck.ob('R4.1u', key, not bad, L.loc(c), 'in every arm of the joint match the value is absent, used or diagnosed' if not bad else
                      'the joint match has arm(s) where a value that may be present is dropped silently: %s' % bad, fn=fn['path'])
            elif pk == 'LetCond' and par.get('e') is node:
                iff = pm.get(id(par))
                bs_ = H.pat_bindings(par['pat'])
                body = iff.get('then') if iff is not None and iff.get('k') == 'If' else None
                used = body is not None and any(any(x.get('k') == 'Path' and x.get('hid') == b['hid'] for x in walk(body)) for b in bs_)
                ck.ob('R4.1u', key, bool(used), L.loc(c), 'if-let body uses the bound value' if used else 'if-let binds nothing that is used: value dropped', fn=fn['path'])
            else:
                ck.ob('R4.1u', key, True, L.loc(c), 'consumed as an operand of %s' % pk, nontrivial=False, fn=fn['path'])
    ck.floor('R4.1u', n_use, 40, 'uses of binding-evaluating functions')

    # ---- R4.1d nothing a uigen function computes is thrown away; every object reaches both passes ------------------------
    n_let = 0
    n_disc = 0
    for fn in L.fn_list:
        if not (fn['path'].startswith('uigen::') or '<uigen::' in fn['path']):
            continue
        if fn.get('x') in ('derive',):
            continue
        for n in walk(fn['body']):
            if n.get('k') == 'Let' and n.get('init') is not None:
                init = H.strip_refs(n['init'])
                if init.get('k') == 'Try':
                    init = H.strip_refs(init['e'])
                if init.get('k') in ('Call', 'MCall') and (H.callee(init) or '') in L.fns:
                    n_let += 1
                    wilds = [x for x in walk(n['pat']) if x.get('k') == 'Wild']
                    unused = [b for b in H.pat_bindings(n['pat']) if b['name'].startswith('_') and b['name'] != '_']
                    if wilds or unused:
                        n_disc += 1
                        ck.ob('R4.1d', 'discarded-result|%s|%s' % (short(fn['path']), short(H.callee(init))), False, L.loc(n),
                              '`let %s = %s`: part of what %s computed from the bindings is thrown away; bindings it evaluated count as handled although their values go nowhere' %
                              (pp(n['pat'], maxlen=30), pp(init, maxlen=50), short(H.callee(init))), fn=fn['path'])
            if n.get('k') == 'Block':
                for st in n.get('stmts', []):
                    if st.get('k') == 'Semi':
                        e = H.strip_refs(st['e'])
                        if e.get('k') in ('Call', 'MCall') and (H.callee(e) or '') in L.fns and (L.ty(e) or '()') not in ('()', '!'):
                            n_disc += 1
                            ck.ob('R4.1d', 'discarded-result|%s|%s' % (short(fn['path']), short(H.callee(e))), False, L.loc(st),
                                  '`%s;` drops the %s it returns' % (pp(e, maxlen=50), (L.ty(e) or '')[:50]), fn=fn['path'])
    ck.floor('R4.1d', n_let, 60, 'let-bound results of crate functions in uigen')
    ck.ob('R4.1d', 'no-discarded-results-in-uigen', n_disc == 0, '', '%d let-bound crate-function results inspected, %d discarded' % (n_let, n_disc), nontrivial=False)
    ub = next((f for f in L.fn_list if f['path'].endswith('uigen::binding::UiSupportCode::build')), None)
    if ub is not None:
        lp = next((n for n in walk(ub['body']) if n.get('k') == 'For' and 'flat_iter()' in pp(n['iter'], maxlen=200)), None)
        # exits of the object loop itself: a `continue` that belongs to a nested loop (over the bindings of one object) skips a binding,
        # not an object — that is judged by the None => diagnosed analysis (loop units)
        def of_outer(x):
            for a in H.ancestors(ub, x):
                if a is lp:
                    return True
                if a.get('k') in ('For', 'Loop', 'Closure'):
                    return False
            return False
        skips = [x['k'] for x in walk(lp['body'], enter_closures=False) if x.get('k') in ('Continue', 'Break') and of_outer(x)] if lp else ['no loop']
        filt = [m.get('m') for m in walk(lp['iter']) if m.get('k') == 'MCall' and m.get('m') in ('filter', 'skip', 'take', 'step_by', 'skip_while', 'take_while', 'filter_map')] if lp else []
        ck.ob('R4.1d', 'support-pass-visits-every-object', not skips and not filt, L.loc(lp) if lp else L.loc(ub['body']),
              'for (obj_node, code_map) in all objects: no object is skipped' if not skips and not filt else
              'the code-generation pass skips objects (%s): a dynamic binding on a skipped object is neither generated nor diagnosed (the "not readable/writable" errors are raised only here)' % (skips + filt), fn=ub['path'])

    # ---- R4.1c callbacks never discarded ------------------------------------------------------------
    n_cb = 0
    for fn in L.fn_list:
        for c in H.calls_in(fn['body']):
            if H.is_call_to(c, 'build_properties_callbacks'):
                n_cb += 1
                pm = H.parents(fn)
                par = pm.get(id(c))
                ok = False
                why = 'result not destructured by a let'
                if par is not None and par.get('k') == 'Let' and par['pat'].get('k') == 'PTup' and len(par['pat']['subs']) == 2:
                    s1 = par['pat']['subs'][1]
                    if s1.get('k') == 'Bind' and not s1['name'].startswith('_'):
                        uses = [x for x in walk(fn['body']) if x.get('k') == 'Path' and x.get('res') == 'local' and x.get('hid') == s1['hid']]
                        ok = bool(uses)
                        why = 'callbacks bound to `%s`, used %d time(s)' % (s1['name'], len(uses))
                    else:
                        why = 'callbacks slot is discarded by the pattern `%s`' % pp(s1)
                elif par is not None and par.get('k') == 'Field':
                    why = 'only slot .%s of the result is kept' % par.get('f')
                ck.ob('R4.1c', 'callbacks-kept|%s' % short(fn['path']), ok, L.loc(c), why, fn=fn['path'])
    ck.floor('R4.1c', n_cb, 2, 'call sites of build_properties_callbacks')

    # ---- R4.2 selection predicate ----------------------------------------------------------------------
    pred = 'uigen::objcode::PropertyCode::is_evaluated_constant'
    roles = {}
    for fn in L.fn_list:
        if fn.get('x') in panicsites.DERIVES:
            continue
        for n in H.calls_in(fn['body']):
            if H.callee(n) == pred or H.callee_decl(n) == pred:
                par = H.parents(fn).get(id(n))
                sel = H.selects_by_negated(fn, n)
                negated = (par is not None and par.get('k') == 'Unary' and par.get('op') == 'Not') or sel == 'continue'
                in_filter = any(a.get('k') == 'MCall' and a.get('m') == 'filter' for a in H.ancestors(fn, n)) or sel == 'continue'
                role = short(fn['path'])
                roles.setdefault(role, []).append((negated, in_filter, n))
    for role, need in (('build', 2), ('UiSupportCode::build', 1)):
        got = roles.get(role, [])
        ck.ob('R4.2', 'selection|%s' % role, len(got) >= need and all(neg and flt for neg, flt, _ in got), L.loc(got[0][2]) if got else '',
              '%d filter(s) on !is_evaluated_constant() in %s' % (len(got), role))
    ck.ob('R4.2', 'recursive-definition', 'PropertyCode::is_evaluated_constant' in roles, '', 'nested maps are constant iff all members are')
    extra = sorted(set(roles) - {'build', 'UiSupportCode::build', 'PropertyCode::is_evaluated_constant'})
    ck.ob('R4.2', 'no-other-selector', not extra, '', 'other users of the predicate: %s' % extra)
    # the Generate selection iterates every object and every property
    us = L.fn('uigen::binding::UiSupportCode::build')
    if us is not None:
        loops = [n for n in walk(us['body']) if n.get('k') == 'For']
        outer = next((n for n in loops if any(x.get('m') == 'flat_iter' for x in H.calls_in(n['iter']))), None)
        ok = outer is not None and not any(x.get('m') in ('skip', 'take', 'filter', 'step_by', 'rev') for x in H.calls_in(outer['iter']))
        ck.ob('R4.2', 'generate-visits-every-object', ok, L.loc(outer) if outer else '', 'for .. in object_tree.flat_iter().zip(object_code_maps) without skipping')
        cbs = [c for c in H.calls_in(us['body']) if c.get('m') == 'callbacks']
        ck.ob('R4.2', 'generate-takes-callbacks', bool(cbs), L.loc(cbs[0]) if cbs else '', 'code_map.callbacks() feeds the generated callbacks')

    # ---- R4.3 pseudo properties -----------------------------------------------------------------------------
    excl = {}
    for fn in L.fn_list:
        if not fn['path'].startswith('uigen::'):
            continue
        for c in H.calls_in(fn['body']):
            if H.is_call_to(c, 'make_serializable_map', 'make_value_map') and len(c['args']) >= 3:
                a = c['args'][2]
                lits = [x['v'] for x in walk(a) if x.get('k') == 'Lit' and x.get('lk') == 'str']
                rl = H.root_local(a)
                if rl is not None:
                    # names pushed into the local vector
                    site = H.binding_sites(fn).get(rl['hid'], {})
                    if site.get('kind') == 'let' and 'init' in site['node']:
                        lits += [x['v'] for x in walk(site['node']['init']) if x.get('k') == 'Lit' and x.get('lk') == 'str']
                    for c2 in H.calls_in(fn['body']):
                        if c2.get('m') in ('extend', 'push') and (H.root_local(c2['recv']) or {}).get('hid') == rl['hid']:
                            lits += [x['v'] for x in walk(c2['args'][0]) if x.get('k') == 'Lit' and x.get('lk') == 'str']
                for v in lits:
                    excl.setdefault(v, set()).add(fn['path'])
    ck.floor('R4.3', len(excl), 11, 'pseudo-property names excluded from generic maps')
    # reviewed: names whose reader is deliberately conditional
    COND_OK = {'model': 'excluded for every widget but read here for combo boxes and list widgets only: on the other item views the binding is no constant and is left '
                        'to the code-generation pass (setModel), which reports what it cannot translate'}
    for name, fns in sorted(excl.items()):
        handlers = []
        hsites = []
        for fn in L.fn_list:
            if not fn['path'].startswith('uigen::'):
                continue
            for c in H.calls_in(fn['body']):
                if H.is_call_to(c, 'make_serializable_map', 'make_value_map'):
                    continue
                nm = c.get('m') or short(H.callee_decl(c) or '').split('::')[-1]
                if nm in ('extend', 'push', 'into_vec', 'box_new', 'as_ref', 'vec'):
                    continue
                if any(H.lit_value(a) == name for a in c['args']):
                    handlers.append('%s:%s' % (short(fn['path']), nm))
                    hsites.append((fn, c))
            # match arms on the key (LayoutFlow::parse reads the three grid pseudo properties by name)
        ck.ob('R4.3', 'handler|%s' % name, bool(handlers), '', 'excluded in %s; handled by %s' % (sorted(short(f) for f in fns), sorted(set(handlers))[:4]) if handlers else
              'pseudo property "%s" is excluded from generic handling in %s but no code reads it: the binding takes effect nowhere' % (name, sorted(short(f) for f in fns)))
        # the reader runs whenever the name is excluded: a binding that is excluded from the generic map and then read on some paths only is,
        # on the other paths, never evaluated — it takes no effect and its errors are not reported
        def branch_guards(f_, node):
            out = []
            for a in H.ancestors(f_, node):
                if a.get('k') == 'If' and (any(x is node for x in walk(a['then'])) or ('els' in a and any(x is node for x in walk(a['els'])))):
                    out.append(a)
                elif a.get('k') == 'Match' and not any(x is node for x in walk(a['e'])):
                    out.append(a)
            return out
        excl_guards = {}
        for fp in fns:
            f_ = L.fns[fp]
            for x in walk(f_['body']):
                if x.get('k') == 'Lit' and x.get('v') == name:
                    par = next((a for a in H.ancestors(f_, x) if a.get('k') in ('MCall', 'Call', 'Let', 'Array')), None)
                    if par is not None and not (par.get('k') in ('MCall', 'Call') and any(hc is par for _, hc in hsites)):
                        excl_guards.setdefault(fp, []).append({id(g) for g in branch_guards(f_, x)})
        uncond = []
        for f_, hc in hsites:
            gs = {id(g) for g in branch_guards(f_, hc)}
            if not gs or any(gs <= eg for eg in excl_guards.get(f_['path'], [])):
                uncond.append(short(f_['path']))
        okc = bool(uncond) or name in COND_OK or not hsites
        ck.ob('R4.3', 'read-whenever-excluded|%s' % name, okc, L.loc(hsites[0][1]) if hsites else '',
              ('read unconditionally in %s' % sorted(set(uncond))[:3]) if uncond else ('reviewed: ' + COND_OK[name]) if name in COND_OK else
              'pseudo property "%s" is excluded from generic handling, but every place that reads it is conditional (%s): on the other paths the binding is never evaluated, '
              'so it has no effect and an error in it is never reported' % (name, sorted(set(short(f_['path']) for f_, _ in hsites))))

    diagnostics_store(ck, L)
    layout_data_written(ck, L)

    # ---- R4.4 CLI -----------------------------------------------------------------------------------------
    guf = B.fn('generate_ui_file')
    gu = B.fn('generate_ui')
    if guf is None or gu is None:
        ck.floor('R4.4', 0, 1, 'bin fns generate_ui / generate_ui_file')
        return
    ck.analysed('bin::generate_ui_file')
    import rules.c15 as c15
    writes = c15.output_write_calls(B, guf)       # with_output_file, directly or through a helper of the bin crate
    ck.floor('R4.4', len(writes), 2, 'writes in generate_ui_file')
    syn = next((n for n in walk(guf['body']) if n.get('k') == 'If' and any(x.get('m') == 'has_syntax_error' for x in H.calls_in(n['c'])) and n['c'].get('k') != 'Unary'), None)
    ok = syn is not None and any(r.get('k') == 'Ret' and r.get('e', {}).get('k') == 'Call' and (r['e'].get('def') or '').endswith('Result::Err') for r in walk(syn['then']))
    ck.ob('R4.4', 'syntax-error-returns-err', ok, B.loc(syn) if syn else '', 'if doc.has_syntax_error() { ..; return Err(..) }')
    bm = next((n for n in walk(guf['body']) if n.get('k') == 'Match' and any(H.is_call_to(x, 'uigen::build') for x in H.calls_in(n['e']))), None)
    if bm is None:
        ck.ob('R4.4', 'build-result-match', False, '', 'match on uigen::build(..) not found')
    else:
        good = []
        bad = []
        for arm in bm['arms']:
            if diverges(arm['body']):
                rets = [r for r in walk(arm['body']) if r.get('k') == 'Ret']
                if not all(r.get('e', {}).get('k') == 'Call' and (r['e'].get('def') or '').endswith('Result::Err') for r in rets):
                    bad.append('arm %s returns without Err' % pp(arm['pat']))
            else:
                g = arm.get('guard')
                okg = g is not None and g.get('k') == 'Unary' and g.get('op') == 'Not' and any(x.get('m') == 'has_error' for x in H.calls_in(g))
                okp = pp(arm['pat']).startswith('Some(')
                (good if okg and okp else bad).append('arm %s%s' % (pp(arm['pat']), ' if ' + pp(g) if g else ''))
        ck.ob('R4.4', 'only-error-free-builds-continue', len(good) == 1 and not bad, B.loc(bm), 'continuing arm: %s; problems: %s' % (good, bad))
        # the diagnostics tested are the ones handed to build
        barg = next((x for x in H.calls_in(bm['e']) if H.is_call_to(x, 'uigen::build')), None)
        ga = [x for arm in bm['arms'] if 'guard' in arm for x in H.calls_in(arm['guard']) if x.get('m') == 'has_error']
        same = bool(ga) and barg is not None and (H.root_local(ga[0]['recv']) or {}).get('hid') == (H.root_local(barg['args'][2]) or {}).get('hid')
        ck.ob('R4.4', 'guard-tests-the-build-diagnostics', same, B.loc(bm), 'has_error() is called on the Diagnostics passed to uigen::build')
    for i, w in enumerate(writes):
        for nm, g in (('syntax-error-return', syn), ('has-error-match', bm)):
            ok = g is not None and H.lexically_precedes_dominating(guf, g, w)
            ck.ob('R4.4', 'write-%d-dominated-by|%s' % (i + 1, nm), ok, B.loc(w), 'the rejection precedes the write on every path')
    calls = [c for c in H.calls_in(gu['body']) if H.is_call_to(c, 'generate_ui_file')]
    pm = H.parents(gu)
    ok = len(calls) == 1 and pm.get(id(calls[0]), {}).get('k') == 'Try'
    how = 'generate_ui_file(..)? : a diagnosed source makes generate_ui return Err (exit status 1)'
    if not ok and len(calls) == 1:
        ok, how = sticky_error_ok(gu, calls[0], pm)
    ck.ob('R4.4', 'per-source-error-propagates', ok, B.loc(calls[0]) if calls else '',
          how if ok else
          'the result of generate_ui_file(..) is not propagated with `?`: a later source can mask an earlier error and the command can exit 0')
    # the error kind reaches main's exit(1): dispatch returns the Result unchanged
    ds = B.fn('dispatch')
    if ds is not None:
        vals = list(H.return_exprs(ds['body']))
        ok = bool(vals) and all(v.get('k') == 'Call' for v in vals)
        ck.ob('R4.4', 'dispatch-forwards-result', ok, B.loc(ds['body']), 'dispatch returns the command result unchanged')
    mn = B.fn('main')
    if mn is not None:
        m = next((n for n in walk(mn['body']) if n.get('k') == 'Match' and any(H.is_call_to(x, 'dispatch') for x in H.calls_in(n['e']))), None)
        ok = False
        if m is not None:
            ok = True
            for arm in m['arms']:
                pt = pp(arm['pat'])
                if pt.startswith('Err('):
                    if not any((H.callee_decl(x) or '') == 'std::process::exit' for x in H.calls_in(arm['body'])):
                        ok = False
        ck.ob('R4.4', 'every-err-exits-nonzero', ok, B.loc(m) if m else '', 'each Err(..) arm in main calls process::exit(1)')

    # ---- R4.9 "ill-typed": the acceptance rules of calls and returns (shared with C05) -----------------------------------------------------------
    import core as _core9
    import rules.c05 as c05
    ck.rule('R4.9', 'a call or a return the type checker must refuse is refused: argument count and types, result types (shared with C05)')
    s5 = _core9.Shared(ck, 'R4.9', lambda r, k: r in ('R5.6', 'R5.7'), 'C05:', ' [what the checker accepts gets no diagnostic: the command exits 0 and writes both files]')
    c05.run(s5)
    ck.floor('R4.9', s5.count, 10, 'shared C05 R5.6 / R5.7 obligations')
