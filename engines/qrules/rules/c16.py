"""C16: the support header is self-consistent, valid C++ over the documented Qt API."""
import re
from facts import walk, short, pp
import hirutil as H
import labelflow as LF
import aeval
import core

LEVEL = 'other'
TECHNIQUE = ('format-template inventory of uigen::binding over typed HIR (which Rust formatting trait spells which C++ token), '
             'abstract evaluation of the operator admissibility tables intersected with a C++ validity oracle, facility/include '
             'sibling cross-check, name provenance (every emitted function name = fixed prefix + one UniqueNameGenerator result, '
             'prefixes prefix-free), counter/array-size agreement and unfiltered per-binding emitter loops, assignability table intersected with '
             'the C++ implicit-conversion rules')
LEVEL_TEXT = ('Whether the header compiles is not decided (no C++ front end in this family). Decided are the structural clauses of the '
              'statement: string/float constants never reach the header in Rust spelling; every admitted operator x operand-type '
              'combination is printed as a valid C++ expression; every std/Qt facility printed for a builtin has its include inserted '
              'by the sibling scan, which visits every code body the translator can print (including nested gadget maps); every '
              'function name is a prefix from a prefix-free set plus a name issued by the single generator; index enum, guard bitset '
              'and observer arrays are sized from the same collections/counters the indices come from, and every per-binding '
              'emitter loops over all bindings.')
LEVEL_NOTE = ('Trusted: oracles/cxx_validity.json (which printed operator forms are well-formed C++17 for which operand types), '
              'tables/cxx_facilities.json (facility -> include or "via ui header"). Not decided: that member names taken from the '
              'metatypes exist in the installed Qt; C++ overload resolution of Qt methods.')
DESIGN_REF = 'DESIGN.md section 4, C16'

RUST_ESCAPERS = ('escape_default', 'escape_debug', 'escape_unicode')
FILTERS = LF.FILTERS


def mod_fns(L, prefix):
    return [f for f in L.fn_list if f['path'].startswith(prefix) or ('<' + prefix) in f['path'] or f['path'].split(' as ')[0].lstrip('<').startswith(prefix)]


def run(ck):
    if getattr(ck, 'depth', 0) >= 2:
        return      # a shared run of a shared run: nothing of it is selected, and mutual sharing must end somewhere
    _run(ck)
    _shares(ck, ck.facts.lib)


def _run(ck):
    F = ck.facts
    L = F.lib
    FAC = core.load_table('cxx_facilities.json')
    ORA = core.load_oracle('cxx_validity.json')
    ck.explanation = (
        'R16.1 literal spelling: no Debug-formatted str/String with a non-literal value, no LowerExp float without a finiteness guard, '
        'no Rust escape_* helper in uigen::binding; a string escaper, if present, maps every ASCII char to a C++ escape of the same char. '
        'R16.2 every operator/builtin x operand-type cell the dynamic emitters admit is valid C++ as printed (oracle). R16.3 each '
        'facility printed in a BuiltinFunctionKind arm of format_rvalue has its include inserted in the same-variant arm of '
        'collect_system_includes; the scan covers all maps, bodies, blocks, statements and nested property maps; unknown facilities '
        'fail closed. R16.4 function-name prefixes are prefix-free; every name field is filled from UniqueNameGenerator::generate of '
        'one generator instance; the generator never issues a name twice (shared with C10 R10.3). R16.5 per-binding emitters loop '
        'over all bindings/callbacks without filters; bindingGuard_ size, shift and mask agree; observer array size and observer '
        'indices come from the same counter, which only alloc_property_observer advances.')
    for rid, text in (('R16.1', 'constants are spelled as C++ literals, not as Rust literals'),
                      ('R16.2', 'admitted operator x type combinations are valid C++ as printed'),
                      ('R16.3', 'every facility printed has its include; the include scan sees every printed body'),
                      ('R16.4', 'emitted function names are distinct'),
                      ('R16.5', 'indices, guard and observer arrays are sized from the same counters'),
                      ('R16.6', 'callback parameters are passed in a way that keeps every use well-formed')):
        ck.rule(rid, text)

    bfns = [f for f in L.fn_list if 'uigen::binding' in f['path']]
    sites_of = {f['path']: H.format_sites_in_fn(f) for f in bfns}

    def enclosing_arm_pat(fn, node):
        arm = next((a for a in H.ancestors(fn, node) if a.get('k') == 'Arm'), None)
        return pp(arm['pat'], maxlen=60) if arm is not None else None

    # ---- R16.1 ---------------------------------------------------------------------------------------------------
    n_fmt = 0
    for fn in bfns:
        for s in sites_of[fn['path']]:
            n_fmt += 1
            for i, (trait, e) in enumerate(s['args'] or []):
                ty = (L.ty(e) or '') if e is not None else ''
                base = ty.replace('&', '').strip()
                if trait == 'new_debug' and (base in ('str', 'std::string::String') or 'Cow<' in base):
                    lit = e is not None and H.strip_refs(e).get('k') == 'Lit'
                    where = enclosing_arm_pat(fn, s['node']) or pp(e, maxlen=40).lstrip('&')
                    key = 'rust-debug-string|%s|%s' % (short(fn['path']), where)
                    ident = False
                    if not lit and e is not None and H.strip_refs(e).get('k') == 'Field' and H.strip_refs(e).get('f') == 'tr_context':
                        ident = tr_context_is_type_name(L, bfns)
                    ck.ob('R16.1', key, lit or ident, L.loc(s['node']),
                          'constant %s: printable ASCII, Debug spelling equals the C++ spelling' % pp(e, maxlen=40) if lit else
                          'the translation context is the document type name, the very string also printed bare as the C++ class name: identifier characters are spelled alike by Debug and C++' if ident else
                          '`{:?}` spells a run-time string the Rust way: control, zero-width and other non-printing characters become \\u{..}, which is not a C++17 escape', fn=fn['path'])
                if trait in ('new_lower_exp', 'new_upper_exp') and 'f64' in base:
                    where = enclosing_arm_pat(fn, s['node']) or pp(e, maxlen=40)
                    guards = [a for a in H.ancestors(fn, s['node']) if a.get('k') in ('If', 'Arm') and 'is_finite' in pp(a.get('c') or a.get('guard') or {}, maxlen=200)]
                    inv = False
                    if not guards:
                        # the producers keep the constant finite (C03 R3.3 float-constant-is-finite, on the same facts)
                        import core as _coref
                        import rules.c03 as c03

                        class _Fin:
                            depth = getattr(ck, 'depth', 0) + 1
                            res = []

                            def ob(self, rule, key, ok, *a, **k):
                                self.res.append(ok)

                            def floor(self, rule, count, minimum, what=''):
                                self.res.append(count >= minimum)

                            def analysed(self, *a):
                                pass
                        fin = _Fin()
                        fin.res = []
                        c03.float_constants_finite(fin, L, 'x')
                        inv = bool(fin.res) and all(fin.res)
                    ck.ob('R16.1', 'rust-float-literal|%s|%s' % (short(fn['path']), where), bool(guards) or inv, L.loc(s['node']),
                          'finite values only reach `{:e}`' + ('' if guards else ' (every construction of a Float constant is guarded: C03 R3.3)') if guards or inv else
                          '`{:e}` prints non-finite values as `inf`/`NaN`, which are not C++ literals (a folded 1.0/0.0 reaches this arm)', fn=fn['path'])
        for c in H.calls_in(fn['body']):
            if c.get('m') in RUST_ESCAPERS:
                ck.ob('R16.1', 'rust-escaper|%s|%s' % (short(fn['path']), c['m']), False, L.loc(c),
                      '%s() produces Rust escapes (\\u{..}, \\\' ) inside a C++ literal' % c['m'], fn=fn['path'])
    ck.floor('R16.1', n_fmt, 120, 'format sites in uigen::binding')
    # string constants of the IR reach the output only through Display of an escaped/quoted form
    fo = next((f for f in bfns if f['name'] == 'format_operand'), None)
    if fo is None:
        ck.floor('R16.1', 0, 1, 'fn format_operand')
    else:
        ck.analysed(fo['path'])
        m = next((n for n in walk(fo['body']) if n.get('k') == 'Match' and any('ConstantValue::' in pp(a['pat']) for a in n['arms'])), None)
        arms = [(pp(a['pat'], maxlen=60), a) for a in (m['arms'] if m else [])]
        for name, arm, ordn in [(nm_, a, i) for nm_ in ('CString', 'QString') for i, a in enumerate([a for p, a in arms if 'ConstantValue::%s' % nm_ in p] or [None])]:
            if arm is None:
                ck.ob('R16.1', 'string-constant-arm|%s' % name, False, L.loc(fo['body']), 'arm not found')
                continue
            if ordn:
                name = '%s#%d' % (name, ordn + 1)
            bind = H.pat_bindings(arm['pat'])
            hid = bind[0]['hid'] if bind else None
            raw = []
            dbg = []
            for st in sites_of[fo['path']]:
                if not any(x is st['node'] for x in walk(arm['body'])):
                    continue
                for tr, e in st['args'] or []:
                    if e is not None and H.strip_refs(e).get('k') == 'Path' and H.strip_refs(e).get('hid') == hid:
                        (dbg if tr == 'new_debug' else raw).append(tr)
            esc = []
            for c in H.calls_in(arm['body']):
                cal = L.fns.get(H.callee(c) or '')
                if cal is not None and cal['path'].startswith('uigen::binding') and any((H.root_local(a) or {}).get('hid') == hid for a in c.get('args', [])):
                    esc.append(cal)
            other = [c.get('m') for c in H.calls_in(arm['body']) if c.get('k') == 'MCall' and (H.root_local(c['recv']) or {}).get('hid') == hid and c.get('m') not in ('clone', 'as_str', 'as_ref')]
            if raw or other:
                ck.ob('R16.1', 'string-constant-arm|%s' % name, False, L.loc(arm),
                      'the string payload is printed as is (%s): quotes, backslashes and control characters of the source string end up unescaped inside the C++ literal' % (raw + other), fn=fo['path'])
            elif esc:
                res = check_escaper(ck, L, esc[0], ORA)
                ck.ob('R16.1', 'string-constant-arm|%s' % name, res, L.loc(arm), 'the payload is spelled by %s, whose per-character table matches the C++ oracle' % short(esc[0]['path']) if res else
                      'the payload is spelled by %s, whose table does not match the C++ oracle' % short(esc[0]['path']), fn=fo['path'])
            else:
                ck.ob('R16.1', 'string-constant-arm|%s' % name, bool(dbg), L.loc(arm), 'payload printed with Debug (spelling judged at the format site)' if dbg else 'payload never printed', nontrivial=False)

    # ---- R16.2 ---------------------------------------------------------------------------------------------------------
    import rules.c05 as c05
    I4, _ = c05.dyn_interp(L)
    TD = {'bool': ('Concrete', c05.BOOL), 'int': ('Concrete', c05.INT), 'uint': ('Concrete', c05.UINT), 'double': ('Concrete', c05.DOUBLE),
          'QString': ('Concrete', c05.STRING), 'enum': ('Concrete', c05.E1), 'pointer': ('Concrete', c05.PA), 'int-literal': ('ConstInteger',),
          'string-literal': ('ConstString',), 'list': ('Concrete', c05.LS), 'QVariant': ('Concrete', c05.VARIANT),
          'null': ('NullPointer',), 'flags': ('Concrete', c05.E2), 'scoped-enum': ('Concrete', c05.E3)}

    def cxx_type(name):
        return {'int-literal': 'int', 'string-literal': 'QString'}.get(name, name)
    n2 = 0
    if c05.EMIT_BINARY in L.fns and c05.EMIT_UNARY in L.fns:
        ck.analysed(c05.EMIT_BINARY)
        for cls, ops in c05.OPS.items():
            for op in ops:
                for ln, lt in TD.items():
                    for rn, rt in TD.items():
                        g = c05.dyn_binary(I4, cls, op, lt, rt)
                        if g is None:
                            continue
                        n2 += 1
                        if isinstance(g, str):
                            ck.ob('R16.2', 'cxx-valid|%s %s|%s,%s' % (cls, op, ln, rn), False, '', 'cell could not be evaluated: %s' % g)
                            continue
                        lc, rc = cxx_type(ln), cxx_type(rn)
                        row = ORA['binary'].get(cls, {}).get(op) or ORA['binary'].get(cls, {}).get('*')
                        ok = row is not None and [lc, rc] in row['valid']
                        key = 'cxx-valid|%s %s|%s,%s' % (cls, op, lc, rc)
                        ck.ob('R16.2', key, ok, '', '`%s %s %s` is well-formed' % (lc, ORA['tokens'].get(op, op), rc) if ok else
                              'admitted and printed verbatim as `%s %s %s`, which is ill-formed C++ (%s)' % (lc, ORA['tokens'].get(op, op), rc, (row or {}).get('why', 'not in the validity table')))
        for cls, ops in c05.UNOPS:
            for op in ops:
                for tn, tt in TD.items():
                    g = c05.dyn_unary(I4, cls, op, tt)
                    if g is None:
                        continue
                    n2 += 1
                    tc = cxx_type(tn)
                    row = ORA['unary'].get(cls, {}).get(op)
                    ok = row is not None and tc in row['valid'] and not isinstance(g, str)
                    ck.ob('R16.2', 'cxx-valid|unary %s %s|%s' % (cls, op, tc), ok, '', '`%s%s` is well-formed' % (ORA['tokens'].get('u' + cls + op, op), tc) if ok else
                          'admitted unary %s %s on %s is ill-formed C++ as printed (%s)' % (cls, op, tc, (row or {}).get('why', 'not in the validity table')))
    if c05.VISIT_BUILTIN in L.fns:
        for kind in ('Max', 'Min'):
            for ln, lt in TD.items():
                for rn, rt in TD.items():
                    g = c05.dyn_builtin(I4, (kind,), [lt, rt])
                    if g is None:
                        continue
                    n2 += 1
                    lc, rc = cxx_type(ln), cxx_type(rn)
                    # the C++ types of the two arguments as they are printed: the builder may have given a literal a typed temporary
                    ats = c05.dyn_builtin_arg_types(I4, (kind,), [lt, rt])
                    if ats and len(ats) == 2 and all(a is not None for a in ats):
                        rev = {repr(v): k_ for k_, v in TD.items()}
                        lc = cxx_type(rev.get(repr(ats[0]), lc))
                        rc = cxx_type(rev.get(repr(ats[1]), rc))
                    ok = lc == rc and lc in ORA['builtin']['Max']['valid'] and not isinstance(g, str)
                    ck.ob('R16.2', 'cxx-valid|%s|%s,%s' % (kind, lc if ln != 'int-literal' else 'int-literal', rc if rn != 'int-literal' else 'int-literal'), ok, '',
                          'std::%s(%s, %s) deduces one type' % (kind.lower(), lc, rc) if ok else
                          'admitted and printed as std::%s(<%s>, <%s>): template argument deduction fails for different argument types' % (kind.lower(), lc, rc))
        # console.log(x) is printed as `qDebug().noquote() << <x>` for whatever the builder admits
        TDL = dict(TD)
        TDL.update({'null': ('NullPointer',), 'empty-list': ('EmptyList',), 'void': ('Concrete', c05.VOID)})
        for tn, tt in TDL.items():
            g = c05.dyn_builtin(I4, ('ConsoleLog', ('Debug',)), [tt])
            if g is None:
                continue
            n2 += 1
            tc = cxx_type(tn)
            row = ORA['builtin'].get('ConsoleLog', {})
            ok = tc in row.get('valid', []) and not isinstance(g, str)
            ck.ob('R16.2', 'cxx-valid|ConsoleLog|%s' % tn, ok, '', '`qDebug() << <%s>` is well-formed' % tc if ok else
                  'console.log(<%s>) is admitted and printed as `qDebug() << ..`, which is ill-formed for that operand (%s)' % (tn, g if isinstance(g, str) else row.get('why', '')))
    ck.floor('R16.2', n2, 60, 'admitted operator/builtin cells')

    # ---- R16.3 ----------------------------------------------------------------------------------------------------------
    fr = next((f for f in bfns if f['name'] == 'format_rvalue'), None)
    cs = next((f for f in bfns if f['name'] == 'collect_system_includes'), None)
    tok_re = re.compile(r'\b(std::\w+|q(?:Debug|Info|Warning|Critical|Fatal)|Q_[A-Z_]+|Q[A-Z]\w+|quint\d+|qint\d+)\b')
    n_fac = 0
    for fn in bfns:
        texts = [(H.fmt_text(s), s['node']) for s in sites_of[fn['path']]]
        texts += [(n.get('v'), n) for n in walk(fn['body']) if n.get('k') == 'Lit' and isinstance(n.get('v'), str)]
        for t, node in texts:
            for tok in tok_re.findall(t or ''):
                n_fac += 1
                if tok not in FAC['facilities']:
                    ck.ob('R16.3', 'facility-known|%s' % tok, False, L.loc(node), 'the header uses %s but no include rule is recorded for it' % tok, fn=fn['path'])
    ck.floor('R16.3', n_fac, 15, 'facility tokens in templates')
    if fr is None or cs is None:
        ck.floor('R16.3', 0, 1, 'fns format_rvalue / collect_system_includes')
    else:
        ck.analysed(fr['path'])
        ck.analysed(cs['path'])

        def variant_arms(fn):
            out = {}
            for m in (n for n in walk(fn['body']) if n.get('k') == 'Match'):
                for arm in m['arms']:
                    for alt in arm['pat'].get('alts', [arm['pat']]) if arm['pat'].get('k') == 'POr' else [arm['pat']]:
                        p = alt
                        while p.get('k') in ('PRef', 'PDeref'):
                            p = p['p']
                        d = p.get('def') or ''
                        if 'BuiltinFunctionKind::' in d:
                            out.setdefault(d.split('::')[-1], []).append(arm)
            return out
        pa, ca = variant_arms(fr), variant_arms(cs)
        for v in sorted(set(pa) | set(ca)):
            need = set()
            for arm in pa.get(v, []):
                strs = [n.get('v') for n in walk(arm['body']) if n.get('k') == 'Lit' and isinstance(n.get('v'), str)]
                strs += [H.fmt_text(s) for s in sites_of[fr['path']] if any(x is s['node'] for x in walk(arm['body']))]
                for t in strs:
                    for tok in tok_re.findall(t or ''):
                        inc = FAC['facilities'].get(tok)
                        if inc and not inc.startswith('via '):
                            need.add(inc)
            have = set()
            for arm in ca.get(v, []):
                for c in H.calls_in(arm['body']):
                    if c.get('m') == 'insert' and c['args'] and isinstance(H.lit_value(c['args'][0]), str):
                        inner = []
                        for a in H.ancestors(cs, c):
                            if a is arm:
                                break
                            if a.get('k') in ('If', 'Match', 'Closure', 'Loop', 'For'):
                                inner.append(a['k'])
                        if not inner:
                            have.add(H.lit_value(c['args'][0]))
            ck.ob('R16.3', 'include-for|%s' % v, need <= have, L.loc(pa[v][0]) if v in pa else L.loc(cs['body']),
                  'prints facilities needing %s; the scan inserts %s' % (sorted(need) or '-', sorted(have) or '-'), fn=cs['path'])
        ck.floor('R16.3', len(pa), 4, 'BuiltinFunctionKind arms in format_rvalue')
        # the scan is exhaustive
        loops = [n for n in walk(cs['body']) if n.get('k') == 'For']
        okl = len(loops) == 2 and not any(m.get('k') == 'MCall' and m.get('m') in FILTERS for lp in loops for m in walk(lp['iter'])) and \
            'code_bodies()' in pp(loops[0]['iter'], maxlen=200) and 'basic_blocks' in pp(loops[1]['iter'], maxlen=200) and 'statements' in pp(loops[1]['iter'], maxlen=200)
        ck.ob('R16.3', 'scan-all-statements', okl, L.loc(cs['body']), 'for code in all maps\' code_bodies() / for stmt in all blocks\' statements, no filter')
        sm = next((n for n in walk(cs['body']) if n.get('k') == 'Match' and any('Statement::' in pp(a['pat']) for a in n['arms'])), None)
        okm = sm is not None and any('Statement::Assign' in pp(a['pat'], maxlen=200) and 'Statement::Exec' in pp(a['pat'], maxlen=200) for a in sm['arms'])
        ck.ob('R16.3', 'scan-assign-and-exec', okm, L.loc(sm) if sm else L.loc(cs['body']), 'both statement kinds carrying an rvalue are inspected')
    cbf = L.fn('uigen::objcode::ObjectCodeMap::code_bodies')
    if cbf is not None:
        ck.analysed(cbf['path'])
        news = [c for c in H.calls_in(cbf['body']) if H.is_call_to(c, 'PropertyCodeBodies::new')]
        chains = [c for c in H.calls_in(cbf['body']) if c.get('m') == 'chain']
        flds = {n.get('f') for n in walk(cbf['body']) if n.get('k') == 'Field'}
        ok = len(news) == 2 and len(chains) == 2 and {'properties', 'callbacks', 'attached_properties'} <= flds and not any(c.get('m') in FILTERS for c in H.calls_in(cbf['body']))
        ck.ob('R16.3', 'code_bodies-three-sources', ok, L.loc(cbf['body']), 'properties (recursive) + callbacks + attached properties (recursive), chained')
    nx = next((f for f in L.fn_list if 'PropertyCodeBodies' in f['path'] and f['name'] == 'next'), None)
    if nx is None:
        ck.floor('R16.3', 0, 1, 'fn PropertyCodeBodies::next')
    else:
        ck.analysed(nx['path'])
        m = next((n for n in walk(nx['body']) if n.get('k') == 'Match' and any('PropertyCodeKind::' in pp(a['pat']) for a in n['arms'])), None)
        variants = [v['name'] for v in (L.adts.get('uigen::objcode::PropertyCodeKind') or {}).get('variants', [])]
        seen = set()
        for arm in (m['arms'] if m else []):
            pats = arm['pat'].get('alts', [arm['pat']]) if arm['pat'].get('k') == 'POr' else [arm['pat']]
            names = []
            for p in pats:
                while p.get('k') in ('PRef', 'PDeref'):
                    p = p['p']
                names.append((p.get('def') or '?').split('::')[-1])
            seen |= set(names)
            rets = [x for x in walk(arm['body']) if x.get('k') == 'Ret']
            push = [c for c in H.calls_in(arm['body']) if c.get('m') == 'push' and 'stack' in pp(c['recv']) and any(x.get('m') == 'values' for x in H.calls_in(c['args'][0]))]
            ok = bool(rets) or bool(push)
            ck.ob('R16.3', 'nested-bodies-visited|%s' % '+'.join(sorted(names)), ok, L.loc(arm),
                  'yields the code body' if rets else 'descends into the nested property map' if push else
                  'a property kind is skipped by the iterator: code bodies below it are translated but never scanned for includes', fn=nx['path'])
        ck.ob('R16.3', 'nested-bodies-all-kinds', m is not None and (not variants or set(variants) <= seen), L.loc(m) if m else L.loc(nx['body']), 'kinds handled: %s' % sorted(seen))
        # nothing the iterator pulls is skipped: the translator prints constant sub-properties of a dynamic gadget map too
        skips = [x for x in walk(nx['body']) if x.get('k') == 'Continue']
        pb = next((b for b in H.binding_sites(nx).values() if b['kind'] == 'letcond' and any(c.get('m') == 'next' for c in H.calls_in(b['node']['e']))), None)
        conds = []
        if pb is not None and m is not None:
            for a in H.ancestors(nx, m):
                if a.get('k') == 'If' and a['c'] is not pb['node'] and a['c'].get('k') != 'LetCond':
                    conds.append(pp(a['c'], maxlen=60))
        filt = [c.get('m') for c in H.calls_in(nx['body']) if c.get('m') in FILTERS | {'filter_map', 'find'}]
        ck.ob('R16.3', 'nested-bodies-none-skipped', not skips and not conds and not filt, L.loc(skips[0]) if skips else L.loc(nx['body']),
              'every property pulled from the maps is dispatched on its kind' if not (skips or conds or filt) else
              'the include scan skips some properties (%s) although the translator prints every sub-property of a dynamic gadget map' % (['continue'] * len(skips) + conds + filt), fn=nx['path'])

    # ---- R16.4 names ---------------------------------------------------------------------------------------------------------------
    name_fns = {}
    for fn in bfns:
        ss = sites_of[fn['path']]
        if len(ss) == 1 and 'String' in (fn.get('output') or '') and len(list(H.return_exprs(fn['body']))) == 1 and fn['name'].endswith('_name'):
            t = H.fmt_text(ss[0])
            mm = re.match(r'^([A-Za-z_]*)\{0\}(\w*)$', t)
            if mm:
                name_fns[fn['path']] = (mm.group(1), mm.group(2), ss[0])
    defs = {}   # prefix -> definition templates
    for fn in bfns:
        for s in sites_of[fn['path']]:
            t = H.fmt_text(s)
            if re.match(r'^(void|\{0\}) \{\d\}\(', t):
                for tr, e in s['args'] or []:
                    c = next((x for x in H.calls_in(e) if x.get('m', '').endswith('_name')), None) if e is not None else None
                    if c is not None:
                        cal = H.callee(c)
                        if cal in name_fns:
                            defs.setdefault(cal, []).append(s)
    fun_name_fns = {p: v for p, v in name_fns.items() if p in defs}
    prefixes = sorted({v[0] for v in fun_name_fns.values()})
    bad = [(p, q) for p in prefixes for q in prefixes if p != q and q.startswith(p)]
    ck.ob('R16.4', 'prefixes-prefix-free', len(prefixes) >= 4 and not bad, '', 'function-name prefixes %s: no one is a prefix of another, so names differ whenever the generated suffixes differ or the prefixes differ' % prefixes if not bad else 'prefix pairs %s can produce the same identifier' % bad)
    for p, ss in sorted(defs.items()):
        ck.ob('R16.4', 'defined-once|%s' % short(p), len(ss) == 1, L.loc(ss[0]['node']), '%d definition template(s) use %s()' % (len(ss), short(p)))
    ck.floor('R16.4', len(defs), 6, 'function-name methods with a definition template')
    # every call template `this->{k}(` names a function through one of the name methods (or the update name handed down)
    n_calls = 0
    for fn in bfns:
        for s in sites_of[fn['path']]:
            t = H.fmt_text(s)
            for mm in re.finditer(r'this->(\w*)\{(\d)\}\(', t):
                n_calls += 1
                if mm.group(1):
                    ck.ob('R16.4', 'call-uses-name-method|%s|%s' % (short(fn['path']), t.strip()[:40]), False, L.loc(s['node']),
                          'the callee name is spelled in place (`%s{..}`) instead of through the method that names the definition' % mm.group(1), fn=fn['path'])
                    continue
                idx = int(mm.group(2))
                tr, e = (s['args'] or [])[idx] if idx < len(s['args'] or []) else (None, None)
                ok = False
                why = 'argument not resolved'
                if e is not None:
                    c = next((x for x in H.calls_in(e) if (x.get('m') or '').endswith('_name')), None)
                    if c is not None and H.callee(c) in fun_name_fns:
                        ok = True
                        why = 'calls %s()' % short(H.callee(c))
                    else:
                        r = H.root_local(e)
                        b = H.binding_sites(fn).get((r or {}).get('hid'))
                        if b is not None and b['kind'] == 'param' and 'str' in (fn['inputs'][b['index']] if b['index'] < len(fn['inputs']) else ''):
                            ok = True
                            why = 'update function name handed down by the owning binding'
                ck.ob('R16.4', 'call-uses-name-method|%s|%s' % (short(fn['path']), t.strip()[:40]), ok, L.loc(s['node']), why, fn=fn['path'])
    ck.floor('R16.4', n_calls, 8, 'member-call templates')
    # suffix provenance: the name handed to each constructor comes from generate() of the one generator
    ctor_sites = []
    for fn in bfns:
        for c in H.calls_in(fn['body']):
            cal = short(H.callee(c) or '')
            if cal in ('CxxBinding::new', 'CxxCallback::build', 'CxxEvalExprFunction::build', 'CxxEvalGadgetMapFunction::build'):
                ctor_sites.append((fn, c, cal))
    gens = [(f, n) for f in bfns for n in H.calls_in(f['body']) if H.is_call_to(n, 'UniqueNameGenerator::new')]
    ck.ob('R16.4', 'one-generator', len(gens) == 1, L.loc(gens[0][1]) if gens else '', '%d UniqueNameGenerator::new() in uigen::binding' % len(gens))
    # .. and that generator is one instance: every generate(..) is called on the local made by new() or on a `&mut` handed down from it,
    # and the generator is never copied (a copy does not see the names the original hands out afterwards, nor the other way round)
    gen_local = None
    if len(gens) == 1:
        gl = next((a for a in H.ancestors(gens[0][0], gens[0][1]) if a.get('k') == 'Let'), None)
        gb = H.pat_bindings(gl['pat']) if gl is not None else []
        gen_local = gb[0]['hid'] if len(gb) == 1 else None
    n_g = 0
    for fn in bfns:
        bs_ = H.binding_sites(fn)
        for c in H.calls_in(fn['body']):
            rt = (L.ty(c['recv'], adjusted=True) or L.ty(c['recv']) or '') if c.get('k') == 'MCall' else ''
            if c.get('k') == 'MCall' and c.get('m') == 'clone' and 'UniqueNameGenerator' in rt and 'Option' not in rt:
                ck.ob('R16.4', 'generator-never-copied|%s' % short(fn['path']), False, L.loc(c), '`%s` copies the name generator: names handed out by one copy are unknown to the other, '
                      'so two functions of the header can get the same name' % pp(c, maxlen=40), fn=fn['path'])
            if not (c.get('k') == 'MCall' and c.get('m', '').startswith('generate') and 'UniqueNameGenerator' in rt):
                continue
            n_g += 1
            rl = H.root_local(c['recv']) or {}
            b = bs_.get(rl.get('hid')) or {}
            ok = (fn is gens[0][0] and rl.get('hid') == gen_local) if gens and b.get('kind') != 'param' else b.get('kind') == 'param'
            i = sum(1 for c2 in H.calls_in(fn['body']) if c2.get('k') == 'MCall' and c2.get('m', '').startswith('generate') and c2 is not c and H.source_before(c2, c)
                    and 'UniqueNameGenerator' in (L.ty(c2['recv'], adjusted=True) or L.ty(c2['recv']) or ''))
            ck.ob('R16.4', 'generate-on-the-one-instance|%s#%d' % (short(fn['path']), i), ok, L.loc(c),
                  'generate(..) on %s' % ('the generator made by new()' if b.get('kind') != 'param' else 'the generator handed in by the caller') if ok else
                  'generate(..) is called on `%s`, which is not the generator made by UniqueNameGenerator::new(): its names are not checked against the others' % pp(c['recv'], maxlen=30), fn=fn['path'])
    ck.floor('R16.4', n_g, 3, 'generate(..) calls in uigen::binding')
    for fn, c, cal in ctor_sites:
        callee_fn = L.fns.get(H.callee(c))
        pidx = name_param_index(callee_fn) if callee_fn else None
        if pidx is None:
            ck.ob('R16.4', 'name-from-generator|%s|%s' % (short(fn['path']), cal), False, L.loc(c), 'name parameter not found')
            continue
        arg = c['args'][pidx]
        org = H.origins(fn, arg)
        gen_calls = [o for o in org if o.get('k') == 'MCall' and o.get('m') == 'generate' and 'UniqueNameGenerator' in (L.ty(o['recv'], adjusted=True) or L.ty(o['recv']) or '')]
        # .. or of a helper of this module that does nothing but return such a result
        for o in org:
            hf = L.fn(H.callee(o) or '?') if o.get('k') == 'Call' else None
            if hf is not None and hf.get('body') is not None and hf in bfns:
                rets_ = [H.strip_refs(r_) for r_ in H.return_exprs(hf['body'])]
                if rets_ and all(r_.get('k') == 'MCall' and r_.get('m') == 'generate' and 'UniqueNameGenerator' in (L.ty(r_['recv'], adjusted=True) or L.ty(r_['recv']) or '') for r_ in rets_):
                    gen_calls.append(o)
        own_idx = name_param_index(fn)
        from_param = [o for o in org if o.get('k') == 'Bind' and own_idx is not None and (H.binding_sites(fn).get(o.get('hid')) or {}).get('index') == own_idx and (H.binding_sites(fn).get(o.get('hid')) or {}).get('kind') == 'param']
        other = [o for o in org if o not in gen_calls and o not in from_param]
        ok = bool(gen_calls or from_param) and not other
        # a `name` parameter is fine when every caller of this function passes a generated name (checked at those sites)
        ordn = sum(1 for f2, c2, cal2 in ctor_sites if f2 is fn and cal2 == cal and H.source_before(c2, c))
        ck.ob('R16.4', 'name-from-generator|%s|%s#%d' % (short(fn['path']), cal, ordn), ok, L.loc(c),
              'the suffix is %s' % ('a name_gen.generate(..) result' if gen_calls else 'the generated name this function received') if ok else
              'the function-name suffix is built without the generator (%s): two objects/properties can yield the same identifier' % [pp(o, maxlen=50) for o in other][:2], fn=fn['path'])
    ck.floor('R16.4', len(ctor_sites), 6, 'binding/callback/eval-function constructor sites')
    # generator soundness: shared with C10
    import rules.c10 as c10

    class Sub:
        def __init__(self, outer):
            self.o = outer
            self.facts = outer.facts
            self.depth = getattr(outer, 'depth', 0) + 1
            self.tier = getattr(outer, 'tier', 'quick')
            self.extra = {}
            self.explanation = ''

        def rule(self, *a):
            pass

        def analysed(self, *a):
            pass

        def note(self, *a):
            pass

        def floor(self, *a, **k):
            pass

        def ob(self, rule, key, ok, loc='', detail='', nontrivial=True, fn=None):
            if rule == 'R10.3' and key == 'issued-names-consulted|generate':
                self.o.ob('R16.4', 'C10:' + key, ok, loc, detail, nontrivial, fn)
    c10.run(Sub(ck))

    # ---- R16.6 callback parameters: by value, or by const reference only behind a complete mutation test ------------------------------
    ccb = next((f for f in bfns if f['path'].endswith('CxxCallback::build')), None)
    if ccb is None:
        ck.floor('R16.6', 0, 1, 'fn CxxCallback::build')
    else:
        st = next((n for n in walk(ccb['body']) if n.get('k') == 'Struct' and (n.get('def') or '').endswith('CxxCallback')), None)
        fe = next((f['e'] for f in (st or {}).get('fields', []) if f.get('f') == 'parameters'), None)
        b = H.binding_sites(ccb).get((H.root_local(fe) or {}).get('hid')) if fe is not None else None
        src = b['node']['init'] if b is not None and b['kind'] == 'let' else fe
        clo = next((mm['args'][0] for mm in walk(src) if mm.get('k') == 'MCall' and mm.get('m') == 'map' and mm['args'] and mm['args'][0].get('k') == 'Closure'), None) if src else None
        ok = False
        why = 'parameter list construction not found'
        if clo is not None:
            rets = list(H.return_exprs(clo['body'], is_closure=True))
            tys = []
            for r in rets:
                if r.get('k') == 'Tup' and r['es']:
                    t0 = r['es'][0]
                    bb = H.binding_sites(ccb).get((H.root_local(t0) or {}).get('hid')) if H.strip_refs(t0).get('k') == 'Path' else None
                    tys += list(H.value_exprs(bb['node']['init'])) if bb is not None and bb['kind'] == 'let' and bb['node'].get('init') is not None else [t0]
            byval = [t for t in tys if any(c.get('m') == 'qualified_cxx_name' for c in H.calls_in(t)) and not any(x is s2['node'] for s2 in sites_of[ccb['path']] for x in walk(t))]
            deco = [t for t in tys if t not in byval]
            if tys and not deco:
                ok = True
                why = 'parameters are declared `<type> <name>` (by value): any use inside the handler is well-formed'
            elif deco:
                # decorated spelling: find the test it is conditioned on and check that it knows every writing statement kind
                helper = None
                for t in deco:
                    for a in H.ancestors(ccb, t):
                        if a.get('k') == 'If':
                            for c in H.calls_in(a['c']):
                                f2 = L.fns.get(H.callee(c) or '')
                                if f2 is not None and f2['path'].startswith('uigen::binding'):
                                    helper = f2
                need = {'Assign', 'WriteProperty', 'WriteSubscript', 'CallMethod'}
                seen = set()
                if helper is not None:
                    t = pp(helper['body'], maxlen=4000)
                    seen = {n for n in need if re.search(r'\b%s\b' % n, t)}
                ok = helper is not None and seen == need
                why = ('a parameter is spelled with a qualifier (%s); the test guarding it (%s) knows the statement kinds %s of the four that can modify a local '
                       '(assignment, property write, subscript write, method call on it)' % (pp(deco[0], maxlen=40), short(helper['path']) if helper else 'none found', sorted(seen)))
        ck.ob('R16.6', 'callback-parameters-by-value-or-proved-unmodified', ok, L.loc(src) if src else L.loc(ccb['body']), why, fn=ccb['path'])

    # ---- R16.5 sizes and loops ---------------------------------------------------------------------------------------------------------
    usc = [f for f in bfns if f['path'].startswith('uigen::binding::UiSupportCode::write_')]
    nb, ncb = 0, 0
    for fn in usc:
        its = []
        for n in walk(fn['body']):
            if n.get('k') == 'For':
                its.append((n, n['iter'], n['body']))
            elif n.get('k') == 'MCall' and n.get('m') in ('for_each', 'try_for_each'):
                its.append((n, n['recv'], n['args'][0]))
        done = {}
        for node, it, body in its:
            fld = next((x.get('f') for x in walk(it) if x.get('k') == 'Field'), None)
            if fld not in ('bindings', 'callbacks'):
                continue
            filt = [m['m'] for m in walk(it) if m.get('k') == 'MCall' and m.get('m') in FILTERS]
            early = [x for x in walk(body) if x.get('k') in ('Break', 'Continue')]
            if fld == 'bindings':
                nb += 1
            else:
                ncb += 1
            ordn = done.get(fld, 0)
            done[fld] = ordn + 1
            ck.ob('R16.5', 'emitter-loop|%s|%s#%d' % (fn['name'], fld, ordn), not filt and not early, L.loc(node),
                  'for every element of self.%s' % fld if not filt and not early else 'the loop skips elements (%s): a binding gets an index/field/call but no matching definition' % (filt or 'break/continue'), fn=fn['path'])
    ck.floor('R16.5', nb, 5, 'loops over self.bindings in the header writers')
    ck.floor('R16.5', ncb, 2, 'loops over self.callbacks in the header writers')
    wbf = next((f for f in usc if f['name'] == 'write_binding_functions'), None)
    if wbf is not None:
        ms = [c.get('m') for c in H.calls_in(wbf['body']) if (c.get('m') or '').startswith('write_')]
        ck.ob('R16.5', 'binding-emits-setup-update-value', sorted(ms) == ['write_setup_function', 'write_update_function', 'write_value_function'], L.loc(wbf['body']), 'per binding: %s' % ms)
    wcf = next((f for f in usc if f['name'] == 'write_callback_functions'), None)
    if wcf is not None:
        ms = [c.get('m') for c in H.calls_in(wcf['body']) if (c.get('m') or '').startswith('write_')]
        ck.ob('R16.5', 'callback-emits-setup-and-body', sorted(ms) == ['write_callback_function', 'write_setup_function'], L.loc(wcf['body']), 'per callback: %s' % ms)
    # guard bitset
    wf = next((f for f in usc if f['name'] == 'write_fields'), None)
    wu = next((f for f in bfns if f['path'].endswith('CxxBinding::write_update_function')), None)
    if wf is None or wu is None:
        ck.floor('R16.5', 0, 1, 'fns write_fields / write_update_function')
    else:
        dc = next((c for c in H.calls_in(wf['body']) if c.get('m') == 'div_ceil'), None)
        n_bits = H.lit_value(dc['args'][0]) if dc is not None else None
        src = pp(dc['recv'], maxlen=60) if dc is not None else ''
        gsite = next((s for s in sites_of[wf['path']] if 'bindingGuard_[' in H.fmt_text(s)), None)
        elem = re.match(r'^q?u?int(\d+)', H.fmt_text(gsite).replace('quint', 'uint')) if gsite else None
        lits = [n.get('v') for n in walk(wu['body']) if n.get('k') == 'Lit' and isinstance(n.get('v'), str)]
        sh = next((re.search(r'index >> (\d+)', t) for t in lits if re.search(r'index >> (\d+)', t)), None)
        mk = next((re.search(r'index & (0x[0-9a-fA-F]+|\d+)', t) for t in lits if re.search(r'index & (0x[0-9a-fA-F]+|\d+)', t)), None)
        ok = n_bits is not None and sh is not None and mk is not None and elem is not None and 'self.bindings.len()' in src
        if ok:
            ok = n_bits == (1 << int(sh.group(1))) == int(mk.group(1), 0) + 1 and int(elem.group(1)) >= n_bits
        ck.ob('R16.5', 'guard-bitset-agrees', ok, L.loc(dc) if dc else L.loc(wf['body']),
              'bindingGuard_[%s.div_ceil(%s)] of %s-bit words, word index `index >> %s`, bit `index & %s`' % (src, n_bits, elem.group(1) if elem else '?', sh.group(1) if sh else '?', mk.group(1) if mk else '?'))
        idx_t = next((s for s in sites_of[wu['path']] if 'BindingIndex::' in H.fmt_text(s)), None)
        en = next((f for f in usc if f['name'] == 'write_binding_index'), None)
        en_t = next((s for s in sites_of[en['path']] if H.fmt_text(s).strip() == '{0},'), None) if en else None
        ok = idx_t is not None and en_t is not None and 'name()' in pp(idx_t['args'][0][1]) and 'name()' in pp(en_t['args'][0][1])
        ck.ob('R16.5', 'index-enumerator-is-binding-name', ok, L.loc(idx_t['node']) if idx_t else '', 'enumerator `{name},` and use `BindingIndex::{name}` both print CxxBinding::name()')
        gcond = [a for a in H.ancestors(wf, gsite['node']) if a.get('k') == 'If'] if gsite else []
        ck.ob('R16.5', 'no-zero-sized-guard', bool(gcond) and 'is_empty()' in pp(gcond[0]['c']), L.loc(gsite['node']) if gsite else '', 'the guard array is declared only when there is at least one binding')
    # observers
    ef = [f for f in bfns if 'CxxEvalExprFunction::' in f['path']]
    wfield = next((f for f in ef if f['name'] == 'write_field'), None)
    wfun = next((f for f in ef if f['name'] == 'write_function'), None)
    bld = next((f for f in ef if f['name'] == 'build'), None)
    if wfield is None or wfun is None or bld is None:
        ck.floor('R16.5', 0, 1, 'CxxEvalExprFunction::{build,write_field,write_function}')
    else:
        s = next((s for s in sites_of[wfield['path']] if 'PropertyObserver {0}[{1}]' in H.fmt_text(s)), None)
        ok = s is not None and pp(s['args'][1][1]).endswith('self.property_observer_count') and 'property_observer_name()' in pp(s['args'][0][1])
        ck.ob('R16.5', 'observer-array-size', ok, L.loc(s['node']) if s else L.loc(wfield['body']), 'PropertyObserver <observer name>[self.property_observer_count]')
        st = next((n for n in walk(bld['body']) if n.get('k') == 'Struct'), None)
        fi = next((f for f in (st or {}).get('fields', []) if f.get('f') == 'property_observer_count'), None)
        ok = fi is not None and re.sub(r'\s', '', pp(fi['e'])) == 'code.property_observer_count'
        ck.ob('R16.5', 'observer-count-from-code', ok, L.loc(fi['e']) if fi else L.loc(bld['body']), 'the size is the translated body\'s own counter')
        s2 = next((s for s in sites_of[wfun['path']] if 'auto &observed' in H.fmt_text(s)), None)
        ok = s2 is not None and 'property_observer_name()' in pp(s2['args'][0][1])
        c1 = [pp(a['c']) for a in H.ancestors(wfun, s2['node']) if a.get('k') == 'If'] if s2 else []
        c2 = [pp(a['c']) for a in H.ancestors(wfield, s['node']) if a.get('k') == 'If'] if s else []
        ck.ob('R16.5', 'observer-alias-same-array', ok and c1 == c2 and bool(c1), L.loc(s2['node']) if s2 else '', '`observed` aliases the same array, declared and aliased under the same condition %s' % c1)
    ap = L.fn('tir::core::CodeBody::alloc_property_observer')
    if ap is not None:
        ck.analysed(ap['path'])
        rets = list(H.return_exprs(ap['body']))
        inc = [n for n in walk(ap['body']) if n.get('k') == 'AssignOp' and n.get('op') in ('Add', 'AddAssign') and H.lit_value(n['r']) == 1 and 'property_observer_count' in pp(n['l'])]
        b = H.binding_sites(ap).get((H.root_local(rets[0]['args'][0]) or {}).get('hid')) if len(rets) == 1 and rets[0].get('args') else None
        ok = len(inc) == 1 and b is not None and b['kind'] == 'let' and 'property_observer_count' in pp(b['node']['init']) and H.source_before(b['node'], inc[0])
        ck.ob('R16.5', 'observer-index-below-count', ok, L.loc(ap['body']), 'returns the pre-increment counter and advances it by one: every issued index < final count')
    writers = set()
    for fn in L.fn_list:
        for n in walk(fn['body']):
            if n.get('k') in ('Assign', 'AssignOp') and n['l'].get('k') == 'Field' and n['l'].get('f') == 'property_observer_count' and 'CodeBody' in (n['l'].get('adt') or L.ty(n['l']['e']) or 'CodeBody'):
                writers.add(short(fn['path']))
    ck.ob('R16.5', 'observer-counter-writers', writers == {'CodeBody::alloc_property_observer'}, '', 'property_observer_count is advanced only by %s' % sorted(writers))
    pr = [short(f['path']) for f in L.fn_list for n in walk(f['body']) if n.get('k') == 'Call' and n.get('dk') == 'Ctor' and (n.get('def') or '').endswith('PropertyObserverRef')]
    ck.ob('R16.5', 'observer-ref-constructors', pr == ['CodeBody::alloc_property_observer'], '', 'PropertyObserverRef(..) is built by %s' % pr)


def field_param_index(fn, fields):
    """index of the parameter whose value initialises one of the named fields of the struct literal the function builds
    (directly, through .into()/.to_owned(), or through one let)."""
    bs = H.binding_sites(fn)
    for st in (n for n in walk(fn['body']) if n.get('k') == 'Struct'):
        for f in st.get('fields', []):
            if f.get('f') in fields:
                r = H.root_local(f['e'])
                seen = set()
                while r is not None and r.get('hid') not in seen:
                    seen.add(r.get('hid'))
                    b = bs.get(r.get('hid'))
                    if b is None:
                        break
                    if b['kind'] == 'param':
                        return b['index']
                    if b['kind'] == 'let' and b['node'].get('init') is not None:
                        r = H.root_local(b['node']['init'])
                    else:
                        break
    return None


def name_param_index(fn):
    return field_param_index(fn, ('name', 'function_name_suffix'))


def tr_context_is_type_name(L, bfns):
    """every CxxCodeBodyTranslator::new(.., tr_context, ..) receives the local that also initialises UiSupportCode.self_class."""
    b = next((f for f in bfns if f['path'].endswith('UiSupportCode::build')), None)
    if b is None:
        return False
    st = next((n for n in walk(b['body']) if n.get('k') == 'Struct' and (n.get('def') or '').endswith('UiSupportCode')), None)
    fi = next((f for f in (st or {}).get('fields', []) if f.get('f') == 'self_class'), None)
    root = (H.root_local(fi['e']) or {}).get('hid') if fi else None
    news = [c for f in bfns for c in H.calls_in(f['body']) if H.is_call_to(c, 'CxxCodeBodyTranslator::new')]
    tn = L.fn('uigen::binding::CxxCodeBodyTranslator::new')
    pidx = field_param_index(tn, ('tr_context',)) if tn else None
    if root is None or pidx is None or not news:
        return False
    return all((H.root_local(c['args'][pidx]) or {}).get('hid') == root for c in news) and all(c in H.calls_in(b['body']) for c in news)


def check_escaper(ck, L, fn, ORA):
    """per-character table of a Rust fn that spells a string as a C++ literal, compared with the oracle. Returns bool."""
    ck.analysed(fn['path'])
    m = next((n for n in walk(fn['body']) if n.get('k') == 'Match' and 'char' in (L.ty(n['e']) or '')), None)
    loop = next((n for n in walk(fn['body']) if n.get('k') == 'For' and 'chars()' in pp(n['iter'])), None)
    if m is None or loop is None:
        ck.ob('R16.1', 'cxx-escaper-table|%s' % short(fn['path']), False, L.loc(fn['body']), 'no `for c in s.chars() { match c { .. } }` table found')
        return False
    sites = H.format_sites_in_fn(fn)

    def arm_output(arm, ch):
        """string emitted for character ch by this arm, or None if not understood."""
        out = ''
        for c in sorted(H.calls_in(arm['body']), key=lambda c: (c['sp'][1], c['sp'][2])):
            if c.get('m') == 'push_str' and isinstance(H.lit_value(c['args'][0]), str):
                out += H.lit_value(c['args'][0])
            elif c.get('m') == 'push':
                a = H.strip_refs(c['args'][0])
                if a.get('k') == 'Lit':
                    out += a['v']
                elif a.get('k') == 'Path':
                    out += ch
                else:
                    return None
        for s in sites:
            if any(x is s['node'] for x in walk(arm['body'])):
                for p in s['pieces']:
                    if p[0] == 'lit':
                        out += p[1]
                    elif p[0] == 'arg':
                        flags = p[2] or 0
                        extra = p[3] or {}
                        tr = (s['args'] or [(None, None)])[p[1]][0]
                        digits = {'new_octal': '%o', 'new_lower_hex': '%x', 'new_upper_hex': '%X'}.get(tr)
                        if digits is None or extra.get('precision') is not None or flags & (1 << 23):
                            return None
                        txt = digits % ord(ch)
                        if extra.get('width') is not None:
                            txt = txt.rjust(extra['width'], '0' if flags & (1 << 24) else (chr(flags & 0x1fffff) or ' '))
                        out += txt
        return out

    def matches(pat, ch):
        k = pat.get('k')
        if k in ('Wild', 'Bind'):
            return True
        if k == 'PLit':
            return pat.get('v') == ch
        if k == 'PRange':
            lo, hi = pat.get('lo'), pat.get('hi')
            lo = lo.get('v') if isinstance(lo, dict) else lo
            hi = hi.get('v') if isinstance(hi, dict) else hi
            if not (isinstance(lo, str) and isinstance(hi, str) and len(lo) == 1 and len(hi) == 1):
                return False
            return lo <= ch <= hi if pat.get('end', 'included') != 'excluded' else lo <= ch < hi
        if k == 'POr':
            return any(matches(a, ch) for a in pat['alts'])
        return False
    def guard_holds(g, ch):
        """truth of an arm guard for character ch; None if the guard is not understood."""
        g = H.strip_refs(g)
        while g.get('k') in ('Paren', 'DropTemps'):
            g = H.strip_refs(g['e'])
        k = g.get('k')
        if k == 'Unary' and g.get('op') == 'Not':
            v = guard_holds(g['e'], ch)
            return None if v is None else not v
        if k == 'Binary' and g.get('op') in ('And', 'Or'):
            a, b = guard_holds(g['l'], ch), guard_holds(g['r'], ch)
            if a is None or b is None:
                return None
            return (a and b) if g['op'] == 'And' else (a or b)
        if k == 'MCall' and not g['args'] and H.strip_refs(g['recv']).get('k') == 'Path':
            tests = {'is_ascii': lambda c: ord(c) < 128, 'is_ascii_control': lambda c: ord(c) < 32 or ord(c) == 127,
                     'is_control': lambda c: ord(c) < 32 or 127 <= ord(c) < 160, 'is_ascii_graphic': lambda c: 33 <= ord(c) <= 126,
                     'is_ascii_alphanumeric': lambda c: ord(c) < 128 and c.isalnum(), 'is_ascii_digit': lambda c: c in '0123456789',
                     'is_ascii_punctuation': lambda c: ord(c) < 128 and 33 <= ord(c) <= 126 and not c.isalnum(),
                     'is_ascii_whitespace': lambda c: c in ' \t\n\x0c\r'}
            t = tests.get(g.get('m'))
            return t(ch) if t else None
        if k == 'Binary' and g.get('op') in ('Lt', 'Le', 'Gt', 'Ge', 'Eq', 'Ne'):
            def num(x):
                x = H.strip_refs(x)
                while x.get('k') == 'Cast':
                    x = H.strip_refs(x['e'])
                if x.get('k') == 'Path' and x.get('res') == 'local':
                    return ord(ch)
                if x.get('k') == 'Lit':
                    v = x.get('v')
                    return ord(v) if isinstance(v, str) and len(v) == 1 else (v if isinstance(v, int) else None)
                return None
            a, b = num(g['l']), num(g['r'])
            if a is None or b is None:
                return None
            return {'Lt': a < b, 'Le': a <= b, 'Gt': a > b, 'Ge': a >= b, 'Eq': a == b, 'Ne': a != b}[g['op']]
        return None

    def select(ch):
        for a in m['arms']:
            if not matches(a['pat'], ch):
                continue
            if 'guard' in a:
                v = guard_holds(a['guard'], ch)
                if v is None:
                    return None
                if not v:
                    continue
            return a
        return None
    bad = []
    for code in list(range(0, 128)) + [0x80, 0x9f, 0xa0, 0xe9, 0x7ff, 0x800, 0x200b, 0xd7ff, 0xe000, 0xfffd, 0xffff, 0x10000, 0x1f600, 0x10ffff]:
        ch = chr(code)
        arm = select(ch)
        out = arm_output(arm, ch) if arm is not None else None
        if out is None:
            bad.append('U+%04X: not understood' % code)
            continue
        if not cxx_denotes(out, ch):
            bad.append('U+%04X -> %r' % (code, out))
    quote_wrapped = sum(1 for c in H.calls_in(fn['body']) if c.get('m') == 'push' and H.strip_refs(c['args'][0]).get('v') == '"' and not any(x is c for x in walk(loop))) == 2
    ok = not bad and quote_wrapped
    ck.ob('R16.1', 'cxx-escaper-table|%s' % short(fn['path']), ok, L.loc(m),
          'all 128 ASCII characters and 14 non-ASCII samples (both sides of every UTF-8/UTF-16 length boundary) are spelled as C++ escapes of themselves; the text is wrapped in one pair of quotes' if ok else
          'characters spelled wrongly: %s%s' % (bad[:6], '' if quote_wrapped else '; not wrapped in exactly one pair of quotes'))
    return ok


def cxx_denotes(text, ch):
    """does `text`, placed inside a C++17 narrow string literal and followed by ANY character, denote exactly ch?"""
    simple = {'\\n': '\n', '\\r': '\r', '\\t': '\t', '\\\\': '\\', '\\"': '"', "\\'": "'", '\\a': '\a', '\\b': '\b', '\\f': '\f', '\\v': '\v', '\\?': '?', '\\0': None}
    if text == ch:
        # verbatim: fine unless the character is special or a control character
        return ch not in '"\\\n\r' and (ord(ch) >= 0x20 and ord(ch) != 0x7f)
    if text in simple and simple[text] is not None:
        return simple[text] == ch
    mm = re.match(r'^\\([0-7]{3})$', text)
    if mm:
        # exactly three octal digits never absorb what follows. The same spelling goes into u"" literals (QStringLiteral: a code unit) and
        # into narrow UTF-8 literals (the source text handed to translate(): a BYTE), so it denotes the character in both only below 0x80:
        # `\205` for U+0085 is a lone continuation byte in the narrow literal, which Qt decodes to U+FFFD
        return int(mm.group(1), 8) == ord(ch) and ord(ch) < 0x80
    # universal character names: exactly 4 (\u) or 8 (\U) hex digits; inside a string literal C++11..17 [lex.charset]/2 excludes
    # only surrogates; a fifth digit after \uXXXX is the next character of the string
    mm = re.match(r'^\\u([0-9a-fA-F]{4})$', text) or re.match(r'^\\U([0-9a-fA-F]{8})$', text)
    if mm:
        v = int(mm.group(1), 16)
        return v == ord(ch) and not 0xd800 <= v <= 0xdfff and v <= 0x10ffff
    # \x.. absorbs following hex digits, 1-2 digit octal absorbs following octal digits, \u{..} is not C++17
    return False


def implicit_conversions(ck, L):
    """R16.7: wherever the type checker says `assignable`, the emitter writes a plain C++ initialisation / return / argument: the pair
    must be an implicit conversion in C++. Decision table of typeutil::is_assignable (evaluated as in C05) against the C++ rules."""
    import aeval
    import rules.c05 as c05
    ck.rule('R16.7', 'every pair the type checker accepts as assignable is an implicit conversion in C++')
    fnname = 'typeutil::is_assignable'
    if fnname not in L.fns:
        ck.floor('R16.7', 0, 1, 'fn ' + fnname)
        return
    I = aeval.Interp(L, stubs=c05.base_stubs())

    def cxx_implicit(exp, act):
        """(valid, why) for `Exp x = <value of act>;` in C++17 with Qt types."""
        if act == ('ConstInteger',):
            return (exp in (c05.INT, c05.UINT, c05.DOUBLE), 'integer literal')
        if act == ('ConstString',):
            return (exp == c05.STRING, 'QStringLiteral')
        if act == ('NullPointer',):
            return (exp[0] == 'Pointer', 'nullptr')
        if act == ('EmptyList',):
            return (exp[0] == 'List', 'empty braces')
        a = act[1]
        if a == exp:
            return (True, 'same type')
        if exp[0] == 'Pointer' and a[0] == 'Pointer' and c05.derived(a[1][1], exp[1][1]):
            return (True, 'derived-to-base pointer conversion')
        if exp == c05.E2 and a == c05.E1:
            return (True, 'QFlags<E>(E) converting constructor')
        if exp == c05.E1 and a == c05.E2:
            return (False, 'QFlags<E> converts to int, and int does not convert to the enumeration E implicitly')
        arith = (c05.BOOL, c05.INT, c05.UINT, c05.DOUBLE)
        if exp in arith and a in arith:
            return (True, 'standard arithmetic conversion (possibly narrowing, still implicit)')
        if exp in arith and a == c05.E1:
            return (True, 'an unscoped enumeration converts to an arithmetic type')
        if exp in arith and a == c05.E2:
            return (True, 'QFlags<E>::operator Int()')
        if exp in arith and a == c05.E3:
            return (False, 'a scoped enumeration has no implicit conversion to an arithmetic type')
        if exp in (c05.E1, c05.E3) and a in arith:
            return (False, 'an arithmetic value does not convert to an enumeration implicitly')
        if exp == c05.VARIANT:
            return (a != c05.VOID, 'QVariant has converting constructors for the value types used here')
        return (False, 'no implicit conversion known to the oracle')
    n = 0
    for exp in c05.TKS:
        for act in c05.TDS:
            try:
                got = I.call(fnname, [exp, act], 0)
            except aeval.Undecided:
                continue          # C05 R5.1 reports cells that cannot be evaluated
            if got != ('Ok', True):
                continue
            n += 1
            ok, why = cxx_implicit(exp, act)
            ck.ob('R16.7', 'implicit|%s<-%s' % (c05.nm(exp), c05.nm(act)), ok, '',
                  '%s from %s: %s' % (c05.nm(exp), c05.nm(act), why) if ok else
                  'a %s value is accepted where %s is expected and written without a cast (return / assignment / argument), but C++ has no such implicit conversion: %s' % (c05.nm(act), c05.nm(exp), why))
    ck.floor('R16.7', n, 24, 'assignable cells')


def passing_convention(ck, L):
    """R16.8: how a signal parameter type is spelled inside QOverload<..>::of(&Class::signal). moc's metatypes give the normalised type only
    (`const T &` and `T` alike), so the generator re-derives the declaration from Qt's convention; if it derives the other form the
    overload is not found and the header does not compile. Decision table of TypeKind::is_const_ref_preferred over the type domain."""
    import aeval
    import rules.c05 as c05
    ck.rule('R16.8', 'signal parameter types are spelled as Qt declares them: class types by const reference, everything else by value')
    fnname = 'typemap::TypeKind::is_const_ref_preferred'
    if fnname not in L.fns:
        ck.floor('R16.8', 0, 1, 'fn ' + fnname)
        return
    ck.analysed(fnname)
    I = aeval.Interp(L, stubs=c05.base_stubs())
    # Qt's convention for signal and slot parameters: value classes (QString, QVariant, containers, gadgets) by const reference;
    # arithmetic types, enumerations, QFlags and pointers by value
    by_ref = {repr(c05.STRING), repr(c05.VARIANT), repr(c05.LS), repr(c05.LI), repr(c05.GADGET)}
    n = 0
    for t in c05.TKS:
        if t == c05.VOID:
            continue
        try:
            got = I.call(fnname, [t], 0)
        except aeval.Undecided as e:
            got = 'undecided: %s' % e
        n += 1
        want = repr(t) in by_ref or t[0] == 'List'
        ck.ob('R16.8', 'passed-as-declared|%s' % c05.nm(('Concrete', t)), got is want, '',
              '%s is spelled %s' % (c05.nm(('Concrete', t)), 'const T &' if want else 'T') if got is want else
              'a %s parameter is spelled %s in QOverload<..>, but Qt declares such parameters %s: no matching overload' % (
                  c05.nm(('Concrete', t)), 'const T &' if got is True else 'T' if got is False else got, 'const T &' if want else 'by value'))
    ck.floor('R16.8', n, 15, 'type kinds')
    # who consults it: the signal pointer formatter (and nothing prints a parameter list without it)
    users = sorted({short(f['path']) for f in L.fn_list for c in H.calls_in(f['body']) if c.get('m') == 'is_const_ref_preferred' and not f['path'].startswith(('typemap::', '<typemap::'))})
    ck.ob('R16.8', 'consulted-by-the-signal-formatter', any('format_signal_pointer' in u or 'signal' in u.lower() for u in users), '', 'is_const_ref_preferred() is consulted by %s' % users)


def _shares(ck, L):
    """obligations of other checks that C16's clauses rest on (same facts)."""
    implicit_conversions(ck, L)
    passing_convention(ck, L)
    import core as _core
    import rules.c03 as c03
    s3 = _core.Shared(ck, 'R16.1', lambda r, k: r == 'R3.1', 'C03:', ' [the C++ literal is spelled from the decoded string: an undecoded escape is escaped once more and denotes other characters]')
    c03.run(s3)
    ck.floor('R16.1', s3.count, 10, 'shared C03 R3.1 obligations')
    import rules.c05 as c05
    s5 = _core.Shared(ck, 'R16.2', lambda r, k: r == 'R5.7' or (r == 'R5.6' and k.startswith(('return-type-verified', 'verify_code_return_type-shape'))), 'C05:',
                      ' [every return statement is printed, also in dead blocks, and the C++ compiler checks each against the function result type]')
    c05.run(s5)
    ck.floor('R16.2', s5.count, 4, 'shared C05 R5.6 / R5.7 obligations on return types')

    # the header on disk is the one this run built: string literals and functions of an edited source (C15 R15.4 / R15.5)
    import rules.c15 as c15
    ck.rule('R16.9', 'the support header on disk is this run\'s: an existing header is kept only if its bytes equal the new output (shared with C15)')
    s15 = _core.Shared(ck, 'R16.9', lambda r, k: (r == 'R15.4' and k.endswith('|skipped-only-if-same-bytes')) or (r == 'R15.5' and (k in ('header-path-gets-header', 'both-outputs-written') or k.startswith('buffer-starts-empty|'))), 'C15:',
                       ' [bindings, handlers and string literals live in the header only: a header that is not rewritten denotes the old source]')
    c15.run(s15)
    ck.floor('R16.9', s15.count, 3, 'shared C15 R15.4 / R15.5 obligations')
