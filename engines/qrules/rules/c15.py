"""C15: generate-ui writes only where it should, atomically, and only when needed."""
import re
from facts import walk, short, pp
import hirutil as H
from core import load_table

LEVEL = 'other'
TECHNIQUE = ('who-may-call scan of MIR callees (file-system effects), decision-table check of the path-component filter, lexical dominance/order and value '
             'provenance over typed HIR, path enumeration of generate_ui_file (every successful path writes each output or compares it equal), '
             'provenance of the type name back to the file stem of the path as given')
LEVEL_TEXT = ('Decides the structural necessary conditions of the property on every path of the CLI: which functions may create or modify '
              'files (only with_output_file), that the path filter admits only CurDir/Normal components of every source and rejects before '
              'anything is read or written, that the temp file is created in the destination directory and persisted (rename) last, after '
              'content and permissions, that each write is guarded by a byte comparison with the same path and buffer, and that output '
              'names go through the file-name rules (all four apply the case rule). Crash behaviour of rename(2) itself is trusted.')
LEVEL_NOTE = ('Trusted: tempfile::NamedTempFile::persist is rename(2) within one directory; std::fs semantics; rustc resolution of callees. '
              'Not decided: symlink races, behaviour under I/O errors inside the OS.')
DESIGN_REF = 'DESIGN.md section 4, C15'

FS_EFFECT = re.compile(
    r'^(std::fs::(write|rename|remove_file|remove_dir|remove_dir_all|copy|create_dir|create_dir_all|hard_link|soft_link|set_permissions)\b|'
    r'std::fs::File::(create|create_new|set_permissions|set_len|options)\b|std::fs::OpenOptions::|std::fs::DirBuilder::|'
    r'std::os::unix::fs::|tempfile::|camino::Utf8Path::(?!.*\b(join|parent|with_file_name|components|file_name|as_str|is_dir|is_file|exists|read_dir_utf8|canonicalize_utf8|canonicalize|as_std_path|extension|file_stem|starts_with|ends_with|to_path_buf|new|strip_prefix|is_absolute|is_relative|has_root|iter|ancestors|metadata|symlink_metadata|read_link|read_link_utf8|try_exists|with_extension|to_owned|as_os_str|display|eq|cmp|hash|fmt|borrow|as_ref|deref|from)\b))')


def output_write_calls(B, fn):
    """Calls inside fn that write an output file: with_output_file itself, or a function of the bin crate from which it is reached."""
    memo = {}

    def reaches(f, depth=0):
        if f is None or f.get('body') is None or depth > 6:
            return False
        if f['path'] in memo:
            return memo[f['path']]
        memo[f['path']] = False
        r = False
        for c in H.calls_in(f['body']):
            if H.is_call_to(c, 'with_output_file'):
                r = True
                break
            t = H.callee(c) or H.callee_decl(c)
            g = B.fn(t) if t else None
            if g is not None and g is not f and reaches(g, depth + 1):
                r = True
                break
        memo[f['path']] = r
        return r
    out = []
    for c in H.calls_in(fn['body']):
        if H.is_call_to(c, 'with_output_file'):
            out.append(c)
            continue
        t = H.callee(c) or H.callee_decl(c)
        g = B.fn(t) if t else None
        if g is not None and g is not fn and reaches(g):
            out.append(c)
    return out


def run(ck):
    if getattr(ck, 'depth', 0) >= 2:
        return      # a shared run of a shared run: nothing of it is selected, and mutual sharing must end somewhere
    F = ck.facts
    B = F.bin
    table = load_table('fs_effects.json')
    allowed = {(r['fn'], r['callee']): r for r in table['allowed']}
    ck.explanation = (
        'R15.1 the matches! over Utf8Component in generate_ui admits exactly {CurDir, Normal}, is applied with all() over components() of '
        'every source (any(!all)), conjoined with output_directory.is_some(), and its Err return lexically dominates populate_directories '
        'and the per-source loop. R15.2 every MIR call to a file-creating/modifying API in the three crates is inside with_output_file '
        '(or a reviewed row for dump-metatypes). R15.3 in with_output_file: create_dir_all(dir) < NamedTempFile::new_in(dir) < f(&mut out) < '
        'set_permissions < persist(path), with dir = path.parent() of the same path. R15.4 both with_output_file calls in generate_ui_file are '
        'guarded by !fs::read(P).map(|d| d == B).unwrap_or(false) with P/B the very path and buffer written. R15.5 the .ui path derives from '
        'type_name_to_ui_name and receives the serialized form, the header path from type_name_to_ui_support_cxx_header_name and receives the '
        'header bytes; both are source.with_file_name(..) joined under the output directory; all four type_name_to_* functions return '
        'through apply_case_change; header written only under Some(ui_support).')
    ck.rule('R15.1', 'path-component filter admits only CurDir/Normal, for every source, before any effect')
    ck.rule('R15.2', 'only with_output_file creates or modifies files')
    ck.rule('R15.3', 'temp file in destination directory; content, permissions, then persist (rename) last')
    ck.rule('R15.4', 'each output is written only if its bytes differ from the existing file')
    ck.rule('R15.5', 'output names follow the file-name rules and pair with the right content')
    ck.rule('R15.6', 'the type name of a document is the stem of the path it was asked for by, unchanged')
    ck.rule('R15.7', 'outputs are written for successfully translated sources only (shared with C04)')

    gu = B.fn('generate_ui')
    guf = B.fn('generate_ui_file')
    wof = B.fn('with_output_file')
    for name, f in (('generate_ui', gu), ('generate_ui_file', guf), ('with_output_file', wof)):
        ck.floor('anchor', 1 if f is not None else 0, 1, 'fn %s in the bin crate' % name)
    if gu is None or guf is None or wof is None:
        return
    for f in (gu, guf, wof):
        ck.analysed('bin::' + f['path'])

    # ---- R15.1 -------------------------------------------------------------
    # the component filter may sit in generate_ui itself or in a helper of the bin crate that the refusal test calls
    filt = None
    ffn = None
    for f in [gu] + [x for x in B.fn_list if x is not gu and x.get('body') is not None and any((H.callee(c) or H.callee_decl(c)) == x['path'] for c in H.calls_in(gu['body']))]:
        for n in walk(f['body']):
            if n.get('k') == 'Match' and n.get('x') == 'matches' and 'Utf8Component' in (B.ty(n['e']) or ''):
                filt, ffn = n, f
    ck.floor('R15.1', 1 if filt is not None else 0, 1, 'matches! over Utf8Component in generate_ui (or a helper it calls)')
    if filt is not None:
        if ffn is not gu:
            ck.analysed('bin::' + ffn['path'])
        admitted = []
        wildcard_true = False
        for arm in filt['arms']:
            val = [H.lit_value(v) for v in H.value_exprs(arm['body'])]
            pats = arm['pat']['alts'] if arm['pat'].get('k') == 'POr' else [arm['pat']]
            for p in pats:
                nm = (p.get('def') or '').split('::')[-1] if p.get('k') in ('PPath', 'PTS', 'PStruct') else p.get('k')
                if True in val:
                    if p.get('k') in ('Wild', 'Bind'):
                        wildcard_true = True
                    admitted.append(nm)
        ok = set(admitted) <= {'CurDir', 'Normal'} and not wildcard_true and bool(admitted)
        ck.ob('R15.1', 'admitted-components', ok, B.loc(filt), 'admitted: %s' % sorted(set(admitted)))
        ck.ob('R15.1', 'normal-admitted', 'Normal' in admitted, B.loc(filt), 'plain names must be accepted (else every source is refused)')

        # Meaning of boolean expressions built from the filter, as a small algebra:
        #   ('comp', True)   holds for a component iff it is admitted
        #   ('path', q)      a predicate on one path:  q = 'all-ok' (every component admitted) | 'some-bad' (its negation)
        #   ('srcs', q)      a predicate on the source list: q = 'exists-bad' (some source has a bad component) | 'all-good'
        NEG = {'all-ok': 'some-bad', 'some-bad': 'all-ok', 'exists-bad': 'all-good', 'all-good': 'exists-bad'}

        def tail_of(body):
            x = body
            while x.get('k') in ('Block', 'DropTemps', 'Paren') and not x.get('stmts') and 'e' in x:
                x = x['e']
            return x

        def meaning(f, e, depth=0):
            """(level, quality) of boolean expression e in fn f, or None if not understood."""
            e = H.strip_refs(e)
            while e.get('k') in ('Paren', 'DropTemps') or (e.get('k') == 'Block' and not e.get('stmts') and 'e' in e):
                e = H.strip_refs(e['e'])
            if depth > 8:
                return None
            if e is filt:
                return ('comp', 'ok')
            if e.get('k') == 'Unary' and e.get('op') == 'Not':
                m_ = meaning(f, e['e'], depth + 1)
                if m_ is None:
                    return None
                if m_[0] == 'comp':
                    return ('comp', 'bad' if m_[1] == 'ok' else 'ok')
                return (m_[0], NEG.get(m_[1], 'not(%s)' % m_[1]))
            if e.get('k') == 'MCall' and e.get('m') in ('all', 'any') and e['args'] and e['args'][0].get('k') == 'Closure':
                m_ = meaning(f, tail_of(e['args'][0]['body']), depth + 1)
                if m_ is None:
                    return None
                recv = pp(e['recv'], maxlen=120)
                narrowed = re.search(r'\b(skip|take|filter|step_by|rev|last|first|skip_while|take_while)\b', recv)
                if m_[0] == 'comp' and e['recv'].get('k') == 'MCall' and e['recv'].get('m') == 'components' and not narrowed:
                    # all(ok) -> all-ok ; any(bad) -> some-bad ; the other two combinations say something else
                    if (e['m'], m_[1]) == ('all', 'ok'):
                        return ('path', 'all-ok')
                    if (e['m'], m_[1]) == ('any', 'bad'):
                        return ('path', 'some-bad')
                    return ('path', 'other:%s(%s)' % (e['m'], m_[1]))
                if m_[0] == 'path' and 'sources' in recv and not narrowed:
                    if (e['m'], m_[1]) == ('any', 'some-bad'):
                        return ('srcs', 'exists-bad')
                    if (e['m'], m_[1]) == ('all', 'all-ok'):
                        return ('srcs', 'all-good')
                    return ('srcs', 'other:%s(%s)' % (e['m'], m_[1]))
                return None
            if e.get('k') == 'Call':
                g = B.fn(H.callee(e) or H.callee_decl(e) or '?')
                if g is not None and g.get('body') is not None and g is not f:
                    return meaning(g, tail_of(g['body']), depth + 1)
            if e.get('k') == 'MCall' and e.get('m') in ('all', 'any') and e['args'] and e['args'][0].get('k') == 'Path':
                # `.any(is_outer_path)` / `.all(is_inner_path)`: a helper used as the predicate
                g = B.fn(e['args'][0].get('def') or '?')
                if g is not None and g.get('body') is not None:
                    m_ = meaning(g, tail_of(g['body']), depth + 1)
                    recv = pp(e['recv'], maxlen=120)
                    if m_ is not None and m_[0] == 'path' and 'sources' in recv:
                        if (e['m'], m_[1]) == ('any', 'some-bad'):
                            return ('srcs', 'exists-bad')
                        if (e['m'], m_[1]) == ('all', 'all-ok'):
                            return ('srcs', 'all-good')
                        return ('srcs', 'other:%s(%s)' % (e['m'], m_[1]))
            return None
        # the refusal: an `if A && Q { return Err }` in generate_ui with A = output_directory.is_some() and Q meaning 'exists-bad'
        the_if = None
        qm = None
        for n in walk(gu['body']):
            if n.get('k') != 'If':
                continue
            cond = H.strip_refs(n['c'])
            parts = []
            todo = [cond]
            while todo:
                x = H.strip_refs(todo.pop())
                if x.get('k') == 'Binary' and x.get('op') == 'And':
                    todo += [x['l'], x['r']]
                else:
                    parts.append(x)
            ms = [(x, meaning(gu, x)) for x in parts]
            if any(m_ is not None and m_[0] == 'srcs' for _, m_ in ms) or any(any(y is filt for y in walk(x)) for x in parts):
                the_if = n
                qm = next((m_ for _, m_ in ms if m_ is not None and m_[0] == 'srcs'), None)
                others = [x for x, m_ in ms if m_ is None or m_[0] != 'srcs']
                break
        if the_if is not None:
            ok_q = qm == ('srcs', 'exists-bad')
            ck.ob('R15.1', 'refused-iff-some-source-has-a-bad-component', ok_q, B.loc(the_if),
                  'the refusal test means: some source has a component other than CurDir / Normal (over all sources, all components)' if ok_q else
                  'the refusal test means `%s`, not "some source has a component that is neither CurDir nor Normal": escaping or absolute sources get through (or every run is refused)' % (qm[1] if qm else 'not understood'))
            is_some = len(others) == 1 and others[0].get('k') == 'MCall' and others[0].get('m') == 'is_some' and H.strip_refs(others[0]['recv']).get('k') == 'Field' \
                and H.strip_refs(others[0]['recv']).get('f') == 'output_directory'
            ck.ob('R15.1', 'guarded-by-output-directory-is-some', is_some, B.loc(the_if), 'the only other conjunct is args.output_directory.is_some()')
            rets = [n for n in walk(the_if['then']) if n.get('k') == 'Ret']
            ok_ret = bool(rets) and all(r.get('e', {}).get('k') == 'Call' and (r['e'].get('def') or '').endswith('Result::Err') for r in rets)
            ck.ob('R15.1', 'refusal-returns-err', ok_ret, B.loc(the_if), 'then-branch returns Err')
            for callee in ('populate_directories', 'generate_ui_file', 'load_type_map'):
                for c in H.calls_in(gu['body']):
                    if H.is_call_to(c, callee):
                        ck.ob('R15.1', 'refusal-dominates|%s' % callee, H.lexically_precedes_dominating(gu, the_if, c), B.loc(c),
                              'the refusal precedes %s(..)' % callee)
        else:
            ck.ob('R15.1', 'filter-in-if', False, B.loc(filt), 'the component filter is not part of the condition of an `if` in generate_ui')

    # ---- R15.2 who may write ------------------------------------------------
    n_calls = 0
    n_fs = 0
    for crate in (F.lib, F.cli, F.bin):
        for m in crate.mir_list:
            for b in m['blocks']:
                t = b['term']
                if t.get('k') != 'Call':
                    continue
                n_calls += 1
                d = t.get('def') or ''
                if not FS_EFFECT.search(d):
                    continue
                n_fs += 1
                fshort = short(m['path'].split('::{closure')[0])
                loc = '%s:%d' % (crate.files[t['sp'][0]], t['sp'][1])
                k = (fshort, d)
                if crate is B and fshort == 'with_output_file':
                    okset = ('std::fs::create_dir_all', 'tempfile::NamedTempFile::new_in', 'tempfile::NamedTempFile::as_file',
                             'std::fs::File::set_permissions', 'tempfile::NamedTempFile::persist', 'tempfile::NamedTempFile::as_file_mut')
                    ck.ob('R15.2', '%s|%s' % k, d in okset, loc,
                          'inside the designated writer: part of the mkdir / temp-in-dir / chmod / rename protocol' if d in okset else
                          'with_output_file uses `%s`, which is not part of the temp-file-and-rename protocol (in-place creation or write is not atomic)' % d)
                elif k in allowed:
                    ck.ob('R15.2', '%s|%s' % k, True, loc, 'reviewed: ' + allowed[k]['reason'])
                else:
                    ck.ob('R15.2', '%s|%s' % k, False, loc, 'file-system effect `%s` outside with_output_file (in %s)' % (d, m['path']))
    ck.floor('R15.2', n_fs, 5, 'file-system effect call sites')
    ck.extra['mir_calls_scanned'] = n_calls

    # ---- R15.3 atomic order in with_output_file ------------------------------
    body = wof['body']
    seq = []
    for c in H.calls_in(body):
        d = H.callee_decl(c) or ''
        nm = c.get('m') or short(d).split('::')[-1]
        seq.append((nm, c))
    def first(name):
        return next((c for nm, c in seq if nm == name), None)
    cda, newin, setp, persist = first('create_dir_all'), first('new_in'), first('set_permissions'), first('persist')
    wbs = H.binding_sites(wof)
    fcall = next((c for nm, c in seq if c.get('k') == 'Call' and c['f'].get('k') == 'Path' and c['f'].get('res') == 'local'
                  and wbs.get(c['f'].get('hid'), {}).get('kind') == 'param'), None)
    parts = [('create_dir_all', cda), ('NamedTempFile::new_in', newin), ('f(&mut out)', fcall), ('set_permissions', setp), ('persist', persist)]
    for nm, c in parts:
        ck.ob('R15.3', 'has|%s' % nm, c is not None, B.loc(c) if c else '', 'call present in with_output_file')
    if all(c is not None for _, c in parts):
        for (n1, c1), (n2, c2) in zip(parts, parts[1:]):
            ck.ob('R15.3', 'order|%s<%s' % (n1, n2), H.lexically_precedes_dominating(wof, c1, c2), B.loc(c2), '%s precedes %s on every path' % (n1, n2))
        # errors of f and set_permissions abort before persist: both under `?`
        pm = H.parents(wof)
        for nm, c in (('f(&mut out)', fcall), ('set_permissions', setp), ('NamedTempFile::new_in', newin)):
            ck.ob('R15.3', 'error-aborts|%s' % nm, pm.get(id(c), {}).get('k') == 'Try', B.loc(c), 'failure propagates with `?` before persist')
        # dir provenance: new_in(dir), dir = path.parent() ; persist(path) same path local
        dir_or = H.origin_callees(wof, newin['args'][0], through=('ok_or_else', 'ok_or', 'unwrap_or', 'expect', 'unwrap'))
        ck.ob('R15.3', 'temp-in-destination-dir', any(x.endswith('parent') for x in dir_or), B.loc(newin), 'new_in argument derives from %s' % sorted(dir_or))
        par = next((c for nm, c in seq if nm == 'parent'), None)
        p_root = H.root_local(par['recv']) if par is not None else None
        q_root = H.root_local(persist['args'][0]) if persist['args'] else None
        same = p_root is not None and q_root is not None and p_root.get('hid') == q_root.get('hid')
        ck.ob('R15.3', 'same-path-for-parent-and-persist', same, B.loc(persist), 'parent() and persist() use the same local `%s`' % (p_root or {}).get('name'))
        cda_root = H.root_local(cda['args'][0]) if cda['args'] else None
        ni_root = H.root_local(newin['args'][0])
        ck.ob('R15.3', 'same-dir-created-and-used', cda_root is not None and ni_root is not None and cda_root.get('hid') == ni_root.get('hid'), B.loc(cda), 'create_dir_all and new_in use the same local')
        # persist is the last effect: nothing but Ok(()) after it
        later = [nm for nm, c in seq if c is not persist and H.lexically_precedes_dominating(wof, persist, c)]
        ck.ob('R15.3', 'persist-is-last-effect', not [x for x in later if x not in ('Ok',)], B.loc(persist), 'calls after persist: %s' % later)

    # ---- R15.4 / R15.5 in generate_ui_file ------------------------------------
    # a write site is a call of with_output_file in generate_ui_file, or a call of a helper of the bin crate that holds exactly
    # one with_output_file call on its own path and buffer parameters (the refactored form of the same thing)
    def wof_parts(f, w):
        """(path root, buffer root) of a with_output_file call inside f."""
        clos = next((a for a in w['args'] if a.get('k') == 'Closure'), None)
        b_root = None
        if clos is not None:
            for c in H.calls_in(clos['body']):
                if c.get('m') == 'write_all' and c['args']:
                    b_root = H.root_local(c['args'][0])
        return H.root_local(w['args'][0]), b_root

    sites = []
    for c in H.calls_in(guf['body']):
        if H.is_call_to(c, 'with_output_file'):
            pr, br = wof_parts(guf, c)
            sites.append({'call': c, 'wfn': guf, 'w': c, 'path_arg': c['args'][0], 'path_root': pr, 'buf_root': br, 'wpath': pr, 'wbuf': br, 'region': None})
            continue
        tgt = H.callee(c) or H.callee_decl(c)
        hf = B.fn(tgt) if tgt else None
        if hf is None or hf is guf or hf is wof or hf.get('body') is None:
            continue
        ws = [x for x in H.calls_in(hf['body']) if H.is_call_to(x, 'with_output_file')]
        if not ws:
            continue
        if len(ws) != 1:
            ck.ob('R15.4', 'helper-form|%s' % hf['name'], False, B.loc(c), 'helper %s holds %d with_output_file calls: form not understood' % (hf['name'], len(ws)))
            continue
        ck.analysed('bin::' + hf['path'])
        wp, wb = wof_parts(hf, ws[0])
        bsh = H.binding_sites(hf)
        pi = bsh.get((wp or {}).get('hid'), {})
        bi = bsh.get((wb or {}).get('hid'), {})
        if pi.get('kind') != 'param' or bi.get('kind') != 'param' or pi['index'] >= len(c['args']) or bi['index'] >= len(c['args']):
            ck.ob('R15.4', 'helper-form|%s' % hf['name'], False, B.loc(c), 'helper %s does not write its own path/buffer parameters: form not understood' % hf['name'])
            continue
        sites.append({'call': c, 'wfn': hf, 'w': ws[0], 'path_arg': c['args'][pi['index']], 'path_root': H.root_local(c['args'][pi['index']]),
                      'buf_root': H.root_local(c['args'][bi['index']]), 'wpath': wp, 'wbuf': wb, 'region': hf['body']})
    writes = [s_['call'] for s_ in sites]
    ck.floor('R15.4', len(writes), 2, 'output write sites in generate_ui_file')
    pm = H.parents(guf)
    roles = {}

    def peel_b(x):
        while x.get('k') in ('Paren', 'DropTemps') or (x.get('k') == 'Block' and not x.get('stmts') and 'e' in x):
            x = x['e']
        return x

    def local_init(f, x):
        if x.get('k') == 'Path' and x.get('res') == 'local':
            b = H.binding_sites(f).get(x.get('hid'))
            if b and b['kind'] == 'let' and b['pat'].get('k') == 'Bind' and b['node'].get('init') is not None and \
                    not any(n.get('k') in ('Assign', 'AssignOp') and n['l'].get('k') == 'Path' and n['l'].get('hid') == x.get('hid') for n in walk(f['body'])):
                return b['node']['init']
        return None

    def is_E(f, x, ph, bh):
        """x is `the file at the written path exists and its bytes equal the buffer`: fs::read(path) compared with == against the
        buffer, false when the read fails."""
        x = peel_b(x)
        if x.get('k') not in ('Call', 'MCall', 'Match'):
            return False
        if x.get('k') == 'Call':
            # `is_file_content_eq(&path, &data)`: a helper of the bin crate whose result is the comparison of its own parameters
            g = B.fn(H.callee(x) or H.callee_decl(x) or '?')
            if g is not None and g is not f and g.get('body') is not None and len(g.get('params', [])) == len(x['args']):
                ph2 = bh2 = None
                for i_, a in enumerate(x['args']):
                    rl = H.root_local(a)
                    if rl is not None and rl.get('hid') == ph:
                        ph2 = next((b['hid'] for b in H.pat_bindings(g['params'][i_])), None)
                    if rl is not None and rl.get('hid') == bh:
                        bh2 = next((b['hid'] for b in H.pat_bindings(g['params'][i_])), None)
                vals = list(H.return_exprs(g['body']))
                if ph2 is not None and bh2 is not None and len(vals) == 1:
                    return is_E(g, vals[0], ph2, bh2)
                return False
        reads = [r for r in H.calls_in(x) if (H.callee_decl(r) or '') == 'std::fs::read']
        if not reads or not all(H.root_local(r['args'][0]) is not None and H.root_local(r['args'][0]).get('hid') == ph for r in reads):
            return False
        cparams = {b['hid'] for cl in walk(x) if cl.get('k') == 'Closure' for p_ in cl['params'] for b in H.pat_bindings(p_)}
        cparams |= {b['hid'] for a in walk(x) if a.get('k') == 'Arm' for b in H.pat_bindings(a['pat'])}
        cmp_ok = False
        def whole(sd):
            # the value itself (through references and slice views), not something computed from it such as its length
            sd = H.strip_refs(sd)
            while sd.get('k') == 'MCall' and sd.get('m') in ('as_slice', 'as_ref', 'deref', 'as_bytes', 'borrow', 'as_deref') and not sd['args']:
                sd = H.strip_refs(sd['recv'])
            while sd.get('k') == 'Index' and H.strip_refs(sd.get('i', {})).get('k') == 'Struct' and 'RangeFull' in (H.strip_refs(sd['i']).get('def') or ''):
                sd = H.strip_refs(sd['e'])
            return sd.get('hid') if sd.get('k') == 'Path' and sd.get('res') == 'local' else None
        for bn in walk(x):
            if bn.get('k') == 'Binary' and bn.get('op') == 'Eq':
                hids = {whole(sd) for sd in (bn['l'], bn['r'])}
                if None not in hids and bh in hids and hids & cparams:
                    cmp_ok = True
        dflt = any((c.get('m') == 'unwrap_or' and c['args'] and H.lit_value(c['args'][0]) is False) or c.get('m') in ('is_ok_and', 'is_some_and') or
                   (c.get('m') == 'map_or' and c['args'] and H.lit_value(c['args'][0]) is False) for c in H.calls_in(x))
        neg = any(n.get('k') == 'Unary' and n.get('op') == 'Not' for n in walk(x)) or any(n.get('k') == 'Binary' and n.get('op') in ('Ne', 'Or') for n in walk(x))
        return cmp_ok and dflt and not neg

    def is_len_E(f, x, ph, bh):
        """x is `a file exists at the written path and has the length of the buffer` (follows from equal content, not the converse)."""
        x = peel_b(x)
        if x.get('k') not in ('Call', 'MCall'):
            return False
        md = [r for r in H.calls_in(x) if (H.callee_decl(r) or '') in ('std::fs::metadata', 'std::fs::symlink_metadata')]
        if not md or not all(H.root_local(r['args'][0]) is not None and H.root_local(r['args'][0]).get('hid') == ph for r in md):
            return False
        cparams = {b['hid'] for cl in walk(x) if cl.get('k') == 'Closure' for p_ in cl['params'] for b in H.pat_bindings(p_)}
        cmp_ok = False
        for bn in walk(x):
            if bn.get('k') == 'Binary' and bn.get('op') == 'Eq':
                sides = []
                for sd in (bn['l'], bn['r']):
                    sd = sd['e'] if sd.get('k') == 'Cast' else sd
                    sides.append(((H.root_local(sd) or {}).get('hid'), sd.get('k') == 'MCall' and sd.get('m') == 'len'))
                if all(is_len for _, is_len in sides) and {h for h, _ in sides} & {bh} and {h for h, _ in sides} & cparams:
                    cmp_ok = True
        dflt = any((c.get('m') == 'unwrap_or' and c['args'] and H.lit_value(c['args'][0]) is False) or c.get('m') in ('is_ok_and', 'is_some_and') or
                   (c.get('m') == 'map_or' and c['args'] and H.lit_value(c['args'][0]) is False) for c in H.calls_in(x))
        neg = any(n.get('k') == 'Unary' and n.get('op') == 'Not' for n in walk(x)) or any(n.get('k') == 'Binary' and n.get('op') in ('Ne', 'Or', 'And') for n in walk(x))
        return cmp_ok and dflt and not neg

    def implies_E(f, x, ph, bh, d=0):
        """x true => content equal."""
        x = peel_b(x)
        if d > 8:
            return False
        if x.get('k') == 'Binary' and x.get('op') == 'And':
            return implies_E(f, x['l'], ph, bh, d + 1) or implies_E(f, x['r'], ph, bh, d + 1)
        if x.get('k') == 'Binary' and x.get('op') == 'Or':
            return implies_E(f, x['l'], ph, bh, d + 1) and implies_E(f, x['r'], ph, bh, d + 1)
        li = local_init(f, x)
        if li is not None:
            return implies_E(f, li, ph, bh, d + 1)
        return is_E(f, x, ph, bh)

    def implied_by_E(f, x, ph, bh, d=0):
        """content equal => x true."""
        x = peel_b(x)
        if d > 8:
            return False
        if x.get('k') == 'Binary' and x.get('op') == 'Or':
            return implied_by_E(f, x['l'], ph, bh, d + 1) or implied_by_E(f, x['r'], ph, bh, d + 1)
        if x.get('k') == 'Binary' and x.get('op') == 'And':
            return implied_by_E(f, x['l'], ph, bh, d + 1) and implied_by_E(f, x['r'], ph, bh, d + 1)
        li = local_init(f, x)
        if li is not None:
            return implied_by_E(f, li, ph, bh, d + 1)
        return is_E(f, x, ph, bh) or is_len_E(f, x, ph, bh)

    def neg_of(x):
        x = peel_b(x)
        if x.get('k') == 'Unary' and x.get('op') == 'Not':
            return peel_b(x['e'])
        return None

    for i, st_ in enumerate(sites):
        w = st_['call']
        path_arg = st_['path_arg']
        path_root = st_['path_root']
        buf_root = st_['buf_root']
        pname = (path_root or {}).get('name', '?')
        bname = (buf_root or {}).get('name', '?')
        key = 'write|%s' % pname
        wfn, ww = st_['wfn'], st_['w']
        ph, bh = (st_['wpath'] or {}).get('hid'), (st_['wbuf'] or {}).get('hid')
        region = st_['region']
        direct = region is None
        if direct:
            region = guf['body']       # direct form: all paths through generate_ui_file
        # what says that there is nothing to write for this site: the Option the filling call's receiver was taken out of is None
        fill = None
        if buf_root is not None:
            for c in H.calls_in(guf['body']):
                if any(a.get('k') == 'AddrOf' and a.get('mut') and (H.root_local(a) or {}).get('hid') == buf_root.get('hid') for x in [c] for a in H.call_args(x)):
                    anc_calls = [a for a in H.ancestors(guf, c) if a.get('k') in ('Call', 'MCall')]
                    fill = anc_calls[-1] if anc_calls else c
                    # the outermost call of the statement (serialize_to_xml(&mut XmlWriter::new(&mut buf)))
                    fill = next((a for a in reversed([c] + anc_calls) if a.get('k') == 'MCall' and H.root_local(a['recv']) is not None and (H.root_local(a['recv']) or {}).get('hid') != buf_root.get('hid')), fill)
                    break
        absent_nodes = set()
        if fill is not None and fill.get('k') == 'MCall':
            src = H.root_local(fill['recv'])
            bsrc = H.binding_sites(guf).get((src or {}).get('hid')) if src is not None else None
            if bsrc is not None and bsrc['kind'] == 'letcond':
                absent_nodes.add(id(H.parents(guf).get(id(bsrc['node']))))      # the `if let Some(x) = opt` node
            if bsrc is not None and bsrc['kind'] == 'let' and bsrc['node'].get('els') is not None:
                absent_nodes.add(id(bsrc['node']))

        def classify(n):
            if n is ww:
                return 'W'
            if n.get('k') == 'Call' and (n.get('def') or '').endswith('Result::Err'):
                return 'ERR'
            return None
        skip_bad, write_bad, n_skip, n_write = [], [], 0, 0
        for ctx, evs, ex in H.paths(region, classify):
            if 'ERR' in evs and ex == 'return':
                continue        # the source is refused on this path
            if direct and any((lab == 'else' and id(node) in absent_nodes) or (lab == 'let-else' and id(node) in absent_nodes) for lab, node in ctx):
                continue        # nothing to write for this output (no support code)

            def decided(pred_then, pred_else):
                for lab, node in ctx:
                    if node.get('k') != 'If' or node['c'].get('k') == 'LetCond':
                        continue
                    c_ = node['c']
                    n_ = neg_of(c_)
                    if lab == 'then' and (pred_then(c_) if n_ is None else pred_else(n_)):
                        return True
                    if lab == 'else' and (pred_else(c_) if n_ is None else pred_then(n_)):
                        return True
                return False
            if 'W' in evs:
                n_write += 1
                # content equal => this path is not taken: some decision on it is false whenever the content is equal
                if not decided(lambda c_: False, lambda c_: implied_by_E(wfn, c_, ph, bh)):
                    write_bad.append(H.describe_ctx(ctx) or '<unconditional>')
            else:
                n_skip += 1
                # this path leaves the old file in place: some decision on it holds only when the content is equal
                if not decided(lambda c_: implies_E(wfn, c_, ph, bh), lambda c_: False):
                    skip_bad.append(H.describe_ctx(ctx) or '<unconditional>')
        if not direct:
            # helper form: the helper itself must be reached on every path of generate_ui_file that succeeds and has the data
            for ctx, evs, ex in H.paths(guf['body'], lambda n: 'W' if n is w else ('ERR' if n.get('k') == 'Call' and (n.get('def') or '').endswith('Result::Err') else None)):
                if 'ERR' in evs and ex == 'return':
                    continue
                if any((lab == 'else' and id(node) in absent_nodes) or (lab == 'let-else' and id(node) in absent_nodes) for lab, node in ctx):
                    continue
                if 'W' not in evs:
                    skip_bad.append('in generate_ui_file: ' + (H.describe_ctx(ctx) or '<unconditional>'))
        ok_skip = n_write >= 1 and not skip_bad
        ck.ob('R15.4', key + '|skipped-only-if-same-bytes', ok_skip, B.loc(ww),
              '%d path(s) leave the existing file in place, each under a test that holds only if fs::read(%s) == %s' % (n_skip, pname, bname) if ok_skip else
              'the existing file is kept on a path where its bytes need not equal the new output (a stale %s survives the run): %s' % (pname, skip_bad or 'no writing path'))
        ok_wr = n_write >= 1 and n_skip >= 1 and not write_bad
        ck.ob('R15.4', key + '|guarded-by-compare', ok_wr, B.loc(ww),
              '%d writing path(s), each excluded when fs::read(%s) == %s (unchanged output is left untouched)' % (n_write, pname, bname) if ok_wr else
              'the file is rewritten on a path that is also taken when its bytes already equal the output: %s' % (write_bad or 'no skipping path'))
        # R15.5 provenance of the path and of the buffer
        por = H.origin_callees(guf, path_arg, through=('join', 'with_file_name'))
        bor = set()
        if buf_root is not None:
            # the buffer is filled by a call taking &mut buf: find calls whose args mention &mut buf
            for c in H.calls_in(guf['body']):
                for a in H.call_args(c):
                    if a.get('k') == 'AddrOf' and a.get('mut'):
                        rl = H.root_local(a)
                        if rl is not None and rl.get('hid') == buf_root.get('hid'):
                            bor.add(c.get('m') or short(H.callee_decl(c) or '?'))
                            # also outer call using that as argument (XmlWriter::new_with_indent(&mut buf) passed to serialize_to_xml)
                            for anc in H.ancestors(guf, c):
                                if anc.get('k') in ('Call', 'MCall'):
                                    bor.add(anc.get('m') or short(H.callee_decl(anc) or '?'))
        # the buffer starts empty in this call: a fresh Vec, or cleared in front of the serializer that fills it (a buffer kept between sources
        # and not cleared makes every later output the concatenation of all documents so far)
        fresh = False
        fwhy = 'buffer not found'
        if buf_root is not None:
            bsite = H.binding_sites(guf).get(buf_root.get('hid'))
            init = H.strip_refs(bsite['node']['init']) if bsite and bsite['kind'] == 'let' and bsite['node'].get('init') is not None else None
            if init is not None and init.get('k') == 'Call' and (init.get('def') or '').split('::')[-1] in ('new', 'with_capacity', 'default') and 'Vec' in (B.ty(init) or ''):
                fresh, fwhy = True, 'let mut %s = %s in generate_ui_file: empty for every source' % (bname, pp(init, maxlen=30))
            else:
                clears = [c for c in H.calls_in(guf['body']) if c.get('k') == 'MCall' and c.get('m') in ('clear',) and (H.root_local(c['recv']) or {}).get('hid') == buf_root.get('hid')]
                if fill is not None and any(H.lexically_precedes_dominating(guf, c, fill) for c in clears):
                    fresh, fwhy = True, '%s.clear() in front of the serializer' % bname
                else:
                    fwhy = '`%s` is %s and is not cleared in front of the serializer' % (bname, pp(init, maxlen=50) if init is not None else 'handed in from outside')
        ck.ob('R15.5', 'buffer-starts-empty|%s' % pname, fresh, B.loc(w), fwhy if fresh else
              'the bytes written to %s are not only what this call serialized: %s (what was left there by an earlier source is written again)' % (pname, fwhy))
        is_ui = any(x.endswith('type_name_to_ui_name') for x in por)
        is_h = any(x.endswith('type_name_to_ui_support_cxx_header_name') for x in por)
        roles[pname] = ('ui' if is_ui else '') + ('h' if is_h else '')
        if is_ui and not is_h:
            ck.ob('R15.5', 'ui-path-gets-form-xml', 'serialize_to_xml' in bor and 'write_header' not in bor, B.loc(w), 'path from type_name_to_ui_name; buffer filled by %s' % sorted(bor))
        elif is_h and not is_ui:
            ck.ob('R15.5', 'header-path-gets-header', 'write_header' in bor and 'serialize_to_xml' not in bor, B.loc(w), 'path from type_name_to_ui_support_cxx_header_name; buffer filled by %s' % sorted(bor))
            under_some = False
            for anc in H.ancestors(guf, w):
                if anc.get('k') == 'If' and anc['c'].get('k') == 'LetCond':
                    pat = anc['c']['pat']
                    if pat.get('k') == 'PTS' and (pat.get('def') or '').endswith('Option::Some'):
                        under_some = True
            if not under_some and absent_nodes:
                # `let Some(ui_support) = ui_support_opt else { return Ok(()) };` in front: same thing as a guard clause
                under_some = True
            ck.ob('R15.5', 'header-only-if-support-code', under_some, B.loc(w), 'the header is filled from the payload of `Some(ui_support)`: written only if support code exists')
        else:
            ck.ob('R15.5', 'path-provenance|%s' % pname, False, B.loc(w), 'output path derives from %s' % sorted(por))
        ck.ob('R15.5', 'path-through-with_file_name|%s' % pname, any(x.endswith('with_file_name') for x in por), B.loc(w), 'derives from source.with_file_name(..): %s' % sorted(por))
        joins = any(x.endswith('join') for x in por)
        ck.ob('R15.5', 'path-joined-under-output-dir|%s' % pname, joins, B.loc(w), 'dir.join(..) on the Some(dir) branch')
    ck.ob('R15.5', 'both-outputs-written', sorted(roles.values()) == ['h', 'ui'], '', 'roles of written paths: %s' % roles)
    # with_file_name receiver is `source`; type_name arg is doc.type_name()
    for c in H.calls_in(guf['body']):
        if c.get('m') == 'with_file_name':
            rl = H.root_local(c['recv'])
            site = H.binding_sites(guf).get(rl['hid'], {}) if rl is not None else {}
            ck.ob('R15.5', 'with_file_name-on-source', site.get('kind') == 'param' and 'Utf8Path' in (B.tys[site['bind']['t']] if site else '')
                  and 'Option' not in B.tys[site['bind']['t']], B.loc(c), 'receiver %s is the source-path parameter' % pp(c['recv']))
        if c.get('m') in ('type_name_to_ui_name', 'type_name_to_ui_support_cxx_header_name'):
            a0 = H.strip_refs(c['args'][0])
            ck.ob('R15.5', 'name-from-doc-type-name|%s' % c['m'], a0.get('k') == 'MCall' and (a0.get('def') or '').endswith('UiDocument::type_name'), B.loc(c), 'argument %s' % pp(c['args'][0]))
    # join receiver is the output directory bound by `if let Some(dir) = output_directory`
    for c in H.calls_in(guf['body']):
        if c.get('m') == 'join':
            rl = H.root_local(c['recv'])
            src = H.origins(guf, c['recv'])
            ok = any(o.get('k') == 'Bind' and 'Option<&camino::Utf8Path>' in (B.tys[o['t']] if 't' in o else '') for o in src)
            ck.ob('R15.5', 'join-on-output-directory', ok, B.loc(c), 'receiver %s' % pp(c['recv']))

    # sibling rule: every type_name_to_* returns through apply_case_change; apply_case_change lowercases iff self.lowercase
    L = F.lib
    sib = [f for f in L.fn_list if f['path'].startswith('qtname::FileNameRules::type_name_to_')]
    ck.floor('R15.5', len(sib), 4, 'FileNameRules::type_name_to_* functions')
    for f in sib:
        vals = list(H.return_exprs(f['body']))
        ok = bool(vals) and all(v.get('k') == 'MCall' and v.get('m') == 'apply_case_change' for v in vals)
        ck.ob('R15.5', 'case-rule-applied|%s' % f['name'], ok, L.loc(f['body']), 'returns %s' % ', '.join(pp(v, maxlen=50) for v in vals))
        ck.analysed(f['path'])
    # suffix/prefix templates
    expect = {'type_name_to_ui_name': '{0}.ui', 'type_name_to_ui_support_cxx_header_name': 'uisupport_{0}.{1}'}
    for f in sib:
        if f['name'] in expect:
            sites = H.format_sites_in_fn(f)
            texts = [H.fmt_text(s) for s in sites]
            ck.ob('R15.5', 'name-template|%s' % f['name'], texts == [expect[f['name']]], L.loc(f['body']), 'template %s' % texts)
            for s in sites:
                a0 = s['args'][0][1] if s['args'] else None
                rl = H.root_local(a0) if a0 is not None else None
                site = H.binding_sites(f).get(rl['hid'], {}) if rl is not None else {}
                ck.ob('R15.5', 'name-template-arg0-is-type-name|%s' % f['name'], site.get('kind') == 'param' and site.get('index') == 1, L.loc(f['body']), 'first placeholder is the type-name parameter')
    acc = L.fn('qtname::FileNameRules::apply_case_change')
    if acc is None:
        ck.floor('R15.5', 0, 1, 'fn apply_case_change')
    else:
        ifs = [n for n in walk(acc['body']) if n.get('k') == 'If']
        ok = len(ifs) == 1 and ifs[0]['c'].get('k') == 'Field' and ifs[0]['c'].get('f') == 'lowercase' and any(c.get('m') in ('make_ascii_lowercase', 'to_ascii_lowercase', 'to_lowercase') for c in H.calls_in(ifs[0]['then'])) and 'els' not in ifs[0]
        ck.ob('R15.5', 'case-rule-definition', ok, L.loc(acc['body']), 'lower-cases iff self.lowercase; otherwise returns the name unchanged')
    # CLI: lowercase = !no_lowercase_file_name
    for n in walk(gu['body']):
        if n.get('k') == 'Struct' and (n.get('def') or '').endswith('FileNameRules'):
            for f in n['fields']:
                if f['f'] == 'lowercase':
                    e = f['e']
                    ck.ob('R15.5', 'cli-lowercase-flag', e.get('k') == 'Unary' and e.get('op') == 'Not' and e['e'].get('k') == 'Field' and e['e'].get('f') == 'no_lowercase_file_name', B.loc(n), 'lowercase: %s' % pp(f['e']))

    # ---- R15.6 from the path on the command line / in the directory to the type name the outputs are named after ----------------------
    # (a) UiDocument::read: type_name = path.file_stem(), handed to parse() as it is
    rd = L.fn('qmldoc::UiDocument::read')
    if rd is None:
        ck.floor('R15.6', 0, 1, 'fn UiDocument::read')
    else:
        ck.analysed(rd['path'])
        pc = next((c for c in H.calls_in(rd['body']) if (H.callee(c) or H.callee_decl(c) or '').endswith('UiDocument::parse')), None)
        ok = False
        why = 'call of Self::parse(source, type_name, path) not found'
        if pc is not None and len(pc['args']) >= 2:
            chain = []
            for o in H.origins(rd, pc['args'][1]):
                x = H.strip_refs(o)
                while x.get('k') == 'MCall':
                    m_ = x.get('m')
                    if m_ == 'map' and x['args']:
                        # `.map(|s| s.to_owned())` / `.map(ToOwned::to_owned)` / `.map(String::from)` only re-own the stem
                        f_ = x['args'][0]
                        if f_.get('k') == 'Closure':
                            vs_ = [H.strip_refs(v) for v in H.return_exprs(f_['body'])]
                            view = len(vs_) == 1 and (vs_[0].get('k') == 'Path' or (vs_[0].get('k') == 'MCall' and vs_[0].get('m') in ('to_owned', 'to_string', 'into', 'as_ref', 'as_str') and H.strip_refs(vs_[0]['recv']).get('k') == 'Path')
                                                      or (vs_[0].get('k') == 'Call' and (vs_[0].get('def') or '').split('::')[-1] == 'from' and 'String' in (vs_[0].get('def') or '')))
                        else:
                            view = f_.get('k') == 'Path' and (f_.get('def') or '').split('::')[-1] in ('to_owned', 'to_string', 'from', 'into', 'as_ref') and \
                                ('String' in (f_.get('def') or '') or 'ToOwned' in (f_.get('def') or '') or 'ToString' in (f_.get('def') or '') or 'From' in (f_.get('def') or '') or 'Into' in (f_.get('def') or ''))
                        m_ = 'to_owned' if view else 'map'
                    chain.append(m_)
                    x = H.strip_refs(x['recv'])
                root = x
            other = [m for m in chain if m not in ('file_stem', 'ok_or_else', 'ok_or', 'to_owned', 'into', 'as_ref')]
            p0 = {b['hid'] for b in H.pat_bindings(rd['params'][0])} if rd.get('params') else set()
            let_of_param = False
            rl = H.root_local(root) if chain else None
            for _ in range(3):
                if rl is None:
                    break
                if rl.get('hid') in p0:
                    let_of_param = True
                    break
                b = H.binding_sites(rd).get(rl.get('hid'))
                rl = H.root_local(b['node']['init']) if b and b['kind'] == 'let' and b['node'].get('init') is not None else None
            ok = 'file_stem' in chain and not other and let_of_param
            why = 'type name = path.file_stem() of the path parameter (chain %s)' % list(reversed(chain)) if ok else \
                'the type name handed to parse() is derived through %s: it is no longer the file stem as written (output names and <class> follow it)' % (other or list(reversed(chain)))
        ck.ob('R15.6', 'type-name-is-the-file-stem', ok, L.loc(pc) if pc else L.loc(rd['body']), why)
        tn = L.fn('qmldoc::UiDocument::type_name')
        v = [H.strip_refs(x) for x in H.return_exprs(tn['body'])] if tn else []
        ck.ob('R15.6', 'type_name-returns-the-field', len(v) == 1 and v[0].get('k') == 'Field' and v[0].get('f') == 'type_name', L.loc(tn['body']) if tn else '', 'type_name() returns self.type_name')
    # (b) the cache hands out, for a path, a document that was read under the same file name: its key keeps the file name
    cache_fns = [f for f in L.fn_list if (f.get('impl_self') or '') == 'qmldoc::UiDocumentsCache' and f.get('x') is None]
    n_key = 0
    for f in cache_fns:
        for c in H.calls_in(f['body']):
            if not (c.get('k') == 'MCall' and c.get('m') in ('entry', 'get', 'get_mut', 'remove', 'insert', 'contains_key') and c['args']):
                continue
            r = H.strip_refs(c['recv'])
            if not (r.get('k') == 'Field' and r.get('f') == 'docs'):
                continue
            n_key += 1
            ck.analysed(f['path'])
            key = c['args'][0]
            # where the key is computed: here, or in a helper of the module
            exprs = [(f, key)]
            seen = set()
            canon_bad, joins = [], 0
            while exprs:
                g, e = exprs.pop()
                for o in [e] + list(H.origins(g, e)):
                    for x in walk(o):
                        if id(x) in seen or x.get('k') not in ('Call', 'MCall'):
                            continue
                        seen.add(id(x))
                        t = H.callee(x) or H.callee_decl(x) or ''
                        g2 = L.fn(t) if t.startswith('qmldoc::') else None
                        if g2 is not None and g2 is not g and g2.get('body') is not None:
                            for rv in H.return_exprs(g2['body']):
                                exprs.append((g2, rv))
                            continue
                        if x.get('k') == 'MCall' and x.get('m', '').startswith('canonicalize'):
                            src = H.origin_callees(g, x['recv'], through=('as_ref', 'to_owned', 'as_path'))
                            rr = H.strip_refs(x['recv'])
                            lit_dot = any(H.lit_value(a) == '.' for y in walk(rr) if y.get('k') == 'Call' for a in y['args'])
                            if not (any(n_.endswith('parent') for n_ in src) or lit_dot):
                                canon_bad.append(pp(x, maxlen=50))
                        if x.get('k') == 'MCall' and x.get('m') == 'join' and x['args']:
                            if any(n_.endswith('file_name') for n_ in H.origin_callees(g, x['args'][0], through=('as_ref', 'to_owned', 'ok_or_else', 'ok_or'))):
                                joins += 1
                    # a closure parameter of `.and_then(|p| self.docs.get(&p))` is what the adaptor's receiver yields
                    rl = H.root_local(o) if o.get('k') in ('Path', 'AddrOf', 'Bind') or True else None
                    bsite = H.binding_sites(g).get((rl or {}).get('hid')) if rl is not None else None
                    if bsite and bsite['kind'] == 'closure_param' and id(bsite['node']) not in seen:
                        seen.add(id(bsite['node']))
                        ad = H.parents(g).get(id(bsite['node']))
                        if ad is not None and ad.get('k') == 'MCall' and ad.get('m') in ('and_then', 'map', 'map_or', 'is_some_and', 'is_ok_and'):
                            exprs.append((g, ad['recv']))
            ok = not canon_bad
            ck.ob('R15.6', 'cache-key-keeps-the-file-name|%s|%s' % (f['name'], c['m']), ok, L.loc(c),
                  'the key resolves symbolic links in the directory part only (canonicalize on parent(); the file name is joined back)' if ok else
                  'the cache key is the fully resolved path (%s): a symbolic link to a file of another name shares the entry of its target, and the document (type name, output names) '
                  'of whichever was read first is handed out for both' % canon_bad[0], fn=f['path'])
    ck.floor('R15.6', n_key, 3, 'accesses to the documents map')
    # (c) documents are asked for by the path as given (command line, directory entry), not by a resolved one
    n_rd = 0
    for crate in (L, B):
        for f in crate.fn_list:
            if (f.get('impl_self') or '') == 'qmldoc::UiDocumentsCache':
                continue
            for c in H.calls_in(f['body']):
                t = H.callee(c) or H.callee_decl(c) or ''
                if not (t.endswith('UiDocumentsCache::read') or t.endswith('UiDocument::read')):
                    continue
                n_rd += 1
                arg = H.call_args(c)[-1]
                via = H.origin_callees(f, arg, through=None)
                bad = sorted(x for x in via if x.split('::')[-1] in ('normalize_path', 'canonicalize', 'canonicalize_utf8', 'read_link', 'read_link_utf8'))
                ck.ob('R15.6', 'read-by-the-path-as-given|%s' % short(f['path']), not bad, crate.loc(c),
                      'read(%s): the path as given' % pp(arg, maxlen=40) if not bad else
                      'the document is read through a resolved path (%s): for a symbolic link the type name becomes that of the link target' % bad[0], fn=f['path'])
    ck.floor('R15.6', n_rd, 2, 'document reads')

    # ---- R15.7 "for each successfully translated source": the gate in front of the writes and what it tests (C04 R4.4 / R4.6) ------------
    import core as _core7
    import rules.c04 as c04
    s4 = _core7.Shared(ck, 'R15.7', lambda r, k: r == 'R4.6' or (r == 'R4.4' and (k.startswith('write-') or k in ('only-error-free-builds-continue', 'guard-tests-the-build-diagnostics', 'syntax-error-returns-err'))), 'C04:',
                       ' [a source with an error must leave its outputs alone]')
    c04.run(s4)
    ck.floor('R15.7', s4.count, 8, 'shared C04 R4.4 / R4.6 obligations')
