"""C06: generated function bodies have sound control flow and define before use."""
import re
from facts import walk, short, pp
import hirutil as H
import labelflow as LF
import core

LEVEL = 'other'
TECHNIQUE = ('label-provenance analysis of every terminator the IR builder creates (symbolic region algebra over mark_branch_point labels), '
             'typestate of labels (every marked block finalized exactly once on every path), who-may-create/remove blocks and block '
             'references, reachability-completeness of the completion-value patch-up, sink-assignment pairing; all over typed HIR, '
             'compared with a reviewed lowering protocol table')
LEVEL_TEXT = ('Well-formedness of every generated body is an induction over the walker: each construct occupies a contiguous block '
              'region, every label returned by mark_branch_point is the last block of a region and next(label) the first block after it. '
              'The check establishes the premises of that induction on the source: who creates blocks and block references, that each '
              'visitor finalizes each of its labels exactly once and unconditionally, that every branch target has the provenance the '
              'reviewed protocol table requires (next(label) of the right parameter, the label itself only for break), that the walker '
              'hands its marks to the visitor in region order and cannot accept a program without wiring it, that the final patch-up '
              'gives the unreachable marker only to dead blocks, that sinks are assigned at the end of each arm with the arm\'s own '
              'value, and that value-returning evaluators are built only after the return type was verified.')
LEVEL_NOTE = ('Trusted: tables/cfg_wiring.json (reviewed lowering protocol). Not decided: index arithmetic inside visit_switch_statement '
              '(which case pairs with which body when a default clause is in the middle: runtime quantities), user-declared locals read '
              'before assignment.')
DESIGN_REF = 'DESIGN.md section 4, C06'

MUTATORS = {'push', 'pop', 'remove', 'insert', 'truncate', 'clear', 'swap', 'drain', 'retain', 'extend', 'append', 'split_off', 'sort', 'sort_by',
            'sort_by_key', 'reverse', 'dedup', 'swap_remove', 'resize', 'rotate_left', 'rotate_right', 'extend_from_slice', 'retain_mut'}


def shape_paths(v, prefix):
    if v[0] == 'at':
        yield prefix, set(v[1])
    elif v[0] == 'tup':
        for i, x in enumerate(v[1]):
            for r in shape_paths(x, '%s.%d' % (prefix, i)):
                yield r
    else:
        for r in shape_paths(v[1], prefix + '[*]'):
            yield r


class MarkFlow(LF.Flow):
    """labels in the walker: every mark_branch_point() call site is its own atom."""

    def __init__(self, fn, marks):
        LF.Flow.__init__(self, fn, wrappers=())
        self.marks = marks

    def val(self, e):
        if e.get('k') == 'MCall' and e.get('m') == 'mark_branch_point':
            return LF.at('mark@%d' % self.marks[id(e)])
        return LF.Flow.val(self, e)


def run(ck):
    if getattr(ck, 'depth', 0) >= 2:
        return      # a shared run of a shared run: nothing of it is selected, and mutual sharing must end somewhere
    F = ck.facts
    L = F.lib
    T = core.load_table('cfg_wiring.json')
    ck.explanation = (
        'R6.1 walker protocol: every mark_branch_point() in typedexpr.rs flows to exactly one visit_* call, in the region order the table '
        'lists; the break target handed to the case bodies is the exit mark; the visit_* call dominates every accepting exit of its arm. '
        'R6.2 visitor typestate and wiring: each label parameter (each element for Vec/Option) is finalized at exactly one site that '
        'runs unconditionally (whole-collection loops, if-let on the optional label itself), with the terminator kind, condition operand '
        'and target provenances of the table. R6.3 blocks are only appended, by the three listed functions, and block references are '
        'only created at the four listed sites. R6.4 the completion-value patch-up runs on every accepting exit of build/build_callback '
        'for the then-current block, and assigns the unreachable marker only to blocks no live edge can enter. R6.5 sinks: assigned in '
        'each arm\'s end block with that arm\'s value before the block is finalized; emit_result assigns a temporary where it creates it; '
        'alloca has no other callers. R6.6 output: one C++ label per block through the same formatter the gotos use; value-returning '
        'evaluators only after verify_code_return_type (shared with C05 R5.6).')
    for rid, text in (('R6.1', 'walker hands every marked label to the visitor, in region order'),
                      ('R6.2', 'each label finalized exactly once with protocol-conforming targets'),
                      ('R6.3', 'blocks and block references are created only where the protocol says'),
                      ('R6.4', 'completion patch-up: always run, unreachable marker only on dead blocks'),
                      ('R6.5', 'temporaries are assigned before they are read on every path'),
                      ('R6.6', 'emitted labels/gotos agree; value functions return verified values')):
        ck.rule(rid, text)

    bfns = [f for f in L.fn_list if f['path'].startswith('<tir::builder::CodeBuilder') or f['path'].startswith('tir::builder::')]

    def bfn(name):
        return next((f for f in bfns if f['name'] == name), None)

    # ---- R6.2 visitor side -------------------------------------------------------------------------------------
    def block_of(fl, e, depth=0):
        e = H.strip_refs(e)
        if e.get('k') == 'MCall' and e.get('m') == 'get_basic_block_mut':
            return 'label', e['args'][0]
        if e.get('k') == 'MCall' and e.get('m') == 'current_basic_block_mut':
            return 'current', None
        if e.get('k') == 'Path' and e.get('res') == 'local' and depth < 3:
            b = fl.bs.get(e['hid'])
            if b and b['kind'] == 'let' and b['node'].get('init') is not None:
                return block_of(fl, b['node']['init'], depth + 1)
        return '?', e

    def render(fl, target, block_expr):
        """atoms of a target, with the label of the finalized block itself rendered as `self`."""
        v = fl.val(target)
        out = set(LF.atoms(v))
        if block_expr is not None:
            own = LF.atoms(fl.val(block_expr))
            br = H.root_local(block_expr)
            # next(X) where X is the very binding naming the finalized block
            t = H.strip_refs(target)
            cands = [t]
            if t.get('k') == 'Path' and t.get('res') == 'local':
                b = fl.bs.get(t['hid'])
                if b and b['kind'] == 'let' and b['node'].get('init') is not None:
                    cands = list(H.value_exprs(b['node']['init']))
            for c in cands:
                c = H.strip_refs(c)
                if c.get('k') == 'MCall' and c.get('m') == 'next':
                    r = H.root_local(c['recv'])
                    if r is not None and br is not None and r.get('hid') == br.get('hid') and H.strip_refs(c['recv']).get('k') == 'Path':
                        for a in own:
                            out.discard('next(%s)' % a)
                        out.add('next(self)')
            # a label parameter that can only be this block (not an element of a collection): same thing
            for a in list(out):
                m = re.match(r'^next\((.*)\)$', a)
                if m and m.group(1) in own and len(own) == 1 and '[*]' not in m.group(1):
                    out.discard(a)
                    out.add('next(self)')
        return out

    def unconditional(fn, site, fl, block_expr, optional_on):
        """why the site might not run on some path through fn (None = runs always)."""
        prev = site
        for a in H.ancestors(fn, site):
            k = a.get('k')
            if k == 'For':
                for m in walk(a['iter']):
                    if m.get('k') == 'MCall' and m.get('m') in LF.FILTERS:
                        return 'inside a loop over a narrowed collection (.%s())' % m['m']
                for x in walk(a['body']):
                    if x.get('k') in ('Break', 'Continue', 'Ret') and H.source_before(x, site):
                        return 'the loop can leave before reaching it (%s)' % x['k'].lower()
            elif k == 'If':
                c = a['c']
                if c.get('k') == 'LetCond' and optional_on is not None and prev is a.get('then'):
                    if LF.atoms(fl.val(c['e'])) == {optional_on} or LF.atoms(LF.elem(fl.val(c['e']))) == {optional_on + '[*]'}:
                        prev = a
                        continue
                return 'under a condition: ' + pp(c, maxlen=50)
            elif k in ('Match', 'Closure', 'Loop'):
                return 'inside a %s' % k.lower()
            prev = a
        return None

    def instances(fn, site):
        """Flows under which `site` executes: one per element when it sits in a `for` over an array literal, else one."""
        for a in H.ancestors(fn, site):
            if a.get('k') == 'For':
                it = H.strip_refs(a['iter'])
                while it.get('k') == 'MCall' and it.get('m') in ('iter', 'into_iter'):
                    it = H.strip_refs(it['recv'])
                if it.get('k') == 'Array' and it['es']:
                    out = []
                    base = LF.Flow(fn)
                    for el in it['es']:
                        fl = LF.Flow(fn)
                        ev = base.val(el)
                        for b in H.pat_bindings(a['pat']):
                            v = fl.bind_value(a['pat'], ev, b['hid'])
                            if v is not None:
                                fl.cache[b['hid']] = v
                        out.append(fl)
                    return out
        return [LF.Flow(fn)]

    def expand_self(targets, labels):
        out = []
        for t in targets:
            st = set()
            for a in t:
                if a == 'next(self)' and all('[*]' not in l for l in labels):
                    st |= {'next(%s)' % l for l in labels}
                else:
                    st.add(a)
            out.append(sorted(st))
        return out

    n_sites = 0
    for vname, spec in T['visitor'].items():
        fn = bfn(vname)
        if fn is None:
            ck.ob('R6.2', 'visitor|%s' % vname, False, '', 'visitor not found')
            continue
        ck.analysed(fn['path'])
        nlabels = sum(t.count('>::Label') for t in fn['inputs'])
        ck.ob('R6.2', 'label-count|%s' % vname, nlabels == spec['labels'], L.loc(fn['body']),
              '%d label position(s) in the signature, the protocol table wires %d' % (nlabels, spec['labels']))
        sites = []
        assigns = []
        for c in H.calls_in(fn['body']):
            if c.get('m') == 'finalize' and 'BasicBlock' in (L.ty(c['recv'], adjusted=True) or L.ty(c['recv']) or ''):
                for fl in instances(fn, c):
                    kind, be = block_of(fl, c['recv'])
                    term = c['args'][0]
                    tk = (term.get('def') or '?').split('::')[-1]
                    targs = term.get('args', []) if term.get('k') == 'Call' else []
                    tg = [a for a in targs if 'BasicBlockRef' in (L.ty(a) or '')]
                    ops = [a for a in targs if 'BasicBlockRef' not in (L.ty(a) or '')]
                    batoms = sorted(LF.atoms(fl.val(be))) if kind == 'label' else [kind]
                    sites.append({'node': c, 'fl': fl, 'block': batoms, 'be': be, 'term': tk, 'targets': expand_self([sorted(render(fl, t, be)) for t in tg], batoms),
                                  'operand': [sorted(LF.atoms(fl.val(o))) for o in ops]})
            if c.get('m') == 'push_statement' and c['args'] and (c['args'][0].get('def') or '').endswith('Statement::Assign'):
                for fl in instances(fn, c):
                    kind, be = block_of(fl, c['recv'])
                    if kind == 'label':
                        assigns.append({'node': c, 'fl': fl, 'be': be, 'block': sorted(LF.atoms(fl.val(be)))})
        if not fn['output'].startswith('std::result::Result'):
            rets = [n for n in walk(fn['body']) if n.get('k') in ('Ret', 'Try')]
            ck.ob('R6.2', 'no-early-exit|%s' % vname, not rets, L.loc(rets[0]) if rets else L.loc(fn['body']),
                  'the visitor cannot leave before wiring all of its labels' if not rets else 'early exit at %s leaves labels unfinalized' % pp(rets[0], maxlen=40))
        for row in spec['blocks']:
            key = '%s|%s' % (vname, row['label'])
            mine = [s for s in sites if s['block'] == [row['label']]]
            loose = [s for s in sites if row['label'] in s['block'] and s['block'] != [row['label']]]
            n_sites += len(mine)
            if len(mine) != 1 or loose:
                ck.ob('R6.2', 'finalized-once|' + key, False, L.loc((mine + loose)[-1]['node']) if (mine or loose) else L.loc(fn['body']),
                      'block %s is finalized at %d site(s)%s (blocks seen: %s)' % (row['label'], len(mine), ' and possibly at %d more' % len(loose) if loose else '', [s['block'] for s in sites]), fn=fn['path'])
                continue
            s = mine[0]
            why_not = unconditional(fn, s['node'], s['fl'], s['be'], row.get('optional_on'))
            ck.ob('R6.2', 'finalized-once|' + key, why_not is None, L.loc(s['node']),
                  'exactly one finalize site, on every path' if why_not is None else 'the only finalize site does not run on every path: ' + why_not, fn=fn['path'])
            ck.ob('R6.2', 'terminator|' + key, s['term'] == row['term'], L.loc(s['node']), '%s (protocol: %s)' % (s['term'], row['term']), fn=fn['path'])
            exp = expand_self([sorted(t) for t in row['targets']], [row['label']])
            ck.ob('R6.2', 'targets|' + key, s['targets'] == exp, L.loc(s['node']),
                  ('targets %s: %s' % (s['targets'], row['why'])) if s['targets'] == exp else
                  'targets %s, protocol requires %s (%s)' % (s['targets'], exp, row['why']), fn=fn['path'])
            if 'operand' in row:
                ck.ob('R6.2', 'condition-operand|' + key, s['operand'] == [sorted(row['operand'])], L.loc(s['node']),
                      'branches on %s, the value computed in the region this label ends (%s)' % (s['operand'], row['operand']), fn=fn['path'])
            if row.get('then_new_block'):
                pushes = [c for c in H.calls_in(fn['body']) if c.get('m') == 'push' and 'basic_blocks' in pp(c['recv'])]
                ok = len(pushes) == 1 and H.source_before(s['node'], pushes[0]) and unconditional(fn, pushes[0], s['fl'], None, None) is None
                ck.ob('R6.2', 'fresh-block-after|' + key, ok, L.loc(pushes[0]) if pushes else L.loc(fn['body']),
                      'the finalized current block is replaced by exactly one fresh open block', fn=fn['path'])
        listed = [r['label'] for r in spec['blocks']]
        for s in sites:
            if not any(l in s['block'] for l in listed):
                ck.ob('R6.2', 'unlisted-finalize|%s|%s' % (vname, '+'.join(s['block'])), False, L.loc(s['node']),
                      'finalize of %s is not part of the reviewed protocol' % s['block'], fn=fn['path'])
        # sinks (R6.5)
        for srow in spec.get('sinks', []):
            key = '%s|%s' % (vname, srow['label'])
            found = [a for a in assigns if a['block'] == [srow['label']]]
            if len(found) != 1:
                ck.ob('R6.5', 'sink-assigned|' + key, False, L.loc(fn['body']), '%d Assign statements pushed into block %s (seen: %s)' % (len(found), srow['label'], [a['block'] for a in assigns]), fn=fn['path'])
                continue
            c, be, fl = found[0]['node'], found[0]['be'], found[0]['fl']
            asg = c['args'][0]
            dst = asg['args'][0]
            rv = asg['args'][1]
            from_alloca = False
            seenb = set()
            cur = H.root_local(dst)
            for _ in range(4):
                if cur is None or cur.get('hid') in seenb:
                    break
                seenb.add(cur.get('hid'))
                b = fl.bs.get(cur.get('hid'))
                if b is None:
                    break
                src = b['node'].get('init') if b['kind'] == 'let' else b['node'].get('e') if b['kind'] == 'letcond' else None
                if src is None:
                    break
                if any(x.get('m') == 'alloca' for x in H.calls_in(src)):
                    from_alloca = True
                    break
                cur = H.root_local(src)
            copy_ok = (rv.get('def') or '').endswith('Rvalue::Copy')
            vat = sorted(LF.atoms(fl.val(rv['args'][0]))) if copy_ok else ['?']
            if vat != sorted(srow['value']) and copy_ok:
                inner = H.strip_refs(rv['args'][0])
                if inner.get('k') == 'Call' and (inner.get('def') or '').endswith('Operand::Constant'):
                    vat = ['lit']
            fin = [x for x in sites if x['block'] == [srow['label']]]
            before = bool(fin) and all(H.source_before(c, x['node']) for x in fin)
            cond = unconditional(fn, c, fl, be, None)
            # the ternary sink may be void (no temporary at all): `if let Ok(a) = &sink` is the only accepted condition
            if cond is not None and cond.startswith('under a condition') and re.search(r'let Ok\(\w+\) = &?\w+', cond):
                cond = None
            ok = from_alloca and copy_ok and vat == sorted(srow['value']) and before and cond is None
            ck.ob('R6.5', 'sink-assigned|' + key, ok, L.loc(c),
                  'sink := %s at the end of %s, before its terminator (%s)' % (vat, srow['label'], srow['why']) if ok else
                  'sink assignment in %s: from alloca=%s copy=%s value=%s (protocol %s) before finalize=%s condition=%s' % (srow['label'], from_alloca, copy_ok, vat, srow['value'], before, cond), fn=fn['path'])
    ck.floor('R6.2', n_sites, 12, 'finalize sites matched to the protocol')

    # ---- R6.1 walker side ----------------------------------------------------------------------------------------
    n_marks = 0
    seen_visitors = set()
    for fn in L.fn_list:
        if not fn['path'].startswith('typedexpr::'):
            continue
        mcs = sorted([c for c in H.calls_in(fn['body']) if c.get('m') == 'mark_branch_point'], key=lambda c: (c['sp'][1], c['sp'][2]))
        if not mcs:
            continue
        ck.analysed(fn['path'])
        marks = {id(c): i for i, c in enumerate(mcs)}
        fl = MarkFlow(fn, marks)
        used = {}
        for c in H.calls_in(fn['body']):
            if c.get('m') in T['walker']:
                spec = T['walker'][c['m']]
                seen_visitors.add(c['m'])
                got = {}
                for i, a in enumerate(c['args']):
                    for path, ats in shape_paths(fl.val(a), 'A%d' % i):
                        ms = sorted(int(x[5:]) for x in ats if x.startswith('mark@'))
                        if ms:
                            got[path] = ms
                        for m in ms:
                            used.setdefault(m, []).append((c['m'], path))
                order = [p for p, ms in sorted(got.items(), key=lambda kv: kv[1][0])]
                ok = order == spec['marks'] and all(len(ms) == 1 for ms in got.values())
                ck.ob('R6.1', 'region-order|%s' % c['m'], ok, L.loc(c),
                      'marks reach %s in source order (%s)' % (order, spec['why']) if ok else 'marks reach the visitor as %s, protocol: %s (%s)' % (sorted(got.items(), key=lambda kv: kv[1][0]), spec['marks'], spec['why']), fn=fn['path'])
                # consecutive marks: no mark of another construct interleaved
                allm = sorted(m for ms in got.values() for m in ms)
                ck.ob('R6.1', 'marks-contiguous|%s' % c['m'], allm == list(range(allm[0], allm[0] + len(allm))) if allm else False, L.loc(c),
                      'the construct uses marks %s of %s' % (allm, short(fn['path'])), fn=fn['path'])
                # accepting exits of the arm are dominated by the call
                arm = next((a for a in H.ancestors(fn, c) if a.get('k') == 'Arm' and any(id(m) in marks for m in H.calls_in(a['body']))), None)
                if arm is not None:
                    exits = [v for v in H.value_exprs(arm['body']) if v.get('k') == 'Call' and (v.get('def') or '').endswith('Option::Some')]
                    bad = [v for v in exits if not (H.lexically_precedes_dominating(fn, c, v) or any(x is c for x in walk(v)) or
                                                    any(any(x is c for x in walk(a2.get('e', {}))) for a2 in H.ancestors(fn, v) if a2.get('k') == 'Match'))]
                    ck.ob('R6.1', 'wired-before-accepting|%s' % c['m'], bool(exits) and not bad, L.loc(bad[0]) if bad else L.loc(c),
                          '%d accepting exit(s) of the arm, each after the visitor call' % len(exits) if not bad else 'the arm can yield Some(..) without calling %s: blocks stay open' % c['m'], fn=fn['path'])
                if 'break_target' in spec:
                    want = got_path_mark = next((ms for p, ms in got.items() if p == spec['break_target']), None)
                    # the value handed to walk_stmt_nodes in the position of its Option<Label> parameter
                    wsn = L.fn('typedexpr::walk_stmt_nodes')
                    lidx = next((i for i, t in enumerate(wsn['inputs']) if 'Option<' in t and '::Label' in t), None) if wsn else None
                    wcalls = [x for x in H.calls_in(fn['body']) if H.is_call_to(x, 'walk_stmt_nodes') and any(x2 is x for x2 in walk(next((a for a in H.ancestors(fn, c) if a.get('k') == 'Arm'), {'k': 'x'})))]
                    bl = []
                    for x in wcalls:
                        if lidx is not None and lidx < len(x['args']):
                            b = fl.bs.get((H.root_local(x['args'][lidx]) or {}).get('hid'))
                            if b is not None and b['kind'] == 'let':
                                bl.append(b)
                    okb = False
                    if bl and want:
                        v = fl.val(bl[-1]['node']['init'])
                        okb = {x for x in LF.atoms(v)} == {'mark@%d' % want[0]}
                        # and it is what the body walk receives
                        okb = okb and len(bl) == len(wcalls)
                    ck.ob('R6.1', 'break-target|%s' % c['m'], okb, L.loc(bl[-1]['node']) if bl else L.loc(c),
                          'case bodies are walked with break target = the mark passed as %s' % spec['break_target'], fn=fn['path'])
        for i, m in enumerate(mcs):
            n_marks += 1
            u = used.get(i, [])
            ck.ob('R6.1', 'mark-consumed|%s#%d' % (short(fn['path']), i), len(u) == 1, L.loc(m),
                  'flows to %s' % (u,) if len(u) == 1 else 'mark_branch_point() result reaches %d visitor arguments %s: its block is never (or twice) finalized' % (len(u), u), fn=fn['path'])
    ck.floor('R6.1', n_marks, 12, 'mark_branch_point() call sites')
    ck.ob('R6.1', 'all-branching-visitors-called', seen_visitors == set(T['walker']), '', 'visitor calls seen: %s' % sorted(seen_visitors))
    # break: the label handed to visit_break_statement is the break_label parameter
    for fn in L.fn_list:
        if not fn['path'].startswith('typedexpr::'):
            continue
        for c in H.calls_in(fn['body']):
            if c.get('m') == 'visit_break_statement':
                fl = LF.Flow(fn, wrappers=())
                ats = LF.atoms(fl.val(c['args'][0]))
                pidx = next((i for i, t in enumerate(fn['inputs']) if 'Option<' in t and '::Label' in t), None)
                ck.ob('R6.1', 'break-uses-enclosing-target', pidx is not None and ats == {'P%d[*]' % pidx}, L.loc(c),
                      'visit_break_statement receives the enclosing break target (%s)' % sorted(ats), fn=fn['path'])

    # ---- R6.3 creation discipline -----------------------------------------------------------------------------------
    n_bb = 0
    for fn in L.fn_list:
        pm = None
        for n in walk(fn['body']):
            if n.get('k') == 'Field' and n.get('f') == 'basic_blocks':
                pm = pm or H.parents(fn)
                n_bb += 1
                # climb through refs to the consuming node
                cur = n
                par = pm.get(id(cur))
                while par is not None and par.get('k') in ('AddrOf',):
                    cur, par = par, pm.get(id(par))
                if par is not None and par.get('k') == 'MCall' and par.get('recv') is cur and par.get('m') in MUTATORS:
                    allowed = par['m'] == 'push' and short(fn['path']) in T['block_pushers'] or fn['path'] in T['block_pushers']
                    arg_ok = par['m'] == 'push' and H.is_call_to(par['args'][0], 'BasicBlock::empty')
                    key = 'block-list-mutation|%s|%s' % (short(fn['path']), par['m'])
                    ck.ob('R6.3', key, bool(allowed and arg_ok), L.loc(par),
                          'appends one empty block (%s)' % T['block_pushers'].get(fn['path'], T['block_pushers'].get(short(fn['path']), '')) if allowed and arg_ok else
                          '%s() on the block list outside the protocol: labels handed out earlier no longer denote the blocks they named' % par['m'], fn=fn['path'])
                if par is not None and par.get('k') == 'Assign' and par.get('l') is cur:
                    ck.ob('R6.3', 'block-list-mutation|%s|assign' % short(fn['path']), False, L.loc(par), 'the block list is replaced', fn=fn['path'])
    ck.floor('R6.3', n_bb, 10, 'accesses to CodeBody.basic_blocks')
    pushers = {short(f['path']) for f in L.fn_list for c in H.calls_in(f['body']) if c.get('m') == 'push' and any(x.get('k') == 'Field' and x.get('f') == 'basic_blocks' for x in walk(c['recv']))}
    ck.ob('R6.3', 'block-pushers', pushers == {short(p) for p in T['block_pushers']}, '', 'functions appending blocks: %s' % sorted(pushers))
    ctors = {}
    for fn in L.fn_list:
        for n in walk(fn['body']):
            if n.get('k') == 'Call' and n.get('dk') == 'Ctor' and (n.get('def') or '').endswith('BasicBlockRef'):
                ctors.setdefault(short(fn['path']), []).append(n)
    for name, why in T['block_ref_constructors'].items():
        ns = ctors.pop(name, [])
        ck.ob('R6.3', 'block-ref-constructor|%s' % name, len(ns) == 1, L.loc(ns[0]) if ns else '', '%s: %s' % (pp(ns[0], maxlen=60) if ns else 'missing', why))
    for name, ns in ctors.items():
        ck.ob('R6.3', 'block-ref-constructor|%s' % name, False, L.loc(ns[0]), 'BasicBlockRef(..) built from a raw index outside the reviewed sites: %s' % pp(ns[0], maxlen=60))
    nx = L.fn('tir::core::BasicBlockRef::next')
    if nx is not None:
        ck.ob('R6.3', 'next-is-plus-one', bool(re.search(r'BasicBlockRef\(\(?self\.0 (Add|\+) 1\)?\)', pp(nx['body'], maxlen=80))), L.loc(nx['body']), pp(nx['body'], maxlen=60))
    cb = bfn('current_basic_block_ref')
    if cb is not None:
        ok = bool(re.search(r'basic_blocks\.len\(\) (Sub|-) 1', pp(cb['body'], maxlen=300))) and any(n.get('x') == 'assert' or n.get('xi') == 'assert' for n in walk(cb['body']))
        ck.ob('R6.3', 'current-ref-is-last', ok, L.loc(cb['body']), 'current block reference = len - 1, asserted non-empty')
    mk = bfn('mark_branch_point')
    if mk is not None:
        fl = LF.Flow(mk)
        pushes = [c for c in H.calls_in(mk['body']) if c.get('m') == 'push']
        push = pushes[0] if len(pushes) == 1 and not [a for a in H.ancestors(mk, pushes[0]) if a.get('k') in ('If', 'Match', 'Loop', 'For', 'Closure')] else None
        rets = list(H.return_exprs(mk['body']))
        b = fl.bs.get((H.root_local(rets[0]) or {}).get('hid')) if len(rets) == 1 else None
        ok = push is not None and b is not None and b['kind'] == 'let' and any(c.get('m') == 'current_basic_block_ref' for c in H.calls_in(b['node']['init'])) and H.source_before(b['node'], push)
        ck.ob('R6.3', 'mark-returns-old-then-pushes-one', ok, L.loc(mk['body']), 'old = current ref; push(empty); return old  => next(old) always exists')

    # ---- R6.4 completion patch-up --------------------------------------------------------------------------------------------
    fc = L.fn('tir::core::CodeBody::finalize_completion_values')
    if fc is None:
        ck.floor('R6.4', 0, 1, 'fn finalize_completion_values')
    else:
        ck.analysed(fc['path'])
        for bname in ('tir::builder::build', 'tir::builder::build_callback'):
            b = L.fns.get(bname)
            if b is None:
                ck.ob('R6.4', 'patch-up-runs|%s' % short(bname), False, '', 'fn not found')
                continue
            ck.analysed(bname)
            call = next((c for c in H.calls_in(b['body']) if c.get('m') == 'finalize_completion_values'), None)
            somes = [v for v in H.return_exprs(b['body']) if v.get('k') == 'Call' and (v.get('def') or '').endswith('Option::Some')]
            ok = call is not None and bool(somes) and all(H.lexically_precedes_dominating(b, call, s) for s in somes)
            if ok:
                fl = LF.Flow(b)
                a0 = call['args'][0]
                bs = fl.bs.get((H.root_local(a0) or {}).get('hid'))
                walkc = next((c for c in H.calls_in(b['body']) if H.is_call_to(c, 'typedexpr::walk', 'typedexpr::walk_callback')), None)
                ok = bs is not None and bs['kind'] == 'let' and any(c.get('m') == 'current_basic_block_ref' for c in H.calls_in(bs['node']['init'])) and \
                    walkc is not None and H.source_before(walkc, bs['node'])
            ck.ob('R6.4', 'patch-up-runs|%s' % short(bname), ok, L.loc(call) if call else L.loc(b['body']),
                  'finalize_completion_values(current block after the walk) dominates Some(code)', fn=bname)
        # reachability completeness
        unr = [n for n in walk(fc['body']) if n.get('k') == 'Path' and (n.get('def') or '').endswith('Terminator::Unreachable') and n.get('dk') == 'Ctor']
        pm = H.parents(fc)
        unr = [n for n in unr if (pm.get(id(n)) or {}).get('k') == 'Call']   # Some(Terminator::Unreachable) as a value, not a pattern
        ok_site = len(unr) == 1
        ck.ob('R6.4', 'one-unreachable-site', ok_site, L.loc(unr[0]) if unr else L.loc(fc['body']), '%d place(s) assign the unreachable marker' % len(unr))
        if ok_site:
            site = unr[0]
            guards = []    # (cond node, polarity)
            prev = site
            for a in H.ancestors(fc, site):
                if a.get('k') == 'If':
                    inthen = any(x is prev for x in [a.get('then')])
                    guards.append((a['c'], inthen))
                prev = a
            # the reachability vector: Index expression read in a negative guard
            vec = None
            for c, pos in guards:
                if not pos:
                    ix = next((x for x in walk(c) if x.get('k') == 'Index'), None)
                    if ix is not None:
                        vec = H.root_local(ix['e'])
            if vec is None:
                ck.ob('R6.4', 'unreachable-implies-dead', False, L.loc(site), 'the unreachable marker is not guarded by a reachability test')
            else:
                vh = vec['hid']
                writes = []
                for n in walk(fc['body']):
                    if n.get('k') == 'Assign' and n['l'].get('k') == 'Index' and (H.root_local(n['l']['e']) or {}).get('hid') == vh and H.lit_value(n['r']) is True:
                        arm = next((a for a in H.ancestors(fc, n) if a.get('k') == 'Arm'), None)
                        ctx = None
                        if arm is not None:
                            pt = pp(arm['pat'])
                            ctx = 'BrCond' if 'BrCond' in pt else 'Br' if 'Terminator::Br' in pt else None
                        conds = [pp(a['c'], maxlen=80) for a in H.ancestors(fc, n) if a.get('k') == 'If']
                        writes.append({'idx': n['l']['i'], 'ctx': ctx, 'conds': conds, 'node': n})
                entry = any(H.lit_value(w['idx']) == 0 and not w['conds'] and w['ctx'] is None for w in writes)
                brcond = sum(1 for w in writes if w['ctx'] == 'BrCond' and not w['conds'])
                br_direct = any(w['ctx'] == 'Br' and not w['conds'] for w in writes)
                ck.ob('R6.4', 'entry-block-reachable', entry, L.loc(fc['body']), 'the entry block is marked reachable unconditionally' if entry else 'the entry block is not marked reachable: a body whose patch-up walk reaches block 0 ends in the unreachable marker')
                ck.ob('R6.4', 'brcond-targets-reachable', brcond >= 2, L.loc(fc['body']), '%d unconditional marks for BrCond targets' % brcond)
                # forward closure over both edge kinds (worklist) feeding the vector for non-empty blocks; the closure may be computed
                # here or in a helper that returns the vector
                fc_notes = []

                def forward_closure(fx, exclude_hid=None):
                    """local (Path node) of the bool vector that a sound work-list closure of fx sets, or None."""
                    for lp in (n for n in walk(fx['body']) if n.get('k') == 'Loop'):
                        lc = next((x for x in walk(lp) if x.get('k') == 'LetCond' and any(c.get('m') == 'pop' for c in H.calls_in(x['e']))), None)
                        if lc is None:
                            continue
                        stack = H.root_local(next(c for c in H.calls_in(lc['e']) if c.get('m') == 'pop')['recv'])
                        if stack is None:
                            continue
                        pushed = {}
                        for c in H.calls_in(lp):
                            if c.get('m') in ('push', 'extend') and (H.root_local(c['recv']) or {}).get('hid') == stack['hid']:
                                arm = next((a for a in H.ancestors(fx, c) if a.get('k') == 'Arm'), None)
                                if arm is not None:
                                    pt = pp(arm['pat'])
                                    kind = 'BrCond' if 'BrCond' in pt else 'Br' if 'Terminator::Br' in pt else None
                                    if kind:
                                        pushed[kind] = pushed.get(kind, 0) + (1 if c['m'] == 'push' else len((H.strip_refs(c['args'][0]).get('es') or [0, 0])))
                        # the closure is complete only if the loop runs until the list is empty: no break / return inside it
                        top_if = next((x for x in walk(lp) if x.get('k') == 'If' and x['c'] is lc), None)
                        desugared = {id(x) for x in walk(top_if['els'])} if top_if is not None and 'els' in top_if else set()     # `while let` ends by a break there
                        early = [x for x in walk(lp, enter_closures=False) if x.get('k') in ('Break', 'Ret') and id(x) not in desugared and
                                 next((a for a in H.ancestors(fx, x) if a.get('k') in ('Loop', 'For', 'Closure')), None) is lp]
                        if early:
                            fc_notes.append('the work-list loop at %s can be left by `%s` while blocks are still queued: blocks not reached by then count as dead' % (L.loc(lp), early[0]['k'].lower()))
                            continue
                        if pushed.get('Br', 0) >= 1 and pushed.get('BrCond', 0) >= 2:
                            lv = None
                            for x in walk(lp):
                                if x.get('k') == 'Index' and 'bool' in (L.ty(x) or '') and (H.root_local(x['e']) or {}).get('hid') != exclude_hid:
                                    lv = H.root_local(x['e'])
                            sb = H.binding_sites(fx).get(stack['hid'])
                            init0 = sb is not None and sb['kind'] == 'let' and any(H.lit_value(x) == 0 for x in walk(sb['node']['init']))
                            if lv is not None and init0:
                                return lv
                    return None
                closure_ok = False
                live = forward_closure(fc, vh)
                if live is None:
                    for c in H.calls_in(fc['body']):
                        g = L.fn(H.callee(c) or H.callee_decl(c) or '?')
                        if g is None or g is fc or g.get('body') is None or not g['path'].startswith('tir::core::') or 'Vec<bool>' not in (g.get('output') or ''):
                            continue
                        lv = forward_closure(g)
                        rets = [H.root_local(x) for x in H.return_exprs(g['body'])]
                        if lv is not None and rets and all(r is not None and r.get('hid') == lv.get('hid') for r in rets):
                            par = H.parents(fc).get(id(c))
                            if par is not None and par.get('k') == 'Let' and par['pat'].get('k') == 'Bind':
                                live = {'hid': par['pat']['hid'], 'name': par['pat'].get('name')}
                                ck.analysed(g['path'])
                if live is not None:
                    for w in writes:
                        cs = ' && '.join(w['conds'])
                        if live.get('name') and re.search(r'\b%s\[' % re.escape(live['name']), cs) and 'is_empty()' in cs:
                            closure_ok = True
                    if live.get('hid') == vh:
                        closure_ok = True
                empt = any(pos and 'statements.is_empty()' in pp(c) for c, pos in guards)
                ok = br_direct or closure_ok or empt
                ck.ob('R6.4', 'unreachable-implies-dead', ok, L.loc(site),
                      'a block entered through `br` from live code is never given the unreachable marker' if ok else
                      ('; '.join(fc_notes) + ': ' if fc_notes else '') + 'the reachability test counts the entry and BrCond targets only; a block that holds statements and is entered through plain `br` '
                      '(the join after a ternary, after if/else, a switch end) gets the unreachable marker although control reaches it')
        # predecessors are redirected only through empty blocks, and all `br` predecessors are recorded
        inc = [n for n in walk(fc['body']) if n.get('k') == 'MCall' and n.get('m') == 'push' and 'incoming' in pp(n['recv'])]
        okp = len(inc) == 1 and 'Terminator::Br' in pp(next(a for a in H.ancestors(fc, inc[0]) if a.get('k') == 'Arm')['pat'])
        ploop = next((a for a in H.ancestors(fc, unr[0]) if a.get('k') == 'Loop'), None) if unr else None
        wl = next((H.root_local(c['recv']) for c in H.calls_in(ploop) if c.get('m') == 'pop'), None) if ploop is not None else None
        ext = [c for c in H.calls_in(fc['body']) if c.get('m') == 'extend' and wl is not None and (H.root_local(c['recv']) or {}).get('hid') == wl.get('hid')]
        oke = len(ext) == 1 and any(a.get('k') == 'If' and 'statements.is_empty()' in pp(a['c']) for a in H.ancestors(fc, ext[0]))
        ck.ob('R6.4', 'all-br-predecessors-redirected', okp and oke, L.loc(inc[0]) if inc else L.loc(fc['body']),
              'every `br` edge is recorded; an empty block hands the patch-up to all of its `br` predecessors, so nothing jumps to it afterwards')
        # every visited block ends in Return or Unreachable: both branches assign the terminator
        asg = [n for n in walk(fc['body']) if n.get('k') == 'Assign' and n['l'].get('k') == 'Field' and n['l'].get('f') == 'terminator']
        ck.ob('R6.4', 'visited-blocks-terminated', len(asg) >= 3 and all('Some(' in pp(a['r'], maxlen=400) for a in asg), L.loc(fc['body']), '%d terminator assignments, all Some(..)' % len(asg))

    # ---- R6.5 temporaries ------------------------------------------------------------------------------------------------------
    er = bfn('emit_result')
    if er is not None:
        ck.analysed(er['path'])
        m = next((n for n in walk(er['body']) if n.get('k') == 'Match' and any(c.get('m') == 'alloca' for c in H.calls_in(n['e']))), None)
        ok = False
        if m is not None:
            okarm = next((a for a in m['arms'] if pp(a['pat']).startswith('Ok(')), None)
            if okarm is not None:
                ps = [c for c in H.calls_in(okarm['body']) if c.get('m') == 'push_statement' and (c['args'][0].get('def') or '').endswith('Statement::Assign')]
                vals = list(H.value_exprs(okarm['body']))
                ok = len(ps) == 1 and len(vals) == 1 and (vals[0].get('def') or '').endswith('Operand::Local') and H.source_before(ps[0], vals[0]) and \
                    (H.root_local(ps[0]['args'][0]['args'][0]) or {}).get('hid') == (H.root_local(vals[0]['args'][0]) or {}).get('hid')
                blk = H.strip_refs(ps[0]['recv']) if ps else {}
                ok = ok and blk.get('k') == 'Path' and blk.get('name') == 'self'
        ck.ob('R6.5', 'emit_result-assigns-where-it-allocates', ok, L.loc(er['body']), 'Ok(a) => push_statement(Assign(a.name, rv)) in the current block, then Operand::Local(a)')
    callers = {}
    for f in bfns:
        for c in H.calls_in(f['body']):
            if c.get('m') == 'alloca':
                callers.setdefault(f['path'] if f['path'].startswith('<') else short(f['path']), []).append(c)
    known = set(T['alloca_callers'])
    got = {short(k) if k not in known else k for k in callers}
    ck.ob('R6.5', 'alloca-callers', {short(x) for x in got} == {short(x) for x in known}, '', 'temporaries are created by: %s' % sorted(short(x) for x in got))
    # Operand::Local constructions
    locs = {}
    for f in bfns:
        for n in walk(f['body']):
            if n.get('k') in ('Call', 'Path') and (n.get('def') or '').endswith('Operand::Local') and n.get('dk') == 'Ctor' and not (n.get('k') == 'Path' and (H.parents(f).get(id(n)) or {}).get('k') == 'Call' and H.parents(f)[id(n)].get('f') is n):
                locs.setdefault(short(f['path']), 0)
                locs[short(f['path'])] += 1
    exp_locs = {'CodeBuilder::emit_result', '<CodeBuilder as ExpressionVisitor>::visit_local_ref', '<CodeBuilder as ExpressionVisitor>::visit_ternary_expression',
                '<CodeBuilder as ExpressionVisitor>::visit_binary_logical_expression'}
    ck.ob('R6.5', 'local-operand-sources', set(locs) == exp_locs, '', 'Operand::Local is produced by %s' % sorted(locs))

    # ---- R6.6 output side ----------------------------------------------------------------------------------------------------------
    tr = next((f for f in L.fn_list if f['path'].endswith('CxxCodeBodyTranslator::translate')), None)
    if tr is None:
        ck.floor('R6.6', 0, 1, 'fn CxxCodeBodyTranslator::translate')
    else:
        ck.analysed(tr['path'])
        loop = next((n for n in walk(tr['body']) if n.get('k') == 'For' and 'basic_blocks' in pp(n['iter'])), None)
        ok = loop is not None and not any(m.get('k') == 'MCall' and m.get('m') in LF.FILTERS for m in walk(loop['iter']))
        lab = [c for c in H.calls_in(loop['body']) if c.get('m') == 'format_basic_block_ref'] if loop else []
        wb = [c for c in H.calls_in(loop['body']) if c.get('m') == 'write_basic_block'] if loop else []
        ok = ok and len(lab) == 1 and len(wb) == 1 and not any(x.get('k') in ('Break', 'Continue') for x in walk(loop['body']))
        ck.ob('R6.6', 'label-per-block', ok, L.loc(loop) if loop else L.loc(tr['body']), 'one label and one body per block, over all blocks in index order')
    wbb = next((f for f in L.fn_list if f['path'].endswith('CxxCodeBodyTranslator::write_basic_block')), None)
    if wbb is not None:
        ck.analysed(wbb['path'])
        sites = H.format_sites_in_fn(wbb)
        m = next((n for n in walk(wbb['body']) if n.get('k') == 'Match' and any(c.get('m') == 'terminator' for c in H.calls_in(n['e']))), None)
        rows = {}
        if m is not None:
            for arm in m['arms']:
                texts = [H.fmt_text(s) for s in sites if any(x is s['node'] for x in walk(arm['body']))] if sites and 'node' in sites[0] else []
                rows[pp(arm['pat'], maxlen=60)] = texts
        # every terminator arm ends, on every path through it, with a printed control transfer
        site_of = {id(s2['node']): s2 for s2 in sites}

        def prints_in(e):
            return [site_of[id(x)] for x in walk(e) if id(x) in site_of]

        def tails(e):
            """templates that can be the LAST line printed on some path through e; None stands for a path printing nothing."""
            k = e.get('k')
            if k == 'Block':
                seq = [st.get('e') or st.get('init') or st for st in e.get('stmts', [])] + ([e['e']] if 'e' in e else [])
                out = {None}
                for part in seq:
                    t = tails(part)
                    out = (t - {None}) | (out if None in t else set())
                return out
            if k == 'If':
                t = tails(e['then']) | (tails(e['els']) if 'els' in e else {None})
                return t
            if k == 'Match':
                t = set()
                for a in e['arms']:
                    t |= tails(a['body'])
                return t
            if k in ('Try', 'Semi', 'Expr', 'AddrOf'):
                return tails(e['e'])
            ps = prints_in(e)
            if not ps:
                return {None}
            return {H.fmt_text(sorted(ps, key=lambda s2: (s2['node']['sp'][1], s2['node']['sp'][2]))[-1])}
        def seqs(e, cap=64):
            """all sequences of templates printed along the paths through e (as tuples)."""
            k = e.get('k')
            if k == 'Block':
                parts = [st.get('e') or st.get('init') or st for st in e.get('stmts', [])] + ([e['e']] if 'e' in e else [])
                out = {()}
                for part in parts:
                    nxt = set()
                    for a in out:
                        for b in seqs(part, cap):
                            nxt.add(a + b)
                    out = set(list(nxt)[:cap])
                return out
            if k == 'If':
                return seqs(e['then'], cap) | (seqs(e['els'], cap) if 'els' in e else {()})
            if k == 'Match':
                out = set()
                for a in e['arms']:
                    out |= seqs(a['body'], cap)
                return out
            if k in ('Try', 'Semi', 'Expr', 'AddrOf'):
                return seqs(e['e'], cap)
            ps = sorted(prints_in(e), key=lambda s2: (s2['node']['sp'][1], s2['node']['sp'][2]))
            return {tuple((H.fmt_text(x) or '').strip() for x in ps)}

        TRANSFER = re.compile(r'^(goto \{\d\};|return( \{\d\})?;|Q_UNREACHABLE\(\);)$')

        def stmt(lines, i):
            """parse one C++ statement starting at line i: (every path through it transfers control, index after it)"""
            if i >= len(lines):
                return (False, i)
            ln = lines[i]
            if re.match(r'^if \(.*\)$', ln):
                t1, j2 = stmt(lines, i + 1)
                if j2 < len(lines) and lines[j2] == 'else':
                    t2, k2 = stmt(lines, j2 + 1)
                    return (t1 and t2, k2)
                return (False, j2)       # no else: the false case runs on
            return (bool(TRANSFER.match(ln)), i + 1)

        def terminated(lines):
            i, last = 0, False
            while i < len(lines):
                last, i = stmt(lines, i)
            return last
        if m is not None:
            for arm in m['arms']:
                ss = seqs(arm['body'])
                bad = sorted(' | '.join(x) or '<nothing>' for x in ss if not terminated(list(x)))
                ts = ss
                ck.ob('R6.6', 'block-ends-in-control-transfer|%s' % pp(arm['pat'], maxlen=50), not bad and bool(ss), L.loc(arm),
                      'every path through this arm prints a statement sequence whose last statement transfers control on all of its branches: %s' % sorted(' | '.join(x) for x in ss)[:3] if not bad else
                      'on some path through this arm the printed C++ is `%s`: its last statement does not transfer control on every branch, so the block runs on into the next label' % bad[0], fn=wbb['path'])
            ck.floor('R6.6', len(m['arms']), 5, 'terminator arms in write_basic_block')
        gotos = [c for c in H.calls_in(wbb['body']) if c.get('m') == 'format_basic_block_ref']
        ck.ob('R6.6', 'gotos-use-label-formatter', len(gotos) == 3, L.loc(wbb['body']), '%d jump targets printed through format_basic_block_ref (Br: 1, BrCond: 2)' % len(gotos))
    # value functions only after the return type check: C05's obligations, run on the same facts
    import rules.c05 as c05

    class Sub:
        def __init__(self, outer):
            self.o = outer
            self.facts = outer.facts
            self.depth = getattr(outer, 'depth', 0) + 1
            self.tier = getattr(outer, 'tier', 'quick')
            self.extra = {}
            self.explanation = ''

        def rule(self, *a):
            pass

        def analysed(self, *a):
            pass

        def note(self, *a):
            pass

        def floor(self, rule, count, minimum, what=''):
            if rule == 'R5.6':
                self.o.floor('R6.6', count, minimum, 'C05 ' + what)

        def ob(self, rule, key, ok, loc='', detail='', nontrivial=True, fn=None):
            if rule == 'R5.6' and (key.startswith('return-type-verified') or key.startswith('verify_code_return_type-shape')):
                self.o.ob('R6.6', 'C05:' + key, ok, loc, detail + ' [a body with a path returning no value has type void and is rejected here]', nontrivial, fn)
            if rule == 'R5.7':
                self.o.ob('R6.6', 'C05:' + key, ok, loc, detail, nontrivial, fn)
            # the fold of the return types is what rejects a body that returns a value on one path and nothing on another: void
            # must stay incompatible with every other type, and void must not be assignable to a value slot
            if (rule == 'R5.3' and key.startswith('deduce|') and 'void' in key[7:].split(',')) or (rule == 'R5.1' and key.startswith('is_assignable|') and key.rstrip().endswith('<-void')):
                self.n_void = getattr(self, 'n_void', 0) + 1
                self.o.ob('R6.6', 'C05:' + key, ok, loc, detail + ' [void on one path and a value on another must not pass as a value function]', nontrivial, fn)
    sub5 = Sub(ck)
    c05.run(sub5)
    ck.floor('R6.6', getattr(sub5, 'n_void', 0), 55, 'shared C05 cells with void on one side')

    # ---- R6.7 define-before-use across scopes: which declaration a name refers to (C01 R1.10, same facts) ----------------------------------------
    import core as _core67
    import rules.c01 as c01
    ck.rule('R6.7', 'a name refers to a declaration whose scope it is in (shared with C01): no read of a local declared in a body that has ended')
    s1 = _core67.Shared(ck, 'R6.7', lambda r, k: r == 'R1.10', 'C01:', ' [a declaration that outlives its block is read on paths on which it was never assigned]')
    c01.run(s1)
    ck.floor('R6.7', s1.count, 4, 'shared C01 R1.10 obligations')
