"""C07 totality: any document yields output or diagnostics, never a crash or hang."""
import re
from facts import walk, short, pp, children
import hirutil as H
import panicsites
from core import load_table

LEVEL = 'other'
TECHNIQUE = ('panic-site inventory over typed HIR with machine re-validated guard relations (prefix-length, lexical dominance, caller guards), '
             'value provenance of diagnostic ranges, who-may-call for process exit, loop/recursion inventory over HIR + MIR call graph')
LEVEL_TEXT = ('Every panic-capable construct in the three crates (unwrap/expect, panic-family macros, indexing and slicing, integer '
              'division, Vec::remove/insert/swap_remove/split_at, typed unwraps of evaluated values) is enumerated from the compiler facts '
              'and must be a reviewed row; rows that rest on a guard carry a relation that is re-checked structurally on every run (string '
              'slices behind a starts_with of sufficient length, typed unwraps dominated by the matching type verification, builder '
              'asserts behind the walker\'s length guard, layout modulus behind the positivity check). Diagnostic ranges must derive from '
              'syntax-node ranges without arithmetic; exits use status 1 only; every non-for loop and every recursion cycle is listed '
              'with its progress argument. This is a for-all over code sites the 337 tests cannot give: an unreviewed or unguarded site '
              'is reported even if no test input reaches it.')
LEVEL_NOTE = ('Trusted: the reviewed reasons in tables/panic_sites.json and tables/loops.json, tree-sitter ranges on char boundaries, '
              'release-profile arithmetic (overflow checks are debug-only and not inventoried), dependencies do not panic. Not decided: '
              'stack depth on deeply nested input, termination of tree-sitter.')
DESIGN_REF = 'DESIGN.md section 4, C07'


# ---------------------------------------------------------------------------
# guard: string/byte slice start covered by a starts_with of sufficient length


def _lit_prefix_len(arg):
    """Minimal UTF-8 length guaranteed by a starts_with pattern argument, or None."""
    a = H.strip_refs(arg)
    if a.get('k') == 'Lit':
        if a.get('lk') == 'str':
            return len(a['v'].encode('utf-8'))
        if a.get('lk') == 'char':
            return len(a['v'].encode('utf-8'))
    if a.get('k') == 'Array':
        ls = [_lit_prefix_len(x) for x in a['es']]
        return min(ls) if ls and all(l is not None for l in ls) else None
    if a.get('k') == 'Closure':
        calls = [c.get('m') for c in H.calls_in(a['body'])]
        if calls and all((c or '').startswith('is_ascii') for c in calls):
            return 1
    if a.get('k') == 'MCall' and a.get('m') in ('to_ascii_uppercase', 'to_ascii_lowercase'):
        return 1
    return None


def _root_hids(fn, e):
    """hids of locals the base expression is a view of (through as_bytes/as_ref/as_str and let-bindings)."""
    out = set()
    todo = [e]
    seen = set()
    while todo:
        x = todo.pop()
        if id(x) in seen:
            continue
        seen.add(id(x))
        rl = H.root_local(x)
        if rl is not None:
            out.add(rl.get('hid'))
        for o in H.origins(fn, x):
            if o.get('k') == 'MCall' and o.get('m') in ('as_bytes', 'as_ref', 'as_str', 'borrow', 'deref', 'trim_start'):
                todo.append(o['recv'])
            elif o.get('k') == 'Path' and o is not x:
                todo.append(o)
    return out


def _implies_prefix(cond, hids, n, fn):
    k = cond.get('k')
    if k == 'Binary' and cond.get('op') == 'And':
        return _implies_prefix(cond['l'], hids, n, fn) or _implies_prefix(cond['r'], hids, n, fn)
    if k == 'Binary' and cond.get('op') == 'Or':
        return _implies_prefix(cond['l'], hids, n, fn) and _implies_prefix(cond['r'], hids, n, fn)
    if k == 'MCall' and cond.get('m') == 'starts_with' and cond['args']:
        if _root_hids(fn, cond['recv']) & hids:
            ln = _lit_prefix_len(cond['args'][0])
            return ln is not None and ln >= n
    return False


def prefix_guard_ok(crate, fn, site):
    node = site['node']
    idx = H.strip_refs(node['i'])
    n = None
    if idx.get('k') == 'Lit' and isinstance(idx.get('v'), int):
        n = idx['v'] + 1
    elif idx.get('k') == 'Struct':
        for f in idx['fields']:
            if f['f'] == 'start':
                s = H.strip_refs(f['e'])
                if s.get('k') == 'Lit' and isinstance(s.get('v'), int):
                    n = s['v']
    if n is None:
        return None, 'slice start is not a literal'
    hids = _root_hids(fn, node['e'])
    pm = H.parents(fn)
    child = node
    cur = pm.get(id(node))
    while cur is not None:
        k = cur.get('k')
        if k == 'If' and cur.get('then') is child and _implies_prefix(cur['c'], hids, n, fn):
            return True, 'inside the then-branch of a condition that implies a prefix of >= %d byte(s)' % n
        if k == 'Binary' and cur.get('op') == 'And' and cur.get('r') is child and _implies_prefix(cur['l'], hids, n, fn):
            return True, 'right operand of && whose left side implies a prefix of >= %d byte(s)' % n
        if k == 'Block':
            # earlier `if !cond { return .. }`
            for s in cur.get('stmts', []):
                e = s.get('e') if s.get('k') in ('Semi', 'Expr') else s.get('init')
                if e is None:
                    continue
                if e is child or any(x is child for x in walk(e)):
                    break
                if e.get('k') == 'If' and e['c'].get('k') == 'Unary' and e['c'].get('op') == 'Not' and 'els' not in e:
                    diverges = any(x.get('k') == 'Ret' for x in walk(e['then']))
                    if diverges and _implies_prefix(e['c']['e'], hids, n, fn):
                        return True, 'after an early return taken unless the string has a prefix of >= %d byte(s)' % n
            # or a let-binding of the sliced base made inside such a guarded region: continue upward
        if k == 'Closure':
            break
        child = cur
        cur = pm.get(id(cur))
    return False, 'no enclosing starts_with(..) test of >= %d byte(s) on the sliced string' % n


# ---------------------------------------------------------------------------
# guard: typed unwraps (R7.2)

TYPE_EVIDENCE = {
    'unwrap_object_ref': ('Pointer',),
    'unwrap_string_list': ('List',),
    'unwrap_enum_set': ('Enum',),
    'unwrap_into_simple_value': ('Primitive', 'STRING'),
    'unwrap_string': ('STRING',),
}


def typed_guard_ok(crate, fn, node, kind):
    """node (the unwrap call, or a call to a helper that unwraps) must be dominated by a successful type verification
    whose expected type matches the unwrap kind."""
    guards = []
    pm = H.parents(fn)
    bs = H.binding_sites(fn)
    for c in H.calls_in(fn['body']):
        if H.is_call_to(c, 'verify_code_return_type') and pm.get(id(c), {}).get('k') == 'Try':
            guards.append((c, c['args'][2] if len(c['args']) > 2 else None))
        elif c.get('k') == 'Call' and c['f'].get('k') == 'Path' and c['f'].get('res') == 'local' and pm.get(id(c), {}).get('k') == 'Try':
            b = bs.get(c['f'].get('hid'))
            init = b['node'].get('init') if b and b['kind'] == 'let' else None
            if init is not None and init.get('k') == 'Closure' and any(H.is_call_to(x, 'typeutil::is_assignable') for x in H.calls_in(init['body'])):
                # `if matches(&T)? { site }`
                guards.append((pm[id(c)], c['args'][0] if c['args'] else None))
    want = TYPE_EVIDENCE.get(kind, ())
    # enclosing arm patterns give the static type for `ty`/`expected_ty` arguments
    arm_text = ' '.join(pp(a['pat'], maxlen=200) + (' if ' + pp(a['guard'], maxlen=80) if 'guard' in a else '')
                        for a in H.ancestors(fn, node) if a.get('k') == 'Arm')
    for g, tyarg in guards:
        if not H.lexically_precedes_dominating(fn, g, node):
            continue
        ttext = pp(tyarg, maxlen=200) if tyarg is not None else ''
        if tyarg is not None:
            ttext += ' <- ' + ' ; '.join(pp(o, maxlen=120) for o in H.origins(fn, tyarg))
        evidence = ttext + ' ' + arm_text
        if kind == 'unwrap_into_simple_value' and re.search(r'Void|QVariant', arm_text) and 'STRING' not in ttext:
            continue
        if any(w in evidence for w in want):
            return True, 'dominated by %s with expected type `%s`%s' % (
                'verify_code_return_type(..)?' if H.is_call_to(g, 'verify_code_return_type') else 'matches(..)? (is_assignable)',
                ttext[:60], (' under arm ' + arm_text[:80]) if arm_text else '')
    return False, 'no dominating type verification whose expected type is compatible with %s (guards seen: %d)' % (kind, len(guards))


def run(ck):
    if getattr(ck, 'depth', 0) >= 2:
        return      # a shared run of a shared run: nothing of it is selected, and mutual sharing must end somewhere
    F = ck.facts
    L = F.lib
    ck.explanation = (
        'R7.1 inventory: every panic-capable site (unwrap/expect on Option/Result, panic!/unreachable!/assert*!/debug_assert*!, Index '
        'expressions, integer / and %, Vec::remove/insert/swap_remove, split_at, typed EvaluatedValue unwraps, process::exit) in lib, CLI '
        'lib and bin must match a row of tables/panic_sites.json (key = fn | kind | what, no line numbers). Rows with a guard are '
        're-validated: `prefix` (slice start <= byte length of a dominating starts_with literal on the same string), `typed` (R7.2: '
        'dominated by verify_code_return_type(..)?/matches(..)? with a compatible expected type, also for all callers of the two helper '
        'fns), `switch_guard` (visit_switch_statement called only under len()==len() for both vectors), `callers_dominated_by`, '
        '`layout_flow_positive`. R7.5 every Range reaching Diagnostic::{error,warning,new} or a label derives from byte_range() of a '
        'syntax node / IR item (or start/end of such, or 0..0) without arithmetic. R7.6 process::exit only with the literal 1, no abort, '
        'main returns (). R7.7 every loop/while and every call-graph cycle is a reviewed row. R7.8 forbid(unsafe_code) on all crates.')
    ck.rule('R7.1', 'every panic-capable site is a reviewed row; unreviewed sites are violations')
    ck.rule('R7.2', 'typed unwraps of evaluated values are dominated by the matching type verification')
    ck.rule('R7.3', 'guard relations recorded with reviewed rows still hold')
    ck.rule('R7.5', 'diagnostic and label ranges derive from syntax-node byte ranges without arithmetic')
    ck.rule('R7.6', 'the CLI exits only with status 0 or 1')
    ck.rule('R7.7', 'every non-for loop and every recursion cycle has a reviewed progress argument')
    ck.rule('R7.8', 'no unsafe code')
    table = load_table('panic_sites.json')
    rows = {r['key']: r for r in table['sites']}
    used = set()
    n_sites = 0
    for crate in F.all_crates():
        for s in panicsites.inventory(crate):
            n_sites += 1
            key = s['key']
            fn = s['fn']
            ck.analysed(fn['path'])
            row = rows.get(key)
            if row is None:
                ck.ob('R7.1', key, False, s['loc'], 'unreviewed panic-capable site `%s` (not in tables/panic_sites.json): %s' % (s['kind'], pp(s['node'], maxlen=100)), fn=fn['path'])
                continue
            used.add(key)
            if row['status'] == 'finding':
                ck.ob('R7.1', key, False, s['loc'], 'reviewed as NOT safe: ' + row['reason'], fn=fn['path'])
                continue
            ck.ob('R7.1', key, True, s['loc'], row['reason'], fn=fn['path'])
            g = row.get('guard')
            if not g:
                continue
            gk = g['kind']
            if gk == 'prefix':
                if s['kind'] != 'index':
                    continue
                ok, why = prefix_guard_ok(crate, fn, s)
                if ok is None:
                    if g.get('first_only'):
                        continue
                    ok = False
                ck.ob('R7.3', 'prefix|' + key, ok, s['loc'], why, fn=fn['path'])
            elif gk == 'typed':
                ok, why = typed_guard_ok(crate, fn, s['node'], s['what'])
                ck.ob('R7.2', 'typed|' + key, ok, s['loc'], why, fn=fn['path'])
            elif gk == 'typed_callers':
                callers = []
                for f2 in crate.fn_list:
                    for c in H.calls_in(f2['body']):
                        if H.callee(c) == fn['path'] or H.callee_decl(c) == fn['path']:
                            callers.append((f2, c))
                ck.ob('R7.2', 'typed-callers-found|' + key, bool(callers), s['loc'], '%d caller(s) of %s' % (len(callers), short(fn['path'])))
                ordn = {}
                for f2, c in callers:
                    ok, why = typed_guard_ok(crate, f2, c, s['what'])
                    base = 'typed-caller|%s|%s' % (short(fn['path']), short(f2['path']))
                    i = ordn.get(base, 0)
                    ordn[base] = i + 1
                    ck.ob('R7.2', base + ('#%d' % (i + 1) if i else ''), ok, crate.loc(c), why, fn=f2['path'])
            elif gk == 'switch_guard':
                ok, why = switch_guard_ok(crate)
                ck.ob('R7.3', 'switch-guard|' + key, ok, s['loc'], why, fn=fn['path'])
                if g.get('starts_per_body'):
                    ok, why = switch_starts_per_body(crate, fn)
                    ck.ob('R7.3', 'switch-starts-per-body|' + key, ok, s['loc'], why, fn=fn['path'])
            elif gk == 'callers_dominated_by':
                ok, why = callers_dominated(crate, fn, g['callee'], g.get('count', 1))
                ck.ob('R7.3', 'callers-dominated|' + key, ok, s['loc'], why, fn=fn['path'])
            elif gk == 'layout_flow_positive':
                ok, why = layout_flow_positive_general(crate)
                ck.ob('R7.3', 'layout-flow-positive|' + key, ok, s['loc'], why, fn=fn['path'])
            elif gk == 'shared':
                # the row rests on obligations of another property's check: re-run them on the same facts
                import importlib
                import core as _core
                mod = importlib.import_module('rules.' + g['check'].lower())
                sh = _core.Shared(ck, 'R7.3', lambda r, k, g=g: r == g['rule'] and k in g['keys'], '%s:%s|' % (g['check'], short(fn['path'])))
                mod.run(sh)
                ck.ob('R7.3', 'shared-guard-found|' + key, sh.count == len(g['keys']), s['loc'], '%d of %d %s %s obligations re-checked' % (sh.count, len(g['keys']), g['check'], g['rule']), fn=fn['path'])
    ck.floor('R7.1', n_sites, 140, 'panic-capable sites enumerated')
    # the verification the typed unwraps rest on is is_assignable (through verify_code_return_type): a static value that passes it
    # for a simple target type must be a simple value. The decision table of is_assignable is the one C05 R5.1 evaluates.
    import rules.c05 as c05
    s5 = _core.Shared(ck, 'R7.2', lambda r, k: r == 'R5.1' and k.startswith('is_assignable|'), 'C05:',
                      ' [a type that passes the verification in front of a typed unwrap without being what the unwrap expects panics there]')
    c05.run(s5)
    ck.floor('R7.2', s5.count, 256, 'shared C05 R5.1 is_assignable cells')
    ck.extra['stale_table_rows'] = sorted(k for k in rows if k not in used)

    # ---- R7.5 ranges ------------------------------------------------------------
    n_ranges = 0
    for crate in (F.lib, F.cli, F.bin):
        for fn in crate.fn_list:
            if fn.get('x') in panicsites.DERIVES:
                continue
            ordn = {}
            for c in H.calls_in(fn['body']):
                d = H.callee_decl(c) or ''
                arg = None
                if re.search(r'diagnostic::Diagnostic::(error|warning|new)$', d) and c.get('k') == 'Call':
                    arg = c['args'][1] if d.endswith('::new') and len(c['args']) > 1 else (c['args'][0] if c['args'] else None)
                elif re.search(r'diagnostic::Diagnostic::(with_label|push_label)$', d):
                    args = H.call_args(c)
                    arg = args[1] if len(args) > 1 else None
                if arg is None:
                    continue
                n_ranges += 1
                ok, why = range_ok(fn, arg)
                base = '%s|range' % short(fn['path'])
                i = ordn.get(base, 0)
                ordn[base] = i + 1
                ck.ob('R7.5', base + ('#%d' % (i + 1) if i else ''), ok, crate.loc(c), why, nontrivial=(i == 0), fn=fn['path'])
    ck.floor('R7.5', n_ranges, 105, 'diagnostic/label range arguments')

    # ---- R7.6 exit status ----------------------------------------------------------
    B = F.bin
    n_exit = 0
    for crate in F.all_crates():
        for m in crate.mir_list:
            for b in m['blocks']:
                t = b['term']
                if t.get('k') != 'Call':
                    continue
                d = t.get('def') or ''
                if d in ('std::process::exit', 'std::process::abort') or d.startswith('std::intrinsics::abort') or d == 'libc::exit':
                    n_exit += 1
                    arg = t['args'][0] if t.get('args') else {}
                    val = arg.get('c', {}).get('int')
                    ok = d == 'std::process::exit' and val == 1 and crate is B and m['path'] == 'main'
                    ck.ob('R7.6', 'exit|%s|%s' % (short(m['path']), n_exit), ok, '%s:%d' % (crate.files[t['sp'][0]], t['sp'][1]),
                          'process::exit(1) in main' if ok else '`%s` with argument %r in %s' % (d, val, m['path']))
    ck.floor('R7.6', n_exit, 2, 'process exit sites')
    mainfn = B.fn('main')
    ck.ob('R7.6', 'main-returns-unit', mainfn is not None and mainfn.get('output') == '()', '', 'fn main() -> %s (an Err return would exit with 1 as well, a Termination impl could use other codes)' % (mainfn or {}).get('output'))

    # ---- R7.7 loops and recursion ------------------------------------------------------
    lt = load_table('loops.json')
    loop_rows = {r['key']: r for r in lt['loops']}
    n_loops = 0
    for crate in F.all_crates():
        for fn in crate.fn_list:
            if fn.get('x') in panicsites.DERIVES:
                continue
            i = 0
            seen_disc = {}
            for n in walk(fn['body']):
                if n.get('k') == 'Loop':
                    i += 1
                    n_loops += 1
                    key = '%s|%s|%s' % (short(fn['path']), n.get('src'), loop_disc(n, i, seen_disc))
                    row = loop_rows.get(key)
                    ck.ob('R7.7', 'loop|' + key, row is not None, crate.loc(n),
                          row['reason'] if row else 'unreviewed %s loop (no progress argument in tables/loops.json): %s' % (n.get('src'), pp(n, maxlen=80)), fn=fn['path'])
                    if row is not None and (row.get('guard') or {}).get('kind') == 'visited':
                        ok, why = visited_guard_ok(crate, fn, n)
                        ck.ob('R7.7', 'visited-guard|' + key, ok, crate.loc(n), why, fn=fn['path'])
    ck.floor('R7.7', n_loops, 13, 'loop/while loops')
    n_scc = 0
    for crate in F.all_crates():
        for scc in call_graph_sccs(crate):
            n_scc += 1
            members = set(short(x) for x in scc)
            key = '+'.join(sorted(members))
            row = next((r for r in lt['recursions'] if members & set(r['members'])), None)
            ck.ob('R7.7', 'recursion|' + key[:150], row is not None, '',
                  row['reason'] if row else 'unreviewed recursion cycle: %s' % key)
    ck.floor('R7.7', n_scc, 8, 'recursion cycles')

    # ---- R7.8 ---------------------------------------------------------------------------
    for crate in F.all_crates():
        has = any('forbid' in a and 'unsafe_code' in a for a in crate.crate_attrs)
        ck.ob('R7.8', 'forbid-unsafe|%s' % crate.tag, has, '', '#![forbid(unsafe_code)]' if has else 'crate does not forbid unsafe code')


# ---------------------------------------------------------------------------


def range_ok(fn, arg):
    """A diagnostic range must come from byte_range() of a node/IR item (possibly via start/end fields, clone), or be 0..0."""
    problems = []
    todo = list(H.origins(fn, arg))
    seen = set()
    n_ok = 0
    while todo:
        o = todo.pop()
        if id(o) in seen:
            continue
        seen.add(id(o))
        oo = H.strip_refs(o)
        k = oo.get('k')
        if k == 'MCall' and oo.get('m') == 'byte_range':
            n_ok += 1
            continue
        if k == 'MCall' and oo.get('m') in ('clone', 'to_owned', 'into'):
            todo.extend(H.origins(fn, oo['recv']))
            continue
        if k == 'Field' and oo.get('f') == 'byte_range':
            n_ok += 1
            continue
        if k == 'Field' and oo.get('f') in ('start', 'end'):
            todo.extend(H.origins(fn, oo['e']))
            continue
        if k == 'Struct' and (oo.get('def') or '').startswith('std::ops::Range'):
            for f in oo['fields']:
                todo.extend(H.origins(fn, f['e']))
            why = range_ends_ordered(fn, oo)
            if why:
                problems.append(why)
            continue
        if k == 'Lit' and oo.get('v') == 0:
            n_ok += 1
            continue
        if k == 'Bind':
            site = H.binding_sites(fn).get(oo.get('hid'), {})
            t = fn['crate'].tys[oo['t']] if 't' in oo else ''
            if site.get('kind') in ('param', 'closure_param', 'arm', 'for') and 'Range<usize>' in t:
                n_ok += 1  # a range handed in by the caller: checked at the caller / producer
                continue
            if site.get('kind') in ('param', 'closure_param', 'arm', 'for'):
                n_ok += 1
                continue
        problems.append(pp(oo, maxlen=60))
    if problems:
        return False, 'range derives from %s (arithmetic or unknown source: may leave the text or split a character)' % '; '.join(problems[:3])
    return True, 'derives from byte_range()/start/end of syntax nodes or IR items (%d origin(s)), no arithmetic' % n_ok


def range_ends_ordered(fn, rng):
    """`A.start..B.end` built from two different items: the start item must not come after the end item. Understood: the two are elements
    `xs[i]` and `xs[j]` of one sequence and a dominating `if P > Q` gives i = Q, j = P - 1 (or both indices are literals). Returns a
    problem text, or None."""
    ends = {}
    for f in rng.get('fields', []):
        orgs = [H.strip_refs(o) for o in H.origins(fn, f['e'])]
        if len(orgs) != 1 or orgs[0].get('k') != 'Field' or orgs[0].get('f') not in ('start', 'end'):
            return None
        base = H.strip_refs(orgs[0]['e'])
        while (base.get('k') == 'Field' and base.get('f') == 'byte_range') or (base.get('k') == 'MCall' and base.get('m') in ('byte_range', 'clone')):
            base = H.strip_refs(base['e'] if base.get('k') == 'Field' else base['recv'])
        ends[f['f']] = (orgs[0]['f'], base)
    if set(ends) != {'start', 'end'}:
        return None
    (sf, a), (ef, b) = ends['start'], ends['end']
    if pp(a, maxlen=200) == pp(b, maxlen=200):
        return None if (sf, ef) != ('end', 'start') else 'range runs from the end of `%s` to its start' % pp(a, maxlen=40)
    if (sf, ef) != ('start', 'end'):
        return None
    if not (a.get('k') == 'Index' and b.get('k') == 'Index' and pp(a['e'], maxlen=200) == pp(b['e'], maxlen=200)):
        return None
    i, j = H.strip_refs(a['i']), H.strip_refs(b['i'])
    if isinstance(H.lit_value(i), int) and isinstance(H.lit_value(j), int):
        return None if H.lit_value(i) <= H.lit_value(j) else 'range from element %d to the earlier element %d' % (H.lit_value(i), H.lit_value(j))
    ti, tj = pp(i, maxlen=200), pp(j, maxlen=200)
    for anc in H.ancestors(fn, rng):
        if anc.get('k') != 'If' or anc['c'].get('k') != 'Binary' or not any(x is rng for x in walk(anc['then'])):
            continue
        c = anc['c']
        P, Q, op = pp(H.strip_refs(c['l']), maxlen=200), pp(H.strip_refs(c['r']), maxlen=200), c['op']
        if op in ('Lt', 'Le'):
            P, Q, op = Q, P, {'Lt': 'Gt', 'Le': 'Ge'}[op]
        # P > Q: Q <= P - 1
        if op == 'Gt' and ti == Q and tj == '(%s Sub 1)' % P:
            return None
        if op in ('Gt', 'Ge') and ti == Q and tj == P:
            return None
    return 'the start of element [%s] and the end of element [%s] of `%s`, with no enclosing test that puts the first before the second (start > end for some inputs)' % (ti, tj, pp(a['e'], maxlen=40))


def visited_guard_ok(crate, fn, loop):
    """A work-list loop terminates because an item is expanded at most once: there is a test-and-set on a visited structure
    (mem::replace(&mut V[i], true) / V.insert(x) / V.contains + insert) whose "already seen" outcome skips every push onto the
    work list (continue, or the pushes sit in the other branch), and it precedes all those pushes."""
    pops = [c for c in H.calls_in(loop) if c.get('m') in ('pop', 'pop_front', 'pop_back')]
    if not pops:
        return False, 'no pop() in the loop'
    wl = H.root_local(pops[0]['recv'])
    wl_key = pp(H.strip_refs(pops[0]['recv']), maxlen=60)
    pushes = [c for c in H.calls_in(loop) if c.get('m') in ('push', 'push_back', 'push_front', 'extend', 'append') and pp(H.strip_refs(c['recv']), maxlen=60) == wl_key]
    if not pushes:
        return True, 'nothing is pushed back onto the work list inside the loop'
    def split(e, op):
        e = H.strip_refs(e)
        while e.get('k') in ('Paren', 'DropTemps'):
            e = H.strip_refs(e['e'])
        if e.get('k') == 'Binary' and e.get('op') == op:
            return split(e['l'], op) + split(e['r'], op)
        return [e]

    def polarity(e):
        """'fresh' if e is true exactly when the item was not seen before (and is marked now), 'seen' for the opposite, else None."""
        neg = False
        e = H.strip_refs(e)
        while e.get('k') == 'Unary' and e.get('op') == 'Not':
            neg = not neg
            e = H.strip_refs(e['e'])
        t = pp(e, maxlen=200).replace('std::', '')
        pol = None
        if e.get('k') == 'MCall' and e.get('m') == 'insert':
            pol = 'fresh'
        elif e.get('k') == 'MCall' and e.get('m') in ('contains', 'contains_key', 'contains_module'):
            pol = 'seen'
        elif e.get('k') == 'Call' and (e.get('def') or '').endswith('mem::replace') and len(e['args']) == 2 and H.lit_value(e['args'][1]) is True:
            pol = 'seen'
        if pol is None:
            return None
        return {'fresh': 'seen', 'seen': 'fresh'}[pol] if neg else pol

    def decides(cond, branch):
        """Does taking `branch` ('then' / 'els') of a test on cond imply the item is fresh / seen?  then: a conjunct decides;
        els: a disjunct decides (with the opposite polarity)."""
        if branch == 'then':
            return {polarity(x) for x in split(cond, 'And')} - {None}
        return {{'fresh': 'seen', 'seen': 'fresh'}[polarity(x)] for x in split(cond, 'Or') if polarity(x)}
    tests = []
    for iff in (x for x in walk(loop) if x.get('k') == 'If'):
        c = iff['c']
        t = pp(c, maxlen=200)
        els = iff.get('els', {'k': 'x'})
        for br, other in (('then', 'els'), ('els', 'then')):
            body, obody = (iff['then'], els) if br == 'then' else (els, iff['then'])
            # (a) the pushes sit in a branch that is taken only for fresh items
            if all(any(y is p for y in walk(body)) for p in pushes) and 'fresh' in decides(c, br):
                tests.append(t[:60])
            # (b) every seen item leaves the iteration in front of the pushes: the branch that skips is taken whenever the item was
            # seen, i.e. the *other* branch implies fresh
            if any(x.get('k') == 'Continue' for x in walk(body)) and 'fresh' in decides(c, other) and all(H.source_before(iff['c'], p) for p in pushes):
                tests.append(t[:60])
    # match-arm guards: `Some(x) if visited.insert(..) => push`
    for arm in (x for x in walk(loop) if x.get('k') == 'Arm' and 'guard' in x):
        if 'fresh' in decides(arm['guard'], 'then') and all(any(y is p for y in walk(arm['body'])) for p in pushes):
            tests.append(pp(arm['guard'], maxlen=60))
    if tests:
        return True, 'pushes onto the work list happen only for items not seen before (%s)' % tests[0]
    return False, 'items are pushed back onto the work list (%d site(s)) without a test-and-set on a visited structure in front: an item reachable along several paths is expanded once per path (exponential, or endless on a cycle)' % len(pushes)


def loop_disc(n, ordinal, seen):
    """what distinguishes a loop inside its function without line numbers: its condition (while), else its ordinal."""
    d = None
    if n.get('src') == 'while':
        iff = next((x for x in walk(n) if x.get('k') == 'If'), None)
        if iff is not None:
            c = iff['c']
            d = pp(c['e'] if c.get('k') == 'LetCond' else c, maxlen=48)
    if d is None:
        d = str(ordinal)
    k = seen.get(d, 0)
    seen[d] = k + 1
    return d if k == 0 else '%s#%d' % (d, k + 1)


def switch_starts_per_body(crate, fn):
    """case_body_start_refs gets one entry per body: everything pushed into it sits in the then-branch of
    `if let Some((_, heads)) = bodies.split_last()` as one push plus one extend over `heads`."""
    asserts = [n for n in walk(fn['body']) if n.get('x') == 'assert_eq' or n.get('xi') == 'assert_eq']
    vec = None
    for c in H.calls_in(fn['body']):
        if c.get('m') == 'remove':
            vec = H.root_local(c['recv'])
    if vec is None:
        return False, 'the vector of body start labels was not found'
    fills = [c for c in H.calls_in(fn['body']) if c.get('m') in ('push', 'extend', 'insert') and (H.root_local(c['recv']) or {}).get('hid') == vec['hid']]
    if sorted(c['m'] for c in fills) != ['extend', 'push']:
        return False, 'fills of the start-label vector: %s' % [c['m'] for c in fills]
    conds = []
    for c in fills:
        iff = next((a for a in H.ancestors(fn, c) if a.get('k') == 'If'), None)
        if iff is None or iff['c'].get('k') != 'LetCond' or not any(x.get('m') == 'split_last' for x in H.calls_in(iff['c']['e'])) or not any(x is c for x in walk(iff['then'])):
            return False, '%s(..) into the start-label vector is not under `if let Some(..) = bodies.split_last()`' % c['m']
        conds.append(iff)
    if conds[0] is not conds[1]:
        return False, 'push and extend are under different conditions'
    heads = [b for b in H.pat_bindings(conds[0]['c']['pat'])]
    ext = next(c for c in fills if c['m'] == 'extend')
    if not heads or (H.root_local(ext['args'][0]) or {}).get('hid') != heads[-1]['hid']:
        return False, 'extend does not iterate the `heads` part of split_last()'
    if any(m.get('k') == 'MCall' and m.get('m') in ('skip', 'take', 'filter', 'step_by') for m in walk(ext['args'][0])):
        return False, 'extend iterates a narrowed `heads`'
    return True, 'the start-label vector receives 1 + heads.len() = bodies.len() entries when there is a body and none otherwise; minus the default one => one per case'


def switch_guard_ok(crate):
    fn = crate.fn('typedexpr::walk_stmt')
    if fn is None:
        return False, 'fn walk_stmt not found'
    calls = [c for c in H.calls_in(fn['body']) if c.get('m') == 'visit_switch_statement']
    if len(calls) != 1:
        return False, '%d calls of visit_switch_statement in walk_stmt' % len(calls)
    call = calls[0]
    arg_hids = []
    for a in call['args'][:2]:
        rl = H.root_local(a)
        arg_hids.append(rl.get('hid') if rl is not None else None)
    guard = None
    for anc in H.ancestors(fn, call):
        if anc.get('k') == 'If' and any(x is call for x in walk(anc['then'])):
            guard = anc
            break
    if guard is None:
        return False, 'visit_switch_statement is not inside the then-branch of an if'
    conj = []

    def flat(c):
        if c.get('k') == 'Binary' and c.get('op') == 'And':
            flat(c['l'])
            flat(c['r'])
        else:
            conj.append(c)
    flat(guard['c'])
    covered = set()
    for c in conj:
        if c.get('k') == 'Binary' and c.get('op') == 'Eq':
            sides = [H.strip_refs(c['l']), H.strip_refs(c['r'])]
            if all(s.get('k') == 'MCall' and s.get('m') == 'len' for s in sides):
                for s in sides:
                    rl = H.root_local(s['recv'])
                    if rl is not None:
                        covered.add(rl.get('hid'))
    missing = [h for h in arg_hids if h is None or h not in covered]
    if missing:
        return False, 'the guard of visit_switch_statement does not compare the length of every vector it passes (conditions and bodies) with the number of clauses'
    return True, 'called only under len()==len() tests covering both the conditions and the bodies vector'


def callers_dominated(crate, fn, callee, count):
    name = fn['name']
    sites = []
    for f2 in crate.fn_list:
        for c in H.calls_in(f2['body']):
            if c.get('m') == name or H.callee(c) == fn['path']:
                sites.append((f2, c))
    if not sites:
        return False, 'no caller of %s found' % name
    for f2, c in sites:
        pm = H.parents(f2)
        gs = [g for g in H.calls_in(f2['body']) if H.is_call_to(g, callee) and pm.get(id(g), {}).get('k') == 'Try'
              and H.lexically_precedes_dominating(f2, g, c)]
        if len(gs) < count:
            return False, 'call of %s in %s is dominated by %d `%s(..)?` (need %d)' % (name, short(f2['path']), len(gs), callee, count)
    return True, 'all %d caller(s) dominated by %d `%s(..)?`' % (len(sites), count, callee)


class _Collect:
    def __init__(self):
        self.obs, self.floors = [], []

    def ob(self, rule, key, ok, loc='', detail='', nontrivial=True, fn=None):
        self.obs.append((key, ok, detail))

    def floor(self, rule, count, minimum, what):
        self.floors.append((what, count, minimum))


def layout_flow_positive_general(crate):
    """the divisors of the cursor are flow counts and every flow is built with a count of at least 1 (the lower-bound reading of C12 R12.8,
    which follows the count through lets, closures, helper functions and Option plumbing)"""
    import rules.c12 as c12
    col = _Collect()
    c12.flow_counts_positive(col, crate, 'R12.8')
    bad = [(k, d) for k, ok, d in col.obs if not ok] + [('floor ' + w, '%d < %d' % (c, m)) for w, c, m in col.floors if c < m]
    if bad:
        return False, '; '.join('%s: %s' % b for b in bad[:3])
    return True, '%d divisor / construction obligations of C12 R12.8 hold: every count that reaches the modulo is at least 1' % len(col.obs)


def layout_flow_positive(crate):
    parse = crate.fn('uigen::layout::LayoutFlow::parse')
    if parse is None:
        return False, 'fn LayoutFlow::parse not found'
    # the closure that reads a count property
    ok_closure = None
    for cl in (n for n in walk(parse['body']) if n.get('k') == 'Closure'):
        for n in walk(cl['body']):
            if n.get('k') == 'If':
                c = n['c']
                if c.get('k') == 'Binary' and ((c.get('op') == 'Le' and H.lit_value(c['r']) == 0) or (c.get('op') == 'Lt' and H.lit_value(c['r']) == 1)):
                    vals = list(H.value_exprs(n['then']))
                    if vals and all(v.get('k') == 'Path' and (v.get('def') or '').endswith('Option::None') for v in vals):
                        let_bound = any(site['kind'] == 'let' and site['node'].get('init') is cl for site in H.binding_sites(parse).values())
                        if let_bound:
                            ok_closure = cl
    if ok_closure is None:
        return False, 'LayoutFlow::parse no longer rejects counts <= 0 (no `c <= 0 => None` test in the count-reading closure)'
    bs = H.binding_sites(parse)
    # every construction of a LayoutFlow variant in the crate
    bad = []
    n_ctor = 0
    for fn in crate.fn_list:
        for n in walk(fn['body']):
            if n.get('k') == 'Struct' and 'layout::LayoutFlow::' in (n.get('def') or ''):
                n_ctor += 1
                for f in n['fields']:
                    v = H.strip_refs(f['e'])
                    if v.get('k') == 'Lit' and isinstance(v.get('v'), int) and v['v'] > 0:
                        continue
                    srcs = H.origins(fn, f['e'])
                    good = bool(srcs)
                    for o in srcs:
                        if not (o.get('k') == 'Call' and o['f'].get('k') == 'Path' and o['f'].get('res') == 'local'
                                and bs.get(o['f'].get('hid'), {}).get('node', {}).get('init') is ok_closure and fn is parse):
                            good = False
                    if not good:
                        bad.append('%s.%s = %s' % (short(n['def']), f['f'], pp(f['e'], maxlen=30)))
    if bad:
        return False, 'LayoutFlow built with a count that is not proven positive: ' + '; '.join(bad)
    # default used when the property is absent or rejected
    dflt = [c for c in H.calls_in(ok_closure['body']) if c.get('m') in ('unwrap_or', 'unwrap_or_else', 'unwrap_or_default')]
    if not dflt or any(c.get('m') == 'unwrap_or_default' for c in dflt):
        return False, 'the fallback count is not an explicit positive constant'
    return True, 'counts <= 0 are rejected with None, the fallback is a constant, and all %d LayoutFlow constructions use such counts or positive literals' % n_ctor


def call_graph_sccs(crate):
    """Non-trivial strongly connected components of the local call graph (MIR resolved callees, closures folded into parents)."""
    local = set(m['rawpath'] for m in crate.mir_list)
    # trait-dispatched calls in generic code: connect to every local impl of that method name
    impls_by_name = {}
    for fn in crate.fn_list:
        if fn.get('impl_trait') and not fn.get('x'):
            impls_by_name.setdefault((fn['impl_trait'], fn['name']), []).append(fn['path'])

    def base(p):
        return p.split('::{closure')[0]
    raw_of = {}
    for fn in crate.fn_list:
        raw_of.setdefault(fn['path'], []).append(fn['rawpath'])
    g = {}
    for m in crate.mir_list:
        src = base(m['rawpath'])
        g.setdefault(src, set())
        for b in m['blocks']:
            t = b['term']
            if t.get('k') != 'Call':
                continue
            tgt = t.get('rawinst') or t.get('rawdef')
            if tgt in local:
                if base(tgt) == src and '::{closure' in tgt:
                    continue  # a fn calling its own closure is not recursion
                g[src].add(base(tgt))
            elif t.get('def') and t.get('inst') is None and not re.match(r'^(std|core|alloc)::', t['def']):
                # unresolved call through a local trait (generic visitor code): every local impl of that method
                d = t['def']
                segs = d.rsplit('::', 1)
                if len(segs) == 2:
                    for p in impls_by_name.get((segs[0], segs[1]), []):
                        for rp in raw_of.get(p, []):
                            g[src].add(rp)
    # Tarjan
    index = {}
    low = {}
    stack = []
    on = set()
    out = []
    counter = [0]
    import sys
    sys.setrecursionlimit(10000)

    def sc(v):
        index[v] = low[v] = counter[0]
        counter[0] += 1
        stack.append(v)
        on.add(v)
        for w in g.get(v, ()):
            if w not in index:
                sc(w)
                low[v] = min(low[v], low[w])
            elif w in on:
                low[v] = min(low[v], index[w])
        if low[v] == index[v]:
            comp = []
            while True:
                w = stack.pop()
                on.discard(w)
                comp.append(w)
                if w == v:
                    break
            if len(comp) > 1 or v in g.get(v, ()):
                out.append(comp)
    for v in sorted(g):
        if v not in index:
            sc(v)
    # drop derive-generated cycles
    derived = set(fn['rawpath'] for fn in crate.fn_list if fn.get('x') in panicsites.DERIVES)
    from facts import strip_generics
    return [[strip_generics(x) for x in c] for c in out if not all(x in derived for x in c)]
